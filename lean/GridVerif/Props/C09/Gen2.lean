/-
  C09, round 3 — tie of the generated `convert_cartesian_to_spherical`, of the generated inner `interpolate_low` of
  `AtomGrid.interpolate` and of the generated inner `interpolate_low` of `MolGrid.interpolate` (`Gen/AtomInterp.lean`, written by
  `harness/translate/atominterp.py` from `grid/atomgrid.py` / `grid/molgrid.py` on every run; the calls of `convert_cart_to_sph`
  and `convert_derivative_from_spherical_to_cartesian` go to the generated routines of `Gen/Harmonics.lean`) to the hand model
  `Model/AtomInterp.lean` about which the theorems of `Props/C09.lean` are stated.

  * `gen_cartToSph_eq_model`, `gen_convDeriv_eq_model` — the two routines of `grid/utils.py` as generated equal the hand
    model's `cartToSph`, `sphToCartDeriv` (every scalar type);
  * `gen_convert_points`, `gen_convert_points_flat`, `gen_convert_rejects`, `gen_convert_atomic`, `gen_basis_angles_eq_model`
    — `convert_cartesian_to_spherical`: points given as `(n, 3)` or flat `(3 n,)`, the rejected shapes, and the no-argument
    form whose angles are `gridAngles` (canonical angles exactly on the shells with `r == 0`);
  * `gen_interpolate_low_eq_model` — the whole body of `interpolate_low` equals the hand model's `interpolateLow`
    for every order, flag combination, spline family and harmonics family (every scalar type);
  * `gen_mol_low_eq_model`, `gen_mol_low_empty`, `gen_mol_interp_is_sum` — the summation loop of `MolGrid.interpolate`;
  * `gen_defaults`, `gen_default_call_is_value` — the defaults of both signatures: `F(points)` is the value clause.
-/
import GridVerif.Gen.AtomInterp
import GridVerif.Props.C09.Gen

set_option linter.unusedSectionVars false
set_option linter.unusedVariables false

namespace GridVerif.C09
open GridVerif.AtomInterp GridVerif.GenBase GridVerif.Gen.AtomInterp

section generic
variable {K : Type} [Add K] [Sub K] [Mul K] [Div K] [Neg K] [NatCast K] [Elem K] [LT K] [DecidableLT K]

theorem gen_cartToSph_eq_model (c p : Vec3 K) :
    Gen.Harmonics.cartToSph p.tup c.tup = ((cartToSph c p).r, (cartToSph c p).theta, (cartToSph c p).phi) := by
  unfold Gen.Harmonics.cartToSph cartToSph Vec3.tup nonzero eqK
  simp only []
  generalize Elem.sqrt ((p.x - c.x) * (p.x - c.x) + (p.y - c.y) * (p.y - c.y) + (p.z - c.z) * (p.z - c.z)) = r
  by_cases h : (r < ((0 : Nat) : K) ∨ ((0 : Nat) : K) < r) <;> simp [h]

@[simp] theorem row3_ofRows (n : Nat) (P : Nat → Vec3 K) (j : Nat) : (NdArr.ofRows n P).row3 j = (P j).tup := by
  simp [NdArr.row3, NdArr.ofRows, Vec3.tup, Vec3.comp, Nat.mul_add_div]

@[simp] theorem ndim_ofRows (n : Nat) (P : Nat → Vec3 K) : (NdArr.ofRows n P).ndim = 2 := rfl
@[simp] theorem shape_ofRows (n : Nat) (P : Nat → Vec3 K) : (NdArr.ofRows n P).shape = [n, 3] := rfl
@[simp] theorem ndim_ofRowsFlat (n : Nat) (P : Nat → Vec3 K) : (NdArr.ofRowsFlat n P).ndim = 1 := rfl

theorem reshape_flat (n : Nat) (P : Nat → Vec3 K) :
    pyReshape (NdArr.ofRowsFlat n P) [(-1 : Int), (3 : Int)] = some (NdArr.ofRows n P) := by
  simp [pyReshape, NdArr.ofRowsFlat, NdArr.ofRows, NdArr.size]

/-- the triple `(r, θ, φ)` of the hand model's `cartToSph`. -/
def sphTup (c p : Vec3 K) : K × K × K := ((cartToSph c p).r, (cartToSph c p).theta, (cartToSph c p).phi)

/-- points handed over as an `(n, 3)` array -/
theorem gen_convert_points (g : AGrid K) (n : Nat) (P : Nat → Vec3 K) (c : Option (Vec3 K)) :
    convertCartesianToSpherical g (some (NdArr.ofRows n P)) (c.map Vec3.tup) =
      .ok (n, fun j => sphTup (c.getD g.center) (P j)) := by
  unfold convertCartesianToSpherical cartToSphArr sphTup
  cases c <;>
  simp [Gen.Harmonics.cartToSphRejectsPoints, Gen.Harmonics.centerOrOrigin, bind, Except.bind, pure, Except.pure, gen_cartToSph_eq_model]

/-- points handed over as a flat array of length `3 n` (a single point of shape `(3,)` is `n = 1`) -/
theorem gen_convert_points_flat (g : AGrid K) (n : Nat) (P : Nat → Vec3 K) (c : Option (Vec3 K)) :
    convertCartesianToSpherical g (some (NdArr.ofRowsFlat n P)) (c.map Vec3.tup) =
      .ok (n, fun j => sphTup (c.getD g.center) (P j)) := by
  unfold convertCartesianToSpherical cartToSphArr sphTup
  cases c <;>
  simp [reshape_flat, Gen.Harmonics.cartToSphRejectsPoints, Gen.Harmonics.centerOrOrigin, bind, Except.bind, pure, Except.pure, gen_cartToSph_eq_model]

/-- rejected shapes: a one-dimensional array whose length is not a multiple of 3, an array of three or more dimensions,
a two-dimensional array whose rows do not have three entries. -/
theorem gen_convert_rejects (g : AGrid K) (a : NdArr K) (c : Option (K × K × K))
    (h : (a.ndim = 1 ∧ a.size % 3 ≠ 0) ∨ 3 ≤ a.ndim ∨ (a.ndim = 2 ∧ a.shape.getD 1 0 ≠ 3)) :
    convertCartesianToSpherical g (some a) c = .error .valueError := by
  unfold convertCartesianToSpherical cartToSphArr
  rcases h with ⟨h1, h2⟩ | h | ⟨h1, h2⟩
  · simp [h1, pyReshape, h2, bind, Except.bind]
  · have : a.ndim ≠ 1 := by omega
    have h2 : a.ndim ≠ 2 := by omega
    simp [this, h2, Gen.Harmonics.cartToSphRejectsPoints, bind, Except.bind, pure, Except.pure]
  · have h2' : a.shape[1]?.getD 0 ≠ 3 := by simpa [List.getD_eq_getElem?_getD] using h2
    simp [h1, h2', Gen.Harmonics.cartToSphRejectsPoints, bind, Except.bind, pure, Except.pure]

theorem centerOrOrigin_none : (Gen.Harmonics.centerOrOrigin (none : Option (K × K × K))) = (origin : Vec3 K).tup := rfl

/-- the overwriting loop of the atomic branch, generated and hand-written, side by side -/
theorem atomic_fold (g : AGrid K) (l : List Nat) (acc : Nat × (Nat → K × K × K)) (accM : Nat → K × K)
    (h : ∀ j, ((acc.2 j).2.1, (acc.2 j).2.2) = accM j) :
    (l.foldl (fun (sp : Nat × (Nat → K × K × K)) i =>
        if decide (eqK (g.r i) ((0 : Nat) : K)) = true then
          (sp.1, fun j =>
            if g.idx i ≤ j ∧ j < g.idx (i + 1) then
              colsFrom 1 (sp.2 j) (Gen.Harmonics.cartToSph (g.regenPts i (j - g.idx i)).tup (Gen.Harmonics.centerOrOrigin none))
            else sp.2 j)
        else sp) acc).1 = acc.1 ∧
    ∀ j,
      ((l.foldl (fun (sp : Nat × (Nat → K × K × K)) i =>
        if decide (eqK (g.r i) ((0 : Nat) : K)) = true then
          (sp.1, fun j =>
            if g.idx i ≤ j ∧ j < g.idx (i + 1) then
              colsFrom 1 (sp.2 j) (Gen.Harmonics.cartToSph (g.regenPts i (j - g.idx i)).tup (Gen.Harmonics.centerOrOrigin none))
            else sp.2 j)
        else sp) acc).2 j).1 = (acc.2 j).1 ∧
      (let R := (l.foldl (fun (sp : Nat × (Nat → K × K × K)) i =>
        if decide (eqK (g.r i) ((0 : Nat) : K)) = true then
          (sp.1, fun j =>
            if g.idx i ≤ j ∧ j < g.idx (i + 1) then
              colsFrom 1 (sp.2 j) (Gen.Harmonics.cartToSph (g.regenPts i (j - g.idx i)).tup (Gen.Harmonics.centerOrOrigin none))
            else sp.2 j)
        else sp) acc).2 j; (R.2.1, R.2.2)) =
      l.foldl (fun acc i =>
        if nonzero (g.r i) then acc
        else fun j =>
          if g.idx i ≤ j ∧ j < g.idx (i + 1) then
            let s := cartToSph origin (g.regenPts i (j - g.idx i))
            (s.theta, s.phi)
          else acc j) accM j := by
  induction l generalizing acc accM with
  | nil => exact ⟨rfl, fun j => ⟨rfl, h j⟩⟩
  | cons i l ih =>
    simp only [List.foldl_cons]
    by_cases hz : nonzero (g.r i)
    · have he : ¬ eqK (g.r i) ((0 : Nat) : K) := fun he => he hz
      simp only [he, hz, decide_false, Bool.false_eq_true, if_false, if_true]
      exact ih acc accM h
    · have he : eqK (g.r i) ((0 : Nat) : K) := hz
      simp only [he, hz, decide_true, if_true, if_false]
      have := ih (acc.1, fun j =>
            if g.idx i ≤ j ∧ j < g.idx (i + 1) then
              colsFrom 1 (acc.2 j) (Gen.Harmonics.cartToSph (g.regenPts i (j - g.idx i)).tup (Gen.Harmonics.centerOrOrigin none))
            else acc.2 j)
          (fun j =>
          if g.idx i ≤ j ∧ j < g.idx (i + 1) then
            let s := cartToSph origin (g.regenPts i (j - g.idx i))
            (s.theta, s.phi)
          else accM j)
          (by
            intro j
            by_cases hj : g.idx i ≤ j ∧ j < g.idx (i + 1)
            · simp only [hj, and_self, if_true, colsFrom, centerOrOrigin_none, gen_cartToSph_eq_model]
            · simp only [hj, if_false]; exact h j)
      refine ⟨this.1, fun j => ⟨?_, (this.2 j).2⟩⟩
      rw [(this.2 j).1]
      by_cases hj : g.idx i ≤ j ∧ j < g.idx (i + 1)
      · simp only [hj, and_self, if_true, colsFrom]
      · simp only [hj, if_false]

/-- no argument: the atomic grid points; the angles are `gridAngles` of the hand model (canonical angles on shells with `r == 0`) -/
theorem gen_convert_atomic (g : AGrid K) :
    ∃ sp, convertCartesianToSpherical g none none = .ok (g.npts, sp) ∧
      ∀ j, (sp j).1 = (cartToSph g.center (g.pts j)).r ∧ ((sp j).2.1, (sp j).2.2) = gridAngles g j := by
  have key := atomic_fold g (List.range g.nShells)
    (g.npts, fun j => ((cartToSph g.center (g.pts j)).r, (cartToSph g.center (g.pts j)).theta, (cartToSph g.center (g.pts j)).phi))
    (fun j => let s := cartToSph g.center (g.pts j); (s.theta, s.phi)) (fun j => rfl)
  refine ⟨_, ?_, fun j => ⟨(key.2 j).1, ?_⟩⟩
  rotate_left
  · rw [gridAngles]; exact (key.2 j).2
  · unfold convertCartesianToSpherical cartToSphArr
    simp only [AGrid.pointsArr, ndim_ofRows, shape_ofRows, Gen.Harmonics.cartToSphRejectsPoints, Gen.Harmonics.centerOrOrigin, bind, Except.bind, pure, Except.pure,
      List.foldl_filter, row3_ofRows, gen_cartToSph_eq_model]
    simp only [show (2 : Nat) ≠ 1 from by decide, if_false, show ((2 != 2) || ([g.idx g.nShells, 3].getD 1 0 != 3)) = false from by simp, Bool.false_eq_true, if_true]
    congr 1
    exact Prod.ext key.1 rfl

theorem gen_convDeriv_eq_model (dr dt dp r θ φ : K) :
    Gen.Harmonics.convDeriv dr dt dp r θ φ =
      [(sphToCartDeriv dr dt dp r θ φ).x, (sphToCartDeriv dr dt dp r θ φ).y, (sphToCartDeriv dr dt dp r θ φ).z] := by
  unfold Gen.Harmonics.convDeriv Gen.Harmonics.convJacobian sphToCartDeriv tiny10
  generalize ((1 : Nat) : K) / ((10000000000 : Nat) : K) = tol
  by_cases hr : Elem.abs r < tol <;> by_cases hp : Elem.abs φ < tol <;> simp [hr, hp, setCol]

theorem map_range_getD {α β : Type} (l : List α) (d : α) (f : α → β) :
    (List.range l.length).map (fun j => f (l.getD j d)) = l.map f := by
  apply List.ext_getElem
  · simp
  · intro k h1 h2
    have hk : k < l.length := by simpa using h1
    simp [List.getD_eq_getElem?_getD, List.getElem?_eq_getElem hk]

theorem foldl_set_range {α : Type} (n : Nat) (f : Nat → α) (z : α) :
    (List.range' 0 (n - 0)).foldl (fun d i => d.set i (f i)) (List.replicate n z) = (List.range n).map f := by
  have gen : ∀ k, k ≤ n → (List.range k).foldl (fun d i => d.set i (f i)) (List.replicate n z)
      = (List.range k).map f ++ List.replicate (n - k) z := by
    intro k
    induction k with
    | zero => intro _; simp
    | succ k ih =>
      intro hk
      rw [List.range_succ, List.foldl_append, ih (by omega)]
      simp only [List.foldl_cons, List.foldl_nil, List.map_append, List.map_cons, List.map_nil]
      have hlen : ((List.range k).map f).length = k := by simp
      have : n - k = (n - (k + 1)) + 1 := by omega
      rw [this, List.replicate_succ]
      rw [List.set_append_right _ _ (by simp)]
      simp
  have := gen n (Nat.le_refl n)
  simpa [List.range_eq_range'] using this

/-- **Tie: `interpolate_low`** -/
theorem gen_interpolate_low_eq_model (g : AGrid K) (S : Nat → K → Nat → K) (Yl : Nat → Nat → K → K → K)
    (dYl : Nat → Nat → Nat → K → K → K) (pts : List (Vec3 K)) (deriv : Nat) (ds orad : Bool) :
    Gen.AtomInterp.interpolateLow g (nRows (g.lMax / 2)) S Yl dYl (NdArr.ofRows pts.length (fun j => pts.getD j origin)) deriv ds orad =
      AtomInterp.interpolateLow S (Yl (g.lMax / 2)) (dYl (g.lMax / 2) 0) (dYl (g.lMax / 2) 1) (g.lMax / 2) g.center pts deriv ds orad := by
  unfold Gen.AtomInterp.interpolateLow
  have hc := gen_convert_points g pts.length (fun j => pts.getD j origin) none
  simp only [Option.map_none, Option.getD_none] at hc
  rw [hc]
  unfold AtomInterp.interpolateLow assemble
  simp only [bind, Except.bind, sphTup]
  by_cases h1 : (!orad && deriv == 1) = true
  · simp only [h1, if_true]
    cases ds
    · simp only [Bool.false_eq_true, if_false, foldl_set_range, gen_convDeriv_eq_model, List.length_map]
      congr 2
      rw [List.flatMap_def, List.map_map, ← map_range_getD pts origin]
      rfl
    · simp only [if_true, List.length_map]
      congr 2
      · congr 1; omega
      · simp only [← map_range_getD pts origin, List.map_map]
        rfl
  · simp only [h1, Bool.false_eq_true, if_false]
    by_cases h2 : (!orad && deriv != 0) = true
    · simp only [h2, if_true]
    · simp only [h2, Bool.false_eq_true, if_false, List.length_map]
      congr 2
      simp only [← map_range_getD pts origin, List.map_map]
      rfl

theorem foldlM_eq_foldl {α : Type} (l : List α) (outs : α → Except Err (List Nat × List K)) (acc : Except Err (List Nat × List K)) :
    (acc >>= fun a => l.foldlM (fun output x => do
        let rhs ← outs x
        pure (output.1, addOut output.2 rhs.2)) a) =
    l.foldl (fun acc x => do
        let a ← acc
        let b ← outs x
        pure (a.1, addOut a.2 b.2)) acc := by
  induction l generalizing acc with
  | nil => cases acc <;> rfl
  | cons x l ih =>
    simp only [List.foldlM_cons, List.foldl_cons]
    rw [← ih]
    cases acc with
    | error e => rfl
    | ok a => cases h : outs x <;> simp [bind, Except.bind, pure, Except.pure]

/-- **Tie: the inner `interpolate_low` of `MolGrid.interpolate`** -/
theorem gen_mol_low_eq_model {P : Type} (n : Nat) (F : Nat → P → Nat → Bool → Bool → Except Err (List Nat × List K))
    (p : P) (d : Nat) (s o : Bool) :
    molInterpolateLow ((List.range (n + 1)).map F) p d s o = molCombine (n + 1) (fun A => F A p d s o) := by
  unfold molInterpolateLow molCombine
  have h0 : ((List.range (n + 1)).map F)[0]? = some (F 0) := by simp
  have hd : ((List.range (n + 1)).map F).drop 1 = (List.range n).map (fun A => F (A + 1)) := by
    rw [← List.map_drop, List.range_succ_eq_map, List.drop_one, List.tail_cons, List.map_map]; rfl
  rw [h0, hd]
  simp only [Nat.add_sub_cancel]
  have := foldlM_eq_foldl (K := K) (List.range n) (fun A => F (A + 1) p d s o) (F 0 p d s o)
  rw [← this]
  simp only [List.foldlM_map, bind, Except.bind, pure, Except.pure]

/-- a molecule without atoms cannot be interpolated (`interpolate_funcs[0]` raises `IndexError`) -/
theorem gen_mol_low_empty {P : Type} (p : P) (d : Nat) (s o : Bool) :
    molInterpolateLow ([] : List (P → Nat → Bool → Bool → Except Err (List Nat × List K))) p d s o = .error .indexError := rfl


/-- **Tie: the angles of the cached basis.** `theta, phi = self.convert_cartesian_to_spherical().T[1:]` of
`radial_component_splines`, through the generated routine, are the `gridAngles` of the hand model. -/
theorem gen_basis_angles_eq_model (g : AGrid K) : basisAngles g = .ok (gridAngles g) := by
  obtain ⟨sp, h, hs⟩ := gen_convert_atomic g
  unfold basisAngles
  rw [h]
  simp only [bind, Except.bind, pure, Except.pure]
  congr 1
  funext j
  exact (hs j).2

/-- **Defaults of the two signatures** (`deriv=0, deriv_spherical=False, only_radial_deriv(s)=False`) and the condition of the warning. -/
theorem gen_defaults (ds orad : Bool) :
    interpolateLowDefaults = (0, false, false) ∧ molInterpolateLowDefaults = (0, false, false) ∧
      warnsFlagIgnored ds orad = (ds && orad) := ⟨rfl, rfl, rfl⟩

end generic

/-- **`F(points)` is the value clause**: the generated `interpolate_low` called with the defaults of its signature returns, point by
point, `Σ_row spline_row(r) Y_row(θ, φ)` at the spherical coordinates of the point about the centre. -/
theorem gen_default_call_is_value (g : AGrid ℝ) (S : ℕ → ℝ → ℕ → ℝ) (Yl : ℕ → ℕ → ℝ → ℝ → ℝ) (dYl : ℕ → ℕ → ℕ → ℝ → ℝ → ℝ)
    (pts : List (Vec3 ℝ)) :
    Gen.AtomInterp.interpolateLow g (nRows (g.lMax / 2)) S Yl dYl (NdArr.ofRows pts.length (fun j => pts.getD j origin))
        interpolateLowDefaults.1 interpolateLowDefaults.2.1 interpolateLowDefaults.2.2 =
      .ok ([pts.length], pts.map fun p => interpolantAt S (Yl (g.lMax / 2)) (g.lMax / 2) (cartToSph g.center p)) := by
  rw [gen_interpolate_low_eq_model]
  simp only [interpolateLowDefaults]
  rw [interpolant_is_sum]
  simp only [interpolantAt_eq]

/-- **Clause "molecular interpolation is the sum of the atomic interpolants of w_A f"**, about the generated summation loop applied to
the atomic interpolants of `(f · aim_weights)[indices[A]:indices[A+1]]`. -/
theorem gen_mol_interp_is_sum (interp : List ℝ → List ℝ → ℝ → ℕ → ℝ) (m : MGrid ℝ) (n : ℕ)
    (hn : m.nAtoms = n + 1) (Y dYt dYp : ℕ → ℝ → ℝ → ℝ) (f : ℕ → ℝ) (points : List (Vec3 ℝ)) (ds orad : Bool) :
    molInterpolateLow ((List.range (n + 1)).map fun A => interpolate interp (m.atom A) Y dYt dYp (atomFuncVals m f A))
        points molInterpolateLowDefaults.1 ds orad =
      .ok ([points.length], points.map fun p => ∑ A ∈ Finset.range (n + 1),
        interpolantAt (AtomInterp.radialComponentSplines interp (m.atom A) Y (atomFuncVals m f A)) Y
          ((m.atom A).lMax / 2) (cartToSph (m.atom A).center p)) := by
  rw [gen_mol_low_eq_model, ← mol_interp_is_sum interp m n hn Y dYt dYp f points ds orad]
  unfold AtomInterp.molInterpolate
  rw [hn]
  rfl

/-! ## the two hard-coded windows of the decomposition side, about the regenerated constants -/

/-- **Window of the regenerated angular weights** (`np.where(self.rgrid.points < 1e-8)`): on a shell with `r_i < 1e-8` the generated
`integrate_angular_coordinates` is the sum against the weights of the rebuilt `AngularGrid`, from `1e-8` on it is the shell sum
divided by `r_i² w_i` — the constant is the one in the source. -/
theorem gen_integrate_window (g : AGrid ℝ) (f : ℕ → ℝ) (i : ℕ) :
    (g.r i < 1 / 100000000 → Gen.AtomInterp.integrateAngular g f i =
        sumTo (g.idx (i + 1) - g.idx i) (fun k => f (g.idx i + k) * g.regenW i k)) ∧
    (1 / 100000000 ≤ g.r i → Gen.AtomInterp.integrateAngular g f i =
        sumIco (g.idx i) (g.idx (i + 1)) (fun j => f j * g.wts j) / (g.r i * g.r i * g.w i)) := by
  have ht : (tiny8 : ℝ) = 1 / 100000000 := by unfold tiny8; norm_num
  rw [gen_integrate_eq_model]
  unfold AtomInterp.integrateAngular shellSum AGrid.size
  rw [ht]
  refine ⟨fun h => by rw [if_pos h], fun h => by rw [if_neg (not_lt.mpr h)]⟩

example : Gen.AtomInterp.integrateAngular exGrid fEx 0 =
    sumIco (exGrid.idx 0) (exGrid.idx 1) (fun j => fEx j * exGrid.wts j) / (exGrid.r 0 * exGrid.r 0 * exGrid.w 0) :=
  (gen_integrate_window exGrid fEx 0).2 (by simp [exGrid]; norm_num)

/-- **Window of the canonical angles** (`np.where(self.rgrid.points == 0.0)`): on a grid without a radial node exactly at `0` — nodes
strictly between `0` and `1e-8` included — the angles of the cached basis are those of the grid points about the centre, for every
rotation: only `r_i == 0` shells are given the angles of the unrotated angular grid. -/
theorem gen_convert_atomic_window (g : AGrid ℝ) (h : ∀ i < g.nShells, g.r i ≠ 0) :
    basisAngles g = .ok (fun j => ((cartToSph g.center (g.pts j)).theta, (cartToSph g.center (g.pts j)).phi)) := by
  rw [gen_basis_angles_eq_model]
  congr 1
  unfold gridAngles
  have key : ∀ (l : List ℕ) (acc : ℕ → ℝ × ℝ), (∀ i ∈ l, nonzero (g.r i)) →
      l.foldl (fun acc i =>
        if nonzero (g.r i) then acc
        else fun j =>
          if g.idx i ≤ j ∧ j < g.idx (i + 1) then
            let s := cartToSph origin (g.regenPts i (j - g.idx i))
            (s.theta, s.phi)
          else acc j) acc = acc := by
    intro l
    induction l with
    | nil => intro acc _; rfl
    | cons i l ih =>
      intro acc hl
      rw [List.foldl_cons, if_pos (hl i (List.mem_cons_self)), ih acc (fun k hk => hl k (List.mem_cons_of_mem _ hk))]
  apply key
  intro i hi
  have := h i (List.mem_range.mp hi)
  unfold nonzero
  simp only [Nat.cast_zero]
  exact lt_or_gt_of_ne this

example : basisAngles exGrid = .ok (fun j => ((cartToSph exGrid.center (exGrid.pts j)).theta, (cartToSph exGrid.center (exGrid.pts j)).phi)) :=
  gen_convert_atomic_window exGrid (fun i _ => by simp [exGrid]; positivity)

/-! non-vacuity on the two-shell octahedral example grid -/

example : ∃ sp, convertCartesianToSpherical exGrid none none = .ok (12, sp) ∧
    ∀ j, ((sp j).2.1, (sp j).2.2) = gridAngles exGrid j := by
  obtain ⟨sp, h, hs⟩ := gen_convert_atomic exGrid
  exact ⟨sp, h, fun j => (hs j).2⟩

example (P : ℕ → Vec3 ℝ) : convertCartesianToSpherical exGrid (some (NdArr.ofRowsFlat 1 P)) none =
    .ok (1, fun j => sphTup exGrid.center (P j)) := gen_convert_points_flat exGrid 1 P none

example : convertCartesianToSpherical exGrid (some ⟨[2, 2], fun _ => (1 : ℝ)⟩) none = .error .valueError :=
  gen_convert_rejects exGrid _ none (Or.inr (Or.inr ⟨rfl, by decide⟩))

example (S : ℕ → ℝ → ℕ → ℝ) (Yl : ℕ → ℕ → ℝ → ℝ → ℝ) (dYl : ℕ → ℕ → ℕ → ℝ → ℝ → ℝ) (p : Vec3 ℝ) :
    Gen.AtomInterp.interpolateLow exGrid 4 S Yl dYl (NdArr.ofRows 1 (fun j => [p].getD j origin)) 2 false false = .error .valueError := by
  have := gen_interpolate_low_eq_model exGrid S Yl dYl [p] 2 false false
  rw [ex_lMax] at this
  exact this.trans rfl

end GridVerif.C09

/-
  C09, round 6 — `MolGrid.interpolate` as generated statement by statement (`Gen.AtomInterp.molInterpolate`, written by
  `harness/translate/atominterp.py` from `grid/molgrid.py` on every run): the product with the atom-in-molecule weights, the loop over
  the atoms with its slice bounds, the inner `interpolate_low`.

  * `gen_mol_interpolate_eq_model` — the generated routine is the hand model's `molInterpolate` for every number of atoms ≥ 1;
  * `gen_mol_one_atom`             — special case = general formula: with ONE atom the molecular interpolant is the atomic interpolant of
                                      `(func_vals * aim_weights)[indices[0]:indices[1]]` — the weights are not dropped (whatever the atomic
                                      routine is);
  * `gen_mol_is_sum_of_atomic`     — the clause of the property about the generated text: the value returned at the points is the sum over
                                      the atoms of the atomic interpolants of `(w_A f)[segment]`, for every number of atoms incl. one.
-/
import GridVerif.Props.C09.Gen2

set_option linter.unusedSectionVars false
set_option linter.unusedVariables false

namespace GridVerif.C09
open GridVerif.AtomInterp GridVerif.GenBase

section generic
variable {K : Type} [Add K] [Sub K] [Mul K] [Div K] [Neg K] [NatCast K] [Elem K] [LT K] [DecidableLT K]

/-- **Tie: `MolGrid.interpolate`.** For a molecule of `n + 1` atoms (every `n`, so also one atom) the generated routine applied to the
hand model's atomic `interpolate` is the hand model's `molInterpolate`. -/
theorem gen_mol_interpolate_eq_model (interp : List K → List K → K → Nat → K) (m : MGrid K) (n : Nat) (hn : m.nAtoms = n + 1)
    (Y dYt dYp : Nat → K → K → K) (f : Nat → K) (points : List (Vec3 K)) (d : Nat) (s o : Bool) :
    Gen.AtomInterp.molInterpolate m (fun g fa => AtomInterp.interpolate interp g Y dYt dYp fa) f points d s o =
      AtomInterp.molInterpolate interp m Y dYt dYp f points d s o := by
  unfold Gen.AtomInterp.molInterpolate AtomInterp.molInterpolate
  simp only [hn]
  rw [gen_mol_low_eq_model n (fun A => AtomInterp.interpolate interp (m.atom A) Y dYt dYp (fun j => f (m.aidx A + j) * m.aim (m.aidx A + j)))]
  rfl

/-- **One atom = the general formula at one atom.** Whatever the atomic routine is: with a single atom `MolGrid.interpolate(f)` is the
atomic interpolant of `(f * aim_weights)[indices[0]:indices[1]]` — the atom-in-molecule weights (Becke's are 1 on a single centre, a user's
array or callable need not be) are applied. -/
theorem gen_mol_one_atom {P : Type} (m : MGrid K) (h1 : m.nAtoms = 1)
    (atomI : AGrid K → (Nat → K) → P → Nat → Bool → Bool → Except Err (List Nat × List K)) (f : Nat → K) (p : P) (d : Nat) (s o : Bool) :
    Gen.AtomInterp.molInterpolate m atomI f p d s o = atomI (m.atom 0) (fun j => f (m.aidx 0 + j) * m.aim (m.aidx 0 + j)) p d s o := by
  unfold Gen.AtomInterp.molInterpolate Gen.AtomInterp.molInterpolateLow
  simp only [h1, List.range_one, List.map_cons, List.map_nil, List.getElem?_cons_zero, List.drop_one, List.tail_cons, List.foldlM_nil, bind, Except.bind, pure, Except.pure]
  cases atomI (m.atom 0) (fun j => f (m.aidx 0 + j) * m.aim (m.aidx 0 + j)) p d s o <;> rfl

end generic

/-- **Clause "molecular interpolation is the sum of the atomic interpolants of w_A f"**, about the generated `MolGrid.interpolate` (the
product with the weights and the slicing included), for every number of atoms `n + 1 ≥ 1`. -/
theorem gen_mol_is_sum_of_atomic (interp : List ℝ → List ℝ → ℝ → ℕ → ℝ) (m : MGrid ℝ) (n : ℕ) (hn : m.nAtoms = n + 1)
    (Y dYt dYp : ℕ → ℝ → ℝ → ℝ) (f : ℕ → ℝ) (points : List (Vec3 ℝ)) (ds orad : Bool) :
    Gen.AtomInterp.molInterpolate m (fun g fa => AtomInterp.interpolate interp g Y dYt dYp fa) f points 0 ds orad =
      .ok ([points.length], points.map fun p => ∑ A ∈ Finset.range (n + 1),
        interpolantAt (AtomInterp.radialComponentSplines interp (m.atom A) Y (fun j => f (m.aidx A + j) * m.aim (m.aidx A + j))) Y
          ((m.atom A).lMax / 2) (cartToSph (m.atom A).center p)) := by
  rw [gen_mol_interpolate_eq_model interp m n hn, mol_interp_is_sum interp m n hn]
  rfl

/-! non-vacuity: one atom (the example grid) with weights that are not identically 1 -/

/-- a one-atom molecule on the example grid whose atom-in-molecule weights are `2 + j` on point `j`. -/
noncomputable def molEx : MGrid ℝ := { nAtoms := 1, atom := fun _ => exGrid, aidx := fun A => 12 * A, aim := fun j => 2 + (j : ℝ) }

example {P : Type} (atomI : AGrid ℝ → (ℕ → ℝ) → P → ℕ → Bool → Bool → Except Err (List ℕ × List ℝ)) (p : P) :
    Gen.AtomInterp.molInterpolate molEx atomI fEx p 0 false false = atomI exGrid (fun j => fEx (0 + j) * (2 + ((0 + j : ℕ) : ℝ))) p 0 false false :=
  gen_mol_one_atom molEx rfl atomI fEx p 0 false false

example (points : List (Vec3 ℝ)) :
    Gen.AtomInterp.molInterpolate molEx (fun g fa => AtomInterp.interpolate lagrangeInterp g Yex dYtEx dYpEx fa) fEx points 0 false false =
      .ok ([points.length], points.map fun p => ∑ A ∈ Finset.range 1,
        interpolantAt (AtomInterp.radialComponentSplines lagrangeInterp (molEx.atom A) Yex (fun j => fEx (molEx.aidx A + j) * molEx.aim (molEx.aidx A + j))) Yex
          ((molEx.atom A).lMax / 2) (cartToSph (molEx.atom A).center p)) :=
  gen_mol_is_sum_of_atomic lagrangeInterp molEx 0 rfl Yex dYtEx dYpEx fEx points false false

end GridVerif.C09

/-
  C09 — non-vacuity: the hypotheses of every theorem of `Props/C09.lean` hold on a concrete two-shell
  atomic grid with octahedral shells (degree 3), the real harmonics of degree ≤ 1, a band-limited
  function with four non-zero coefficient functions and polynomial interpolation as the spline.
-/
import GridVerif.Props.C09
import Mathlib.Analysis.SpecialFunctions.Trigonometric.Inverse
import Mathlib.Analysis.SpecialFunctions.Complex.Arg
import Mathlib.Tactic.IntervalCases
import Mathlib.Tactic.NormNum

namespace GridVerif.C09
open GridVerif.AtomInterp Finset

/-! ## non-vacuity: a concrete two-shell grid with octahedral shells -/

/-- the six points of the octahedral rule (degree 3). -/
noncomputable def oct : ℕ → Vec3 ℝ
  | 0 => ⟨1, 0, 0⟩ | 1 => ⟨-1, 0, 0⟩ | 2 => ⟨0, 1, 0⟩ | 3 => ⟨0, -1, 0⟩ | 4 => ⟨0, 0, 1⟩ | _ => ⟨0, 0, -1⟩

/-- two shells of radii 1 and 2 about the origin, six points each, angular weights `4π/6`. -/
noncomputable def exGrid : AGrid ℝ where
  nShells := 2
  r := fun i => (i : ℝ) + 1
  w := fun _ => 1
  deg := fun _ => 3
  idx := fun i => 6 * i
  wts := fun j => 2 * Real.pi / 3 * 1 * (((j / 6 : ℕ) : ℝ) + 1) ^ 2
  pts := fun j => ⟨(((j / 6 : ℕ) : ℝ) + 1) * (oct (j % 6)).x, (((j / 6 : ℕ) : ℝ) + 1) * (oct (j % 6)).y,
    (((j / 6 : ℕ) : ℝ) + 1) * (oct (j % 6)).z⟩
  center := ⟨0, 0, 0⟩
  regenW := fun _ _ => 2 * Real.pi / 3
  regenPts := fun _ k => oct k

theorem cartToSph_axes (ρ : ℝ) (hρ : 0 < ρ) :
    cartToSph (⟨0, 0, 0⟩ : Vec3 ℝ) ⟨ρ, 0, 0⟩ = ⟨ρ, 0, Real.pi / 2⟩ ∧
    cartToSph (⟨0, 0, 0⟩ : Vec3 ℝ) ⟨-ρ, 0, 0⟩ = ⟨ρ, Real.pi, Real.pi / 2⟩ ∧
    cartToSph (⟨0, 0, 0⟩ : Vec3 ℝ) ⟨0, ρ, 0⟩ = ⟨ρ, Real.pi / 2, Real.pi / 2⟩ ∧
    cartToSph (⟨0, 0, 0⟩ : Vec3 ℝ) ⟨0, -ρ, 0⟩ = ⟨ρ, -(Real.pi / 2), Real.pi / 2⟩ ∧
    cartToSph (⟨0, 0, 0⟩ : Vec3 ℝ) ⟨0, 0, ρ⟩ = ⟨ρ, 0, 0⟩ ∧
    cartToSph (⟨0, 0, 0⟩ : Vec3 ℝ) ⟨0, 0, -ρ⟩ = ⟨ρ, 0, Real.pi⟩ := by
  have hs : Real.sqrt (ρ * ρ) = ρ := Real.sqrt_mul_self hρ.le
  have hnz : nonzero ρ := Or.inr (by simpa using hρ)
  have a1 : Complex.arg ⟨ρ, 0⟩ = 0 := Complex.arg_ofReal_of_nonneg hρ.le
  have a2 : Complex.arg ⟨-ρ, 0⟩ = Real.pi := by
    have h := Complex.arg_ofReal_of_neg (x := -ρ) (by linarith)
    have e : ((-ρ : ℝ) : ℂ) = ⟨-ρ, 0⟩ := rfl
    rw [e] at h; exact h
  have a3 : Complex.arg ⟨0, ρ⟩ = Real.pi / 2 := Complex.arg_eq_pi_div_two_iff.mpr ⟨rfl, hρ⟩
  have a4 : Complex.arg ⟨0, -ρ⟩ = -(Real.pi / 2) :=
    Complex.arg_eq_neg_pi_div_two_iff.mpr ⟨rfl, by simpa using hρ⟩
  have a5 : Complex.arg ⟨0, 0⟩ = 0 := Complex.arg_zero
  unfold cartToSph
  simp only [sub_zero, mul_zero, add_zero, zero_add, neg_mul_neg, Elem.sqrt, hs, hnz, ↓reduceIte,
    Elem.arctan2, Elem.arccos, zero_div, Real.arccos_zero, div_self hρ.ne', Real.arccos_one, neg_div,
    Real.arccos_neg_one, a1, a2, a3, a4, a5, and_self]

/-- azimuth and polar angle of the six octahedral directions, as `convert_cart_to_sph` gives them. -/
noncomputable def thetaK : ℕ → ℝ
  | 0 => 0 | 1 => Real.pi | 2 => Real.pi / 2 | 3 => -(Real.pi / 2) | 4 => 0 | _ => 0
noncomputable def phiK : ℕ → ℝ
  | 0 => Real.pi / 2 | 1 => Real.pi / 2 | 2 => Real.pi / 2 | 3 => Real.pi / 2 | 4 => 0 | _ => Real.pi

/-- the geometric fact (C05) on the example grid: point `6 i + k` has spherical coordinates `(r_i, u_k)`. -/
theorem ex_sph (i : ℕ) (k : ℕ) (hk : k < 6) :
    cartToSph exGrid.center (exGrid.pts (6 * i + k)) = ⟨(i : ℝ) + 1, thetaK k, phiK k⟩ := by
  have h1 : (6 * i + k) / 6 = i := by omega
  have h2 : (6 * i + k) % 6 = k := by omega
  have hρ : (0 : ℝ) < (i : ℝ) + 1 := by positivity
  obtain ⟨p0, p1, p2, p3, p4, p5⟩ := cartToSph_axes ((i : ℝ) + 1) hρ
  simp only [exGrid, h1, h2]
  interval_cases k <;> simp only [oct, thetaK, phiK, mul_one, mul_zero, mul_neg]
  · exact p0
  · exact p1
  · exact p2
  · exact p3
  · exact p4
  · exact p5

theorem ex_gridAngles (j : ℕ) :
    gridAngles exGrid j = ((cartToSph exGrid.center (exGrid.pts j)).theta,
      (cartToSph exGrid.center (exGrid.pts j)).phi) := by
  have nz : ∀ i : ℕ, nonzero (exGrid.r i) := fun i => Or.inr (by simp only [exGrid, Nat.cast_zero]; positivity)
  unfold gridAngles
  simp only [show exGrid.nShells = 2 from rfl, List.range_succ, List.range_zero, List.nil_append,
    List.foldl_cons, List.foldl_nil, List.cons_append, nz, ↓reduceIte]

/-- `1/√(4π)`. -/
noncomputable def c0 : ℝ := 1 / Real.sqrt (4 * Real.pi)

/-- the real harmonics of degree `≤ 1` in the row order of the code (`m = 0, 1, -1`). -/
noncomputable def Yex (row : ℕ) (θ φ : ℝ) : ℝ :=
  match row with
  | 0 => c0
  | 1 => Real.sqrt 3 * c0 * Real.cos φ
  | 2 => Real.sqrt 3 * c0 * (Real.sin φ * Real.cos θ)
  | 3 => Real.sqrt 3 * c0 * (Real.sin φ * Real.sin θ)
  | _ => 0

theorem c0_sq : c0 * c0 = 1 / (4 * Real.pi) := by
  unfold c0
  have h : (0 : ℝ) ≤ 4 * Real.pi := by positivity
  rw [div_mul_div_comm, one_mul, Real.mul_self_sqrt h]

theorem c0_sq' : 4 * Real.pi * (c0 * c0) = 1 := by
  rw [c0_sq]; field_simp

theorem ex_basis (a i k : ℕ) (hk : k < 6) :
    basis exGrid Yex a (6 * i + k) = Yex a (thetaK k) (phiK k) := by
  unfold basis
  rw [ex_gridAngles, ex_sph i k hk]

/-- **H1 holds on the example**: the octahedral rule is orthonormal on the harmonics of degree `≤ 1`. -/
theorem ex_H1 (i : ℕ) : ShellOrthonormal exGrid Yex i 4 4 := by
  intro a ha b hb
  have hsz : exGrid.size i = 6 := by simp only [AGrid.size, exGrid]; omega
  have hidx : exGrid.idx i = 6 * i := rfl
  have h3 : Real.sqrt 3 * Real.sqrt 3 = 3 := Real.mul_self_sqrt (by norm_num)
  have hpi : Real.pi ≠ 0 := Real.pi_ne_zero
  rw [hsz, hidx]
  simp only [Finset.sum_range_succ, Finset.sum_range_zero, zero_add]
  rw [ex_basis a i 0 (by norm_num), ex_basis a i 1 (by norm_num), ex_basis a i 2 (by norm_num),
    ex_basis a i 3 (by norm_num), ex_basis a i 4 (by norm_num), ex_basis a i 5 (by norm_num),
    ex_basis b i 0 (by norm_num), ex_basis b i 1 (by norm_num), ex_basis b i 2 (by norm_num),
    ex_basis b i 3 (by norm_num), ex_basis b i 4 (by norm_num), ex_basis b i 5 (by norm_num)]
  interval_cases a <;> interval_cases b <;>
    simp only [Yex, thetaK, phiK, exGrid, Real.cos_pi_div_two, Real.sin_pi_div_two, Real.cos_pi, Real.sin_pi,
      Real.cos_zero, Real.sin_zero, Real.cos_neg, Real.sin_neg, mul_zero, mul_one, zero_mul, add_zero,
      zero_add, mul_neg, neg_zero, one_ne_zero, OfNat.ofNat_ne_zero, OfNat.zero_ne_ofNat,
      OfNat.ofNat_ne_one, OfNat.one_ne_ofNat, ↓reduceIte, Nat.reduceEqDiff]
  all_goals first
    | ring1
    | linear_combination c0_sq'
    | linear_combination (4 * Real.pi / 3 * (c0 * c0)) * h3 + c0_sq'

/-- coefficient functions of the example, `g_b(r) = (b + 1) r` for the four rows of degree `≤ 1`. -/
noncomputable def Gex (b : ℕ) (r : ℝ) : ℝ := ((b : ℝ) + 1) * r

/-- the band-limited function of the example on the grid. -/
noncomputable def fEx (j : ℕ) : ℝ :=
  ∑ b ∈ range (nRows 1), Gex b (exGrid.r (j / 6)) * basis exGrid Yex b j

theorem ex_band : BandLimitedOn exGrid Yex 1 Gex fEx := by
  intro i _ k hk
  have hk6 : k < 6 := by simp only [AGrid.size, exGrid] at hk; omega
  have h1 : (6 * i + k) / 6 = i := by omega
  show fEx (6 * i + k) = _
  unfold fEx
  rw [h1]
  rfl

theorem ex_product (i : ℕ) : ProductWeightsOn exGrid i := by
  intro k hk
  have hk6 : k < 6 := by simp only [AGrid.size, exGrid] at hk; omega
  have h1 : (6 * i + k) / 6 = i := by omega
  show exGrid.wts (6 * i + k) = _
  simp only [exGrid, h1]

theorem ex_radial : RadialOk exGrid where
  two := le_refl 2
  increasing := by
    intro i j hij _
    simp only [exGrid]
    exact_mod_cast Nat.succ_lt_succ hij

theorem ex_lMax : exGrid.lMax = 3 := by
  simp [AGrid.lMax, exGrid, List.range_succ]

theorem ex_w (i : ℕ) : ¬ exGrid.r i < tiny8 → exGrid.w i ≠ 0 := fun _ => by simp [exGrid]

theorem ex_H1' (i : ℕ) : ShellOrthonormal exGrid Yex i (nRows (exGrid.deg i / 2)) (nRows 1) := by
  have h : nRows (exGrid.deg i / 2) = 4 := by simp [exGrid, nRows]
  have h' : nRows 1 = 4 := rfl
  rw [h, h']; exact ex_H1 i

theorem ex_hL (i : ℕ) : 1 ≤ exGrid.deg i / 2 := by simp [exGrid]

theorem ex_Y0 : ∀ θ φ, Yex 0 θ φ = 1 / Real.sqrt (4 * Real.pi) := fun _ _ => rfl

/-- non-vacuity of `reweighted_sum_is_integral`. -/
example : reweightedSum exGrid (integrateAngular exGrid fEx) = gridIntegral exGrid fEx :=
  reweighted_sum_is_integral exGrid fEx rfl (fun i _ => by simp only [exGrid]; omega)
    (fun i _ => ex_w i) (fun i _ _ => ex_product i)

/-- non-vacuity of `angular_integral_exact`: on both shells the angular integral is `√(4π) · 1 · r_i`. -/
example (i : ℕ) (hi : i < 2) :
    integrateAngular exGrid fEx i = Real.sqrt (4 * Real.pi) * Gex 0 ((i : ℝ) + 1) :=
  angular_integral_exact exGrid Yex 1 Gex fEx ex_band ex_Y0 i hi (ex_product i) (ex_w i)
    (fun a ha b hb => ex_H1 i a (by omega) b hb)

/-- non-vacuity of `components_recovered`: all four rows, both shells. -/
example (i : ℕ) (hi : i < 2) (row : ℕ) (hrow : row < 4) :
    radialComponents exGrid (basis exGrid Yex) fEx row i = Gex row ((i : ℝ) + 1) := by
  have h := components_recovered exGrid Yex 1 Gex fEx ex_band i hi (ex_hL i) (ex_product i) (ex_w i)
    (ex_H1' i) row (by rw [ex_lMax]; exact hrow)
  rw [h, if_pos (show row < nRows 1 from hrow)]; rfl

/-- non-vacuity of `interpolant_reproduces_grid_values` (and of `interpolant_is_sum`, which it uses), with
polynomial interpolation as the spline: the interpolant returns the function value at each of the twelve
grid points. -/
example (dYt dYp : ℕ → ℝ → ℝ → ℝ) (i : ℕ) (hi : i < 2) (k : ℕ) (hk : k < 6) :
    interpolate lagrangeInterp exGrid Yex dYt dYp fEx [exGrid.pts (6 * i + k)] 0 false false
      = .ok ([1], [fEx (6 * i + k)]) := by
  have hsz : k < exGrid.size i := by simp only [AGrid.size, exGrid]; omega
  refine interpolant_reproduces_grid_values lagrangeInterp spline_contract_satisfiable exGrid ex_radial
    Yex dYt dYp 1 Gex fEx ex_band i hi (ex_hL i) (ex_product i) (ex_w i) (ex_H1' i) k hsz ?_ false false
  have e : exGrid.idx i + k = 6 * i + k := rfl
  rw [e, ex_gridAngles, ex_sph i k hk]
  rfl

/-- non-vacuity of `average_integrates_back`. -/
example : radialIntegral4pi exGrid (fun x => sphericalAverage lagrangeInterp exGrid fEx x 0)
    = gridIntegral exGrid fEx :=
  average_integrates_back lagrangeInterp spline_contract_satisfiable exGrid ex_radial fEx rfl
    (fun i _ => by simp only [exGrid]; omega) (fun i _ => ex_w i) (fun i _ _ => ex_product i)

/-- non-vacuity of `derivs_consistent_radial` (b): with the polynomial spline the hypothesis on the
splines holds at every radius, for the first two orders. -/
example (r θ φ : ℝ) (ν : ℕ) (hν : ν ≤ 1) :
    HasDerivAt (fun t => ∑ row ∈ range (nRows 1),
        radialComponentSplines lagrangeInterp exGrid Yex fEx row t ν * Yex row θ φ)
      (∑ row ∈ range (nRows 1),
        radialComponentSplines lagrangeInterp exGrid Yex fEx row r (ν + 1) * Yex row θ φ) r :=
  (derivs_consistent_radial (radialComponentSplines lagrangeInterp exGrid Yex fEx) Yex Yex Yex 1
    exGrid.center).2 ν r θ φ
    (fun _ _ => spline_contract_satisfiable.deriv _ _ ν r (Or.inl hν))

/-- the θ- and φ-derivatives of the example harmonics. -/
noncomputable def dYtEx (row : ℕ) (θ φ : ℝ) : ℝ :=
  match row with
  | 2 => Real.sqrt 3 * c0 * (Real.sin φ * -Real.sin θ)
  | 3 => Real.sqrt 3 * c0 * (Real.sin φ * Real.cos θ)
  | _ => 0
noncomputable def dYpEx (row : ℕ) (θ φ : ℝ) : ℝ :=
  match row with
  | 1 => Real.sqrt 3 * c0 * -Real.sin φ
  | 2 => Real.sqrt 3 * c0 * (Real.cos φ * Real.cos θ)
  | 3 => Real.sqrt 3 * c0 * (Real.cos φ * Real.sin θ)
  | _ => 0

theorem ex_H3 (θ φ : ℝ) :
    (∀ row < nRows 1, HasDerivAt (fun t => Yex row t φ) (dYtEx row θ φ) θ) ∧
    (∀ row < nRows 1, HasDerivAt (fun t => Yex row θ t) (dYpEx row θ φ) φ) := by
  constructor <;> intro row hrow <;> (have hrow' : row < 4 := hrow) <;> interval_cases row <;>
    simp only [Yex, dYtEx, dYpEx]
  · exact hasDerivAt_const _ _
  · exact hasDerivAt_const _ _
  · exact ((Real.hasDerivAt_cos θ).const_mul _).const_mul _
  · exact ((Real.hasDerivAt_sin θ).const_mul _).const_mul _
  · exact hasDerivAt_const _ _
  · exact (Real.hasDerivAt_cos φ).const_mul _
  · exact ((Real.hasDerivAt_sin φ).mul_const _).const_mul _
  · exact ((Real.hasDerivAt_sin φ).mul_const _).const_mul _

/-- non-vacuity of `derivs_consistent_spherical` (b): H2 and H3 hold for the polynomial spline and the
harmonics of degree `≤ 1`, at every point (the poles included). -/
example (r θ φ : ℝ) :
    HasDerivAt (fun t => interpolantSph (radialComponentSplines lagrangeInterp exGrid Yex fEx) Yex 1 r θ t)
      (∑ row ∈ range (nRows 1),
        radialComponentSplines lagrangeInterp exGrid Yex fEx row r 0 * dYpEx row θ φ) φ :=
  ((derivs_consistent_spherical (radialComponentSplines lagrangeInterp exGrid Yex fEx) Yex dYtEx dYpEx 1
    exGrid.center).2 r θ φ
    (fun _ _ => spline_contract_satisfiable.deriv _ _ 0 r (Or.inl (by norm_num)))
    (ex_H3 θ φ).1 (ex_H3 θ φ).2).2.2

/-- non-vacuity of `jacobian_inverse_transpose`: on the equator, gradient `(1, 2, 3)`. -/
example : sphToCartDeriv (chainR 1 2 3 1 0 (Real.pi / 2)) (chainT 1 2 3 1 0 (Real.pi / 2))
    (chainP 1 2 3 1 0 (Real.pi / 2)) 1 0 (Real.pi / 2) = ⟨1, 2, 3⟩ := by
  have h10 := tiny10_pos
  have ht : (tiny10 : ℝ) < 1 := by unfold tiny10; norm_num
  refine jacobian_inverse_transpose 1 2 3 1 0 (Real.pi / 2) ?_ ?_ ?_
  · rw [abs_one]; linarith
  · rw [abs_of_pos (by positivity)]
    have := Real.two_le_pi
    linarith
  · rw [Real.sin_pi_div_two]; norm_num

/-- splines of the interpolant `F(x, y, z) = x = r sinφ cosθ`: only the row `(l, m) = (1, 1)`. -/
noncomputable def SexX (row : ℕ) (r : ℝ) (ν : ℕ) : ℝ :=
  if row = 2 then (match ν with | 0 => r / (Real.sqrt 3 * c0) | 1 => 1 / (Real.sqrt 3 * c0) | _ => 0) else 0

/-- non-vacuity of `derivs_consistent_cartesian_partial` (b): for the interpolant `x` the hypotheses hold
at the point `(r, θ, φ) = (1, 0, π/2)` and the reported gradient is `(1, 0, 0)`. -/
example : sphToCartDeriv
    (∑ row ∈ range (nRows 1), SexX row 1 1 * Yex row 0 (Real.pi / 2))
    (∑ row ∈ range (nRows 1), SexX row 1 0 * dYtEx row 0 (Real.pi / 2))
    (∑ row ∈ range (nRows 1), SexX row 1 0 * dYpEx row 0 (Real.pi / 2)) 1 0 (Real.pi / 2)
    = ⟨1, 0, 0⟩ := by
  have hc : Real.sqrt 3 * c0 ≠ 0 := by
    unfold c0
    have : (0 : ℝ) < Real.sqrt (4 * Real.pi) := Real.sqrt_pos.mpr (by positivity)
    have h3 : (0 : ℝ) < Real.sqrt 3 := Real.sqrt_pos.mpr (by norm_num)
    positivity
  have ht : (tiny10 : ℝ) < 1 := by unfold tiny10; norm_num
  have key := (derivs_consistent_cartesian_partial SexX Yex dYtEx dYpEx 1 ⟨0, 0, 0⟩).2
    (fun p => p.1) (ContinuousLinearMap.fst ℝ ℝ (ℝ × ℝ)) 1 0 (Real.pi / 2) hasFDerivAt_fst
    (by
      intro r' θ' φ'
      simp only [interpolantSph, nRows, Finset.sum_range_succ, Finset.sum_range_zero, SexX, Yex]
      have hc0 : c0 ≠ 0 := right_ne_zero_of_mul hc
      simp
      field_simp)
    (by
      intro row _
      unfold SexX
      split_ifs
      · simpa using (hasDerivAt_id (1 : ℝ)).div_const (Real.sqrt 3 * c0)
      · exact hasDerivAt_const _ _)
    (ex_H3 0 (Real.pi / 2)).1 (ex_H3 0 (Real.pi / 2)).2
    (by rw [abs_one]; linarith)
    (by rw [abs_of_pos (by positivity)]; have := Real.two_le_pi; linarith)
    (by rw [Real.sin_pi_div_two]; norm_num)
  simpa using key

/-- non-vacuity of `mol_interp_is_sum`: two atoms carrying the example grid. -/
example (f : ℕ → ℝ) (points : List (Vec3 ℝ)) :
    molInterpolate lagrangeInterp ⟨2, fun _ => exGrid, fun A => 12 * A, fun _ => 1 / 2⟩ Yex dYtEx dYpEx f
        points 0 false false
      = .ok ([points.length], points.map fun p => ∑ A ∈ range 2,
          interpolantAt (radialComponentSplines lagrangeInterp exGrid Yex
            (atomFuncVals ⟨2, fun _ => exGrid, fun A => 12 * A, fun _ => 1 / 2⟩ f A)) Yex
            (exGrid.lMax / 2) (cartToSph exGrid.center p)) :=
  mol_interp_is_sum lagrangeInterp _ 1 rfl Yex dYtEx dYpEx f points false false

end GridVerif.C09

/-
  C12 — degree/size requests resolve to the smallest supported angular grid not below.

  Model: `Model/Bisect.lean` (hand-written specification-level model),
  tables: `Gen/AngularTables.lean` (regenerated from /repo on every run).
  The same clauses for the decision logic *as translated from the source*
  (`Gen/AngularLogic.lean`) are in `Props/C12/Logic.lean` (+ `Props/C12/Listing.lean`).
  Property theorems only; helper lemmas live in `Lemmas/Bisect.lean`.
-/
import GridVerif.Lemmas.Bisect
import Mathlib.Tactic.ByContra
import Mathlib.Tactic.Set
import GridVerif.Gen.AngularTables

namespace GridVerif.C12
open GridVerif.Bisect

/-- (1) Python's `bisect_left` on any strictly ascending list: the least index whose
entry is not below the request. Unbounded in the length of the table. -/
theorem bisect_left_least_index (ks : List Nat) (hs : Ascending ks) (x : Nat) :
    bisectLeft ks x ≤ ks.length ∧
    (∀ i, i < bisectLeft ks x → ks.getD i 0 < x) ∧
    (∀ i, bisectLeft ks x ≤ i → i < ks.length → x ≤ ks.getD i 0) :=
  bisectLeft_spec ks hs x

theorem lookup_of_mem {tbl : List (Nat × Nat)} (hs : Ascending (keys tbl)) {k v : Nat}
    (h : (k, v) ∈ tbl) : lookup tbl k = some v := by
  induction tbl with
  | nil => cases h
  | cons p t ih =>
    unfold lookup
    simp only [List.find?_cons]
    have hs' : Ascending (keys t) := by
      unfold Ascending keys at *; simp only [List.map_cons, List.pairwise_cons] at hs; exact hs.2
    rcases List.mem_cons.mp h with h | h
    · subst h; simp
    · have hk : k ∈ keys t := List.mem_map.mpr ⟨(k, v), h, rfl⟩
      have : p.1 < k := by
        unfold Ascending keys at hs; simp only [List.map_cons, List.pairwise_cons] at hs
        exact hs.1 k hk
      have hne : (p.1 == k) = false := by simp; omega
      simp only [hne]
      exact ih hs' h

/-- (2) **Resolution rule**, for every ascending table and every request not above
the largest key: the answer is a pair of the table, its key is the least supported
value not below the request. -/
theorem resolve_spec (tbl : List (Nat × Nat)) (hs : Ascending (keys tbl)) (req : Nat)
    (hreq : req ≤ maxKey (keys tbl)) (hne : tbl ≠ []) :
    ∃ k v, resolve tbl req = .ok k v ∧ (k, v) ∈ tbl ∧ req ≤ k ∧
      ∀ k' ∈ keys tbl, req ≤ k' → k ≤ k' := by
  unfold resolve
  simp only [show ¬ req > maxKey (keys tbl) by omega, ↓reduceIte]
  by_cases hc : (keys tbl).contains req = true
  · simp only [hc, ↓reduceIte]
    have hmem : req ∈ keys tbl := by simpa using hc
    obtain ⟨⟨k, v⟩, hp, hk⟩ := List.mem_map.mp hmem
    simp only at hk; subst hk
    rw [lookup_of_mem hs hp]
    exact ⟨k, v, rfl, hp, Nat.le_refl _, fun k' _ h => h⟩
  · simp only [hc]
    have hspec := bisectLeft_spec (keys tbl) hs req
    generalize bisectLeft (keys tbl) req = b at hspec ⊢
    -- the largest key is ≥ req, so the bisect index is inside the list
    have hkne : keys tbl ≠ [] := by unfold keys; simpa using hne
    have hblt : b < (keys tbl).length := by
      rcases maxKey_mem hkne with hm | hm
      · obtain ⟨j, hj, hjm⟩ := List.getElem_of_mem hm
        by_contra hcon
        have : (keys tbl).getD j 0 < req := hspec.2.1 j (by omega)
        rw [List.getD_eq_getElem?_getD, List.getElem?_eq_getElem hj] at this
        simp only [Option.getD_some] at this
        omega
      · have : req = 0 := by omega
        subst this
        by_contra hcon
        have hpos : 0 < (keys tbl).length := List.length_pos_iff.mpr hkne
        have := hspec.2.1 0 (by omega)
        omega
    have hget : (keys tbl)[b]? = some ((keys tbl)[b]) := List.getElem?_eq_getElem hblt
    simp only [Bool.false_eq_true, ↓reduceIte, hget]
    have hkmem : (keys tbl)[b] ∈ keys tbl := List.getElem_mem hblt
    obtain ⟨⟨k, v⟩, hp, hk⟩ := List.mem_map.mp hkmem
    simp only at hk
    rw [← hk, lookup_of_mem hs hp]
    refine ⟨k, v, rfl, hp, ?_, ?_⟩
    · have := hspec.2.2 b (Nat.le_refl _) hblt
      rw [List.getD_eq_getElem?_getD, hget] at this
      simp only [Option.getD_some] at this
      omega
    · intro k' hk' hle
      obtain ⟨j, hj, hjm⟩ := List.getElem_of_mem hk'
      by_contra hcon
      have hjb : j < b := by
        by_contra h2
        have h3 : b ≤ j := by omega
        rcases Nat.lt_or_eq_of_le h3 with h4 | h4
        · have := getD_lt_of_asc hs h4 hj
          rw [List.getD_eq_getElem?_getD, hget, List.getD_eq_getElem?_getD,
            List.getElem?_eq_getElem hj] at this
          simp only [Option.getD_some] at this
          omega
        · subst h4; omega
      have := hspec.2.1 j hjb
      rw [List.getD_eq_getElem?_getD, List.getElem?_eq_getElem hj] at this
      simp only [Option.getD_some] at this
      omega

/-- (3) Requests above the largest supported value are rejected. -/
theorem resolve_reject (tbl : List (Nat × Nat)) (req : Nat) (h : maxKey (keys tbl) < req) :
    resolve tbl req = .valueError := by
  unfold resolve; simp [h]

/-- Everything the resolution rule needs from one method's tables and data
directory — a decidable predicate, evaluated by the kernel on the regenerated tables. -/
def MethodOk (degrees npoints files filePoints fileShape : List (Nat × Nat)) : Prop :=
  Ascending (keys degrees) ∧ Ascending (keys npoints) ∧ degrees ≠ [] ∧ npoints ≠ [] ∧
  -- the two dicts are inverse to each other
  (∀ p ∈ npoints, (p.2, p.1) ∈ degrees) ∧ (∀ p ∈ degrees, (p.2, p.1) ∈ npoints) ∧
  -- every (degree, size) pair has its data file …
  (∀ p ∈ degrees, p ∈ files) ∧
  -- … and every data file holds as many points as its name says, in 3 columns,
  -- with one weight per point or a single broadcast weight
  (∀ q ∈ filePoints, q.1 = q.2) ∧
  (∀ q ∈ (filePoints.zip fileShape), q.2.1 = 3 ∧ (q.2.2 = q.1.1 ∨ q.2.2 = 1))

instance (a b c d e : List (Nat × Nat)) : Decidable (MethodOk a b c d e) := by
  unfold MethodOk; infer_instance

open GridVerif.Gen.Angular in
/-- (4) The regenerated tables of all four methods are in order, mutually inverse and
backed by data files of the advertised size. Decided by the kernel. -/
theorem tables_ok :
    MethodOk lebedevDegrees lebedevNPoints lebedevFiles lebedevFilePoints lebedevFileShape ∧
    MethodOk sphericalDegrees sphericalNPoints sphericalFiles sphericalFilePoints sphericalFileShape ∧
    MethodOk maxdetDegrees maxdetNPoints maxdetFiles maxdetFilePoints maxdetFileShape ∧
    MethodOk ahrensDegrees ahrensNPoints ahrensFiles ahrensFilePoints ahrensFileShape := by
  decide +kernel

/-- (5) **C12 for a method whose tables are ok**, degree request: the built grid has the
least supported degree not below the request, `(degree, size)` is a matching pair of both
tables and its data file exists. -/
theorem degree_request (degrees npoints files fp fs : List (Nat × Nat))
    (hok : MethodOk degrees npoints files fp fs) (req : Nat) (hreq : req ≤ maxKey (keys degrees)) :
    ∃ d s, getDegreeAndSize degrees npoints (some req) none = .ok d s ∧
      (d, s) ∈ degrees ∧ (s, d) ∈ npoints ∧ (d, s) ∈ files ∧ req ≤ d ∧
      ∀ d' ∈ keys degrees, req ≤ d' → d ≤ d' := by
  obtain ⟨h1, _, h3, _, _, h6, h7, _⟩ := hok
  obtain ⟨k, v, hr, hmem, hle, hleast⟩ := resolve_spec degrees h1 req hreq h3
  refine ⟨k, v, ?_, hmem, h6 _ hmem, h7 _ hmem, hle, hleast⟩
  simp [getDegreeAndSize, hr]

/-- (5') size request (degree `None`). -/
theorem size_request (degrees npoints files fp fs : List (Nat × Nat))
    (hok : MethodOk degrees npoints files fp fs) (req : Nat) (hreq : req ≤ maxKey (keys npoints)) :
    ∃ d s, getDegreeAndSize degrees npoints none (some req) = .ok d s ∧
      (d, s) ∈ degrees ∧ (s, d) ∈ npoints ∧ (d, s) ∈ files ∧ req ≤ s ∧
      ∀ s' ∈ keys npoints, req ≤ s' → s ≤ s' := by
  obtain ⟨_, h2, _, h4, h5, _, h7, _⟩ := hok
  obtain ⟨k, v, hr, hmem, hle, hleast⟩ := resolve_spec npoints h2 req hreq h4
  refine ⟨v, k, ?_, h5 _ hmem, hmem, h7 _ (h5 _ hmem), hle, hleast⟩
  simp [getDegreeAndSize, hr]

/-- (6) Requests above the maximum are rejected (both kinds). -/
theorem request_above_max_rejected (degrees npoints : List (Nat × Nat)) (req : Nat) :
    (maxKey (keys degrees) < req → getDegreeAndSize degrees npoints (some req) none = .valueError) ∧
    (maxKey (keys npoints) < req → getDegreeAndSize degrees npoints none (some req) = .valueError) := by
  constructor <;> intro h <;> simp [getDegreeAndSize, resolve_reject _ _ h]

/-- helper: one pass of the `degrees[np.where(sizes == size)] = deg` loop. -/
theorem convert_step (sizes acc : List Nat) (s v : Nat) (hl : acc.length = sizes.length) :
    ((acc.zip sizes).map fun (a, t) => if t == s then v else a).length = sizes.length := by
  simp [hl]

/-- (7) Size-to-degree conversion of a sequence is element-wise the resolution rule:
if every size resolves, entry `i` of the result is the degree that `sizes[i]` resolves to. -/
theorem convert_is_map (npoints : List (Nat × Nat)) (sizes : List Nat)
    (f : Nat → Nat) (hf : ∀ s ∈ sizes, ∃ k, resolve npoints s = .ok k (f s)) :
    convertSizes npoints sizes = some (sizes.map f) := by
  unfold convertSizes
  show List.foldlM _ _ sizes.eraseDups = _
  -- invariant: positions whose size was already visited hold f(size), the others 0
  have key : ∀ (todo done : List Nat) (acc : List Nat),
      (∀ s ∈ todo, s ∈ sizes) →
      acc = sizes.map (fun t => if t ∈ done then f t else 0) →
      todo.foldlM (fun (acc : List Nat) s =>
        match resolve npoints s with
        | .ok _ v => some ((acc.zip sizes).map fun (a, t) => if t == s then v else a)
        | _ => none) acc
        = some (sizes.map (fun t => if t ∈ done ++ todo then f t else 0)) := by
    intro todo
    induction todo with
    | nil => intro done acc _ h; simp [h]
    | cons s todo ih =>
      intro done acc hsub hacc
      obtain ⟨k, hk⟩ := hf s (hsub s (List.mem_cons_self))
      simp only [List.foldlM_cons, hk]
      rw [Option.bind_eq_bind, Option.bind_some]
      have := ih (done ++ [s])
        ((acc.zip sizes).map fun (a, t) => if t == s then f s else a)
        (fun x hx => hsub x (List.mem_cons_of_mem _ hx))
        (by
          subst hacc
          apply List.ext_getElem
          · simp
          · intro i h1 h2
            have hi : i < sizes.length := by simpa using h2
            simp only [List.getElem_map, List.getElem_zip, List.mem_append, List.mem_singleton]
            by_cases hs : sizes[i] = s
            · simp [hs]
            · simp [hs])
      simpa [List.append_assoc] using this
  have := key sizes.eraseDups [] (sizes.map fun _ => 0)
    (fun s hs => by simpa using hs) (by simp)
  refine Eq.trans this ?_
  congr 1
  apply List.map_congr_left
  intro t ht
  simp [ht]

/-- Non-vacuity: the hypotheses are met by the shipped Lebedev table, and the rule
gives the documented answers on it (degree 0 ↦ (3, 6), degree 32 ↦ (35, 434),
size 27 ↦ (9, 38)). -/
example :
    getDegreeAndSize Gen.Angular.lebedevDegrees Gen.Angular.lebedevNPoints (some 0) none
        = .ok 3 6 ∧
    getDegreeAndSize Gen.Angular.lebedevDegrees Gen.Angular.lebedevNPoints (some 32) none
        = .ok 35 434 ∧
    getDegreeAndSize Gen.Angular.lebedevDegrees Gen.Angular.lebedevNPoints none (some 27)
        = .ok 9 38 ∧
    getDegreeAndSize Gen.Angular.lebedevDegrees Gen.Angular.lebedevNPoints (some 132) none
        = .valueError ∧
    convertSizes Gen.Angular.lebedevNPoints [27, 6, 27, 400] = some [9, 3, 9, 35] := by
  decide +kernel

end GridVerif.C12

/-
  C12 over the *generated* decision logic (`Gen/AngularLogic.lean`, translated from
  `AngularGrid._get_degree_and_size`, `convert_angular_sizes_to_degrees`,
  `_load_precomputed_angular_grid` and the selection part of `__init__`).
-/
import GridVerif.Props.C12
import GridVerif.Props.C12.Listing
import GridVerif.Gen.AngularLogic

namespace GridVerif.C12
open GridVerif.Bisect GridVerif.AngularPy GridVerif.Gen GridVerif.Gen.Angular GridVerif.Gen.AngularLogic

/-- A well-formed argument: `None` or a non-negative integer. -/
def ofOpt : Option Nat → Val
  | none => .none
  | some n => .int n

/-- The model's outcome in the vocabulary of the generated code. -/
def ofOut : Out → Py (Val × Val)
  | .ok d s => .ok (.int d, .int s)
  | .valueError => .error .valueError
  | .indexError => .error .indexError

theorem lookup_isSome_of_mem_keys {tbl : Tbl} {k : Nat} (h : k ∈ keys tbl) :
    ∃ v, lookup tbl k = some v := by
  induction tbl with
  | nil => simp [keys] at h
  | cons p t ih =>
    unfold lookup
    simp only [List.find?_cons]
    by_cases hp : p.1 = k
    · simp [hp]
    · have : (p.1 == k) = false := by simpa using hp
      simp only [this]
      have hk : k ∈ keys t := by
        simp only [keys, List.map_cons, List.mem_cons] at h
        rcases h with h | h
        · exact absurd h.symm hp
        · exact h
      exact ih hk

section prims
variable (a b : Int) (n : Nat) (ks : List Nat) (tbl : Tbl)

@[simp] theorem pyLt_int : pyLt (.int a) (.int b) = .ok (decide (a < b)) := rfl
@[simp] theorem pyGt_int : pyGt (.int a) (.int b) = .ok (decide (a > b)) := rfl
@[simp] theorem pyGe_int : pyGe (.int a) (.int b) = .ok (decide (a ≥ b)) := rfl
@[simp] theorem pyLe_int : pyLe (.int a) (.int b) = .ok (decide (a ≤ b)) := rfl
@[simp] theorem pyNe_int : pyNe (.int a) (.int b) = .ok (a != b) := by
  simp [pyNe, pure, Except.pure, bne, BEq.beq]

@[simp] theorem pyInDict_nat : pyInDict (.int (n : Int)) tbl = .ok ((keys tbl).contains n) := by
  simp [pyInDict, pure, Except.pure]

@[simp] theorem pyInDict_none : pyInDict .none tbl = .ok false := rfl

@[simp] theorem pyBisectLeft_nat : pyBisectLeft ks (.int (n : Int)) = .ok (.int (bisectLeft ks n : Nat)) := by
  simp [pyBisectLeft, pure, Except.pure]

@[simp] theorem pyListGet_nat : pyListGet ks (.int (n : Int)) =
    (match ks[n]? with | some v => .ok (.int (v : Nat)) | none => .error .indexError) := by
  simp [pyListGet, pure, Except.pure, throw, throwThe, MonadExceptOf.throw]
  cases ks[n]? <;> rfl

@[simp] theorem pyDictGet_nat : pyDictGet tbl (.int (n : Int)) =
    (match lookup tbl n with | some v => .ok (.int (v : Nat)) | none => .error .keyError) := by
  simp [pyDictGet, pure, Except.pure, throw, throwThe, MonadExceptOf.throw]
  cases lookup tbl n <;> rfl

theorem pyMax_of_ne (h : tbl ≠ []) : pyMax (pyKeys tbl) = .ok (.int (maxKey (keys tbl) : Nat)) := by
  cases tbl with
  | nil => exact absurd rfl h
  | cons p t => simp [pyMax, pyKeys, keys, pure, Except.pure]

@[simp] theorem pyFmt_nat : pyFmt (.int (n : Int)) = .ok (toString n) := by
  simp [pyFmt, pure, Except.pure, toString, Int.repr]

end prims

/-- the shared core of both branches, in generated vocabulary -/
theorem core_eq (tbl : Tbl) (hne : tbl ≠ []) (n : Nat) (f : Val → Val → Val × Val) :
    (pyMax (pyKeys tbl) >>= fun mx =>
      pyOr (pyLt (Val.int n) (Val.int 0)) (pyGt (Val.int n) mx) >>= fun c_ => if c_ then
        (throw PyErr.valueError : Py (Val × Val))
      else
        (pyInDict (Val.int n) tbl >>= fun t2 => if t2 then pure (Val.int n) else (pyBisectLeft (pyKeys tbl) (Val.int n) >>= fun t1 => pyListGet (pyKeys tbl) t1)) >>= fun key =>
        (pyDictGet tbl key >>= fun t3 => pure (f key t3)))
    = match resolve tbl n with
      | .ok k v => .ok (f (.int k) (.int v))
      | .valueError => .error .valueError
      | .indexError => .error .indexError := by
  rw [pyMax_of_ne tbl hne]
  unfold resolve
  simp only [pyKeys, pyOr, pyLt_int, pyGt_int, pyInDict_nat, pyBisectLeft_nat, bind, Except.bind, pure, Except.pure]
  have hn0 : ¬ ((n : Int) < 0) := by omega
  simp only [hn0, decide_false, Bool.false_eq_true, ↓reduceIte]
  by_cases h1 : n > maxKey (keys tbl)
  · have : ((n : Int) > (maxKey (keys tbl) : Nat)) := by omega
    simp [h1, this, throw, throwThe, MonadExceptOf.throw]
  · have : ¬ ((n : Int) > (maxKey (keys tbl) : Nat)) := by omega
    simp only [h1, this, decide_false, Bool.false_eq_true, ↓reduceIte]
    by_cases hc : (keys tbl).contains n = true
    · have hm : n ∈ keys tbl := by simpa using hc
      obtain ⟨v, hv⟩ := lookup_isSome_of_mem_keys hm
      simp [hm, hv]
    · simp only [hc, Bool.false_eq_true, ↓reduceIte, pyListGet_nat]
      cases hb : (keys tbl)[bisectLeft (keys tbl) n]? with
      | none => simp
      | some key =>
        obtain ⟨v, hv⟩ := lookup_isSome_of_mem_keys (tbl := tbl) (k := key) (List.mem_of_getElem? hb)
        simp [hv]

/-- The type/range guard passes for `None` and for a non-negative integer. -/
theorem guard_ok (d : Option Nat) :
    pyNot (pyOr (pure (pyIsNone (ofOpt d))) (pyAnd (pure (pyIsInteger (ofOpt d))) (pyGe (ofOpt d) (Val.int 0))))
      = .ok false := by
  cases d with
  | none => rfl
  | some n =>
    simp only [ofOpt, pyNot, pyOr, pyAnd, pyIsNone, pyIsInteger, pyGe_int, bind, Except.bind, pure, Except.pure]
    have : (n : Int) ≥ 0 := by omega
    simp [this]

/-- **The generated `_get_degree_and_size` (after the method dispatch) is the hand model**
`Model/Bisect.getDegreeAndSize`, for all non-empty tables and all well-formed arguments
(`None` or a non-negative integer). -/
theorem gen_body_eq_model (dg np : Tbl) (hd : dg ≠ []) (hn : np ≠ []) (d s : Option Nat) (m : String) :
    getDegreeAndSize_body dg np (ofOpt d) (ofOpt s) m = ofOut (Bisect.getDegreeAndSize dg np d s) := by
  unfold getDegreeAndSize_body
  simp only [guard_ok, bind, Except.bind, Bool.false_eq_true, ↓reduceIte]
  cases d with
  | some n =>
    simp only [ofOpt, pyIsNone, Bool.not_false, ↓reduceIte]
    have := core_eq dg hd n (fun a b => (a, b))
    simp only [bind, Except.bind] at this
    rw [this]
    cases h : resolve dg n <;> simp [Bisect.getDegreeAndSize, h, ofOut]
  | none =>
    cases s with
    | some k =>
      simp only [ofOpt, pyIsNone, Bool.not_true, Bool.false_eq_true, Bool.not_false, ↓reduceIte]
      have := core_eq np hn k (fun a b => (b, a))
      simp only [bind, Except.bind] at this
      rw [this]
      cases h : resolve np k <;> simp [Bisect.getDegreeAndSize, h, ofOut]
    | none => rfl

/-- An argument the guards must reject: an integer below zero, or something that is neither
`None` nor an instance of `int | np.integer` (float, string, `np.bool_`, …). -/
def Malformed : Val → Prop
  | .other => True
  | .int i => i < 0
  | .none => False

theorem wellformed_or_malformed (v : Val) : Malformed v ∨ ∃ o, v = ofOpt o := by
  cases v with
  | none => exact Or.inr ⟨none, rfl⟩
  | other => exact Or.inl trivial
  | int i =>
    by_cases h : i < 0
    · exact Or.inl h
    · refine Or.inr ⟨some i.toNat, ?_⟩
      simp only [ofOpt]; congr 1; omega

theorem guard_malformed {v : Val} (h : Malformed v) :
    pyNot (pyOr (pure (pyIsNone v)) (pyAnd (pure (pyIsInteger v)) (pyGe v (Val.int 0)))) = .ok true := by
  cases v with
  | none => exact absurd h (by simp [Malformed])
  | other => rfl
  | int i =>
    simp only [pyNot, pyOr, pyAnd, pyIsNone, pyIsInteger, pyGe_int, bind, Except.bind, pure, Except.pure]
    have : ¬ (i ≥ 0) := by simp only [Malformed] at h; omega
    simp [this]

/-- **Type/range guards** of the generated `_get_degree_and_size`: a malformed degree or size is
answered with `ValueError` — before anything is compared, looked up or bisected. -/
theorem gen_malformed_rejected (dg np : Tbl) (x y : Val) (m : String)
    (h : Malformed x ∨ Malformed y) : getDegreeAndSize_body dg np x y m = .error .valueError := by
  unfold getDegreeAndSize_body
  rcases wellformed_or_malformed x with hx | ⟨o, rfl⟩
  · simp [guard_malformed hx, bind, Except.bind, throw, throwThe, MonadExceptOf.throw]
  · rcases h with h | h
    · cases o <;> simp [Malformed, ofOpt] at h
      omega
    · simp [guard_ok, guard_malformed h, bind, Except.bind, throw, throwThe, MonadExceptOf.throw]

/-- The generated code never performs an operation whose Python meaning is not modelled, never
compares `None` with a number and never misses a dict key: on non-empty tables the outcome is a
pair, `ValueError` or `IndexError`, for *every* argument. -/
theorem gen_never_unmodelled (dg np : Tbl) (hd : dg ≠ []) (hn : np ≠ []) (x y : Val) (m : String) :
    (∃ d s : Nat, getDegreeAndSize_body dg np x y m = .ok (.int d, .int s)) ∨
    getDegreeAndSize_body dg np x y m = .error .valueError ∨
    getDegreeAndSize_body dg np x y m = .error .indexError := by
  rcases wellformed_or_malformed x with hx | ⟨o, rfl⟩
  · exact Or.inr (Or.inl (gen_malformed_rejected dg np x y m (Or.inl hx)))
  · rcases wellformed_or_malformed y with hy | ⟨o', rfl⟩
    · exact Or.inr (Or.inl (gen_malformed_rejected dg np _ y m (Or.inr hy)))
    · rw [gen_body_eq_model dg np hd hn]
      cases Bisect.getDegreeAndSize dg np o o' with
      | ok d s => exact Or.inl ⟨d, s, rfl⟩
      | valueError => exact Or.inr (Or.inl rfl)
      | indexError => exact Or.inr (Or.inr rfl)

/-- **Method dispatch** of the generated `_get_degree_and_size`: exactly the four method names
are accepted and each uses its own pair of tables. -/
theorem gen_dispatch_iff (m : String) (dg np : Tbl) :
    getDegreeAndSize_dispatch m = .ok (dg, np) ↔
      (m, dg, np) ∈ [("lebedev", lebedevDegrees, lebedevNPoints),
        ("spherical", sphericalDegrees, sphericalNPoints),
        ("maxdet", maxdetDegrees, maxdetNPoints),
        ("ahrens_beylkin", ahrensDegrees, ahrensNPoints)] := by
  unfold getDegreeAndSize_dispatch
  by_cases h1 : m = "lebedev"
  · subst h1; simp [pure, Except.pure, eq_comm]
  by_cases h2 : m = "spherical"
  · subst h2; simp [pure, Except.pure, eq_comm]
  by_cases h3 : m = "maxdet"
  · subst h3; simp [pure, Except.pure, eq_comm]
  by_cases h4 : m = "ahrens_beylkin"
  · subst h4; simp [pure, Except.pure, eq_comm]
  simp [h1, h2, h3, h4, throw, throwThe, MonadExceptOf.throw]

/-- Any other method name is a `ValueError`. -/
theorem gen_dispatch_unknown (m : String)
    (h : m ∉ ["lebedev", "spherical", "maxdet", "ahrens_beylkin"]) (x y : Val) :
    AngularLogic.getDegreeAndSize x y m = .error .valueError := by
  simp only [List.mem_cons, List.not_mem_nil, or_false, not_or] at h
  simp [AngularLogic.getDegreeAndSize, getDegreeAndSize_dispatch, h, bind, Except.bind, throw, throwThe, MonadExceptOf.throw]

/-- `dispatch` succeeded, so the tables are those of one of the four methods, all of which are in
order, mutually inverse and file-backed (`tables_ok`, decided on the regenerated tables). -/
theorem gen_dispatch_ok {m : String} {dg np : Tbl} (hm : getDegreeAndSize_dispatch m = .ok (dg, np)) :
    ∃ files fp fs, MethodOk dg np files fp fs := by
  have h := (gen_dispatch_iff m dg np).mp hm
  simp only [List.mem_cons, Prod.mk.injEq, List.not_mem_nil, or_false] at h
  obtain ⟨t1, t2, t3, t4⟩ := tables_ok
  rcases h with ⟨_, rfl, rfl⟩ | ⟨_, rfl, rfl⟩ | ⟨_, rfl, rfl⟩ | ⟨_, rfl, rfl⟩
  · exact ⟨_, _, _, t1⟩
  · exact ⟨_, _, _, t2⟩
  · exact ⟨_, _, _, t3⟩
  · exact ⟨_, _, _, t4⟩

theorem loader_facts {m : String} {dg np : Tbl} (hm : getDegreeAndSize_dispatch m = .ok (dg, np)) :
    ∃ pkg, loadPrecomputedAngularGrid_dispatch m = .ok (dg, np, pkg) ∧
      ∃ e ∈ packageFiles, e.1 = pkg ∧ ∀ p ∈ dg, (fileName m p.1 p.2, m, p.1, p.2) ∈ e.2 := by
  have hmem : m ∈ ["lebedev", "spherical", "maxdet", "ahrens_beylkin"] := by
    have h := (gen_dispatch_iff m dg np).mp hm
    simp only [List.mem_cons, Prod.mk.injEq, List.not_mem_nil, or_false] at h ⊢
    rcases h with h | h | h | h <;> simp [h.1]
  have h := loader_ok m hmem
  unfold LoaderOk at h
  split at h
  · rename_i dg' np' pkg heq
    obtain ⟨h1, e, he, hpkg, hall⟩ := h
    rw [hm] at h1
    simp only [Except.toOption, Option.some.injEq, Prod.mk.injEq] at h1
    obtain ⟨rfl, rfl⟩ := h1
    refine ⟨pkg, heq, e, he, hpkg, ?_⟩
    intro p hp
    obtain ⟨x, hx, hx1, hx2⟩ := hall p hp
    have hn := listing_names e he x hx
    obtain ⟨a, b, c, d⟩ := x
    simp only at hx1 hx2 hn
    subst hx2
    cases hx1
    rw [hn] at hx
    exact hx
  · exact absurd h id

/-- The loader's body on a pair of the table: no guard fires, the file `method_degree_size.npz`
of the dispatched package is opened. -/
theorem loader_body_ok (dg np : Tbl) (pkg m : String) (hs : Ascending (keys dg))
    (hinv : ∀ p ∈ dg, (p.2, p.1) ∈ np) {d s : Nat} (hp : (d, s) ∈ dg) :
    loadPrecomputedAngularGrid_body dg np pkg (.int d) (.int s) m = .ok (pkg, fileName m d s) := by
  unfold loadPrecomputedAngularGrid_body
  have g1 := guard_ok (some d)
  have g2 := guard_ok (some s)
  simp only [ofOpt] at g1 g2
  have hd : d ∈ keys dg := List.mem_map.mpr ⟨(d, s), hp, rfl⟩
  have hsk : s ∈ keys np := List.mem_map.mpr ⟨(s, d), hinv _ hp, rfl⟩
  simp only [g1, g2, bind, Except.bind, Bool.false_eq_true, ↓reduceIte]
  simp [pyNot, bind, Except.bind, hd, hsk, lookup_of_mem hs hp, pure, Except.pure, fileName]

/-- The generated `_get_degree_and_size` on well-formed arguments, through its dispatch. -/
theorem gen_eq_model {m : String} {dg np : Tbl} (hm : getDegreeAndSize_dispatch m = .ok (dg, np))
    (d s : Option Nat) :
    AngularLogic.getDegreeAndSize (ofOpt d) (ofOpt s) m = ofOut (Bisect.getDegreeAndSize dg np d s) := by
  obtain ⟨_, _, _, hok⟩ := gen_dispatch_ok hm
  unfold AngularLogic.getDegreeAndSize
  rw [hm]
  exact gen_body_eq_model dg np hok.2.2.1 hok.2.2.2.1 d s m

/-- **The loader's consistency guards cannot fire for a pair of the method's table, and the file
it opens exists**: `method_degree_size.npz` is in the directory listing of the package that the
loader's dispatch names for the method. -/
theorem gen_loader_resolved {m : String} {dg np : Tbl} (hm : getDegreeAndSize_dispatch m = .ok (dg, np))
    {d s : Nat} (hp : (d, s) ∈ dg) :
    ∃ pkg, loadPrecomputedAngularGrid (.int d) (.int s) m = .ok (pkg, fileName m d s) ∧
      ∃ e ∈ packageFiles, e.1 = pkg ∧ (fileName m d s, m, d, s) ∈ e.2 := by
  obtain ⟨_, _, _, hok⟩ := gen_dispatch_ok hm
  obtain ⟨pkg, hl, e, he, hpkg, hall⟩ := loader_facts hm
  have hb := loader_body_ok dg np pkg m hok.1 hok.2.2.2.2.2.1 hp
  have hf := hall (d, s) hp
  refine ⟨pkg, ?_, e, he, hpkg, hf⟩
  simp only [loadPrecomputedAngularGrid, hl, bind, Except.bind]
  exact hb

/-- (5, generated code) **Degree request**: for each of the four methods and every request up to
the largest supported degree, the generated `_get_degree_and_size` answers the least supported
degree not below the request with its table partner, and the loader, given that pair, opens an
existing file `method_degree_size.npz` without any of its guards firing. -/
theorem gen_degree_request {m : String} {dg np : Tbl} (hm : getDegreeAndSize_dispatch m = .ok (dg, np))
    (req : Nat) (hreq : req ≤ maxKey (keys dg)) :
    ∃ d s : Nat, AngularLogic.getDegreeAndSize (.int req) .none m = .ok (.int d, .int s) ∧
      (d, s) ∈ dg ∧ (s, d) ∈ np ∧ req ≤ d ∧ (∀ d' ∈ keys dg, req ≤ d' → d ≤ d') ∧
      ∃ pkg, loadPrecomputedAngularGrid (.int d) (.int s) m = .ok (pkg, fileName m d s) ∧
        ∃ e ∈ packageFiles, e.1 = pkg ∧ (fileName m d s, m, d, s) ∈ e.2 := by
  obtain ⟨files, fp, fs, hok⟩ := gen_dispatch_ok hm
  obtain ⟨d, s, hr, h1, h2, _, h4, h5⟩ := degree_request dg np files fp fs hok req hreq
  refine ⟨d, s, ?_, h1, h2, h4, h5, gen_loader_resolved hm h1⟩
  have := gen_eq_model hm (some req) none
  simp only [ofOpt, hr, ofOut] at this
  exact this

/-- (5', generated code) **Size request** (degree `None`). -/
theorem gen_size_request {m : String} {dg np : Tbl} (hm : getDegreeAndSize_dispatch m = .ok (dg, np))
    (req : Nat) (hreq : req ≤ maxKey (keys np)) :
    ∃ d s : Nat, AngularLogic.getDegreeAndSize .none (.int req) m = .ok (.int d, .int s) ∧
      (d, s) ∈ dg ∧ (s, d) ∈ np ∧ req ≤ s ∧ (∀ s' ∈ keys np, req ≤ s' → s ≤ s') ∧
      ∃ pkg, loadPrecomputedAngularGrid (.int d) (.int s) m = .ok (pkg, fileName m d s) ∧
        ∃ e ∈ packageFiles, e.1 = pkg ∧ (fileName m d s, m, d, s) ∈ e.2 := by
  obtain ⟨files, fp, fs, hok⟩ := gen_dispatch_ok hm
  obtain ⟨d, s, hr, h1, h2, _, h4, h5⟩ := size_request dg np files fp fs hok req hreq
  refine ⟨d, s, ?_, h1, h2, h4, h5, gen_loader_resolved hm h1⟩
  have := gen_eq_model hm none (some req)
  simp only [ofOpt, hr, ofOut] at this
  exact this

/-- (6, generated code) Requests above the maximum are rejected with `ValueError` (both kinds);
so are negative and non-integer requests. -/
theorem gen_request_above_max_rejected {m : String} {dg np : Tbl}
    (hm : getDegreeAndSize_dispatch m = .ok (dg, np)) (req : Nat) :
    (maxKey (keys dg) < req → ∀ s : Option Nat,
      AngularLogic.getDegreeAndSize (.int req) (ofOpt s) m = .error .valueError) ∧
    (maxKey (keys np) < req → AngularLogic.getDegreeAndSize .none (.int req) m = .error .valueError) ∧
    (∀ x y, Malformed x ∨ Malformed y → AngularLogic.getDegreeAndSize x y m = .error .valueError) := by
  refine ⟨?_, ?_, ?_⟩
  · intro h s
    have := gen_eq_model hm (some req) s
    simp only [ofOpt] at this ⊢
    rw [this]
    simp [Bisect.getDegreeAndSize, resolve_reject _ _ h, ofOut]
  · intro h
    have := gen_eq_model hm none (some req)
    simp only [ofOpt] at this
    rw [this]
    simp [Bisect.getDegreeAndSize, resolve_reject _ _ h, ofOut]
  · intro x y h
    unfold AngularLogic.getDegreeAndSize
    rw [hm]
    exact gen_malformed_rejected dg np x y m h

/-! ### `convert_angular_sizes_to_degrees` (generated) -/

theorem mem_insertUniq (x y : Int) (l : List Int) : x ∈ insertUniq y l ↔ x = y ∨ x ∈ l := by
  induction l with
  | nil => simp [insertUniq]
  | cons z t ih =>
    unfold insertUniq
    by_cases h1 : y < z
    · simp [h1]
    · by_cases h2 : y = z
      · subst h2; simp
      · simp only [h1, h2, ↓reduceIte, List.mem_cons, ih]
        constructor
        · rintro (h | h | h)
          · exact Or.inr (Or.inl h)
          · exact Or.inl h
          · exact Or.inr (Or.inr h)
        · rintro (h | h | h)
          · exact Or.inr (Or.inl h)
          · exact Or.inl h
          · exact Or.inr (Or.inr h)

theorem mem_unique (x : Int) (l : List Int) : x ∈ l.foldr insertUniq [] ↔ x ∈ l := by
  induction l with
  | nil => simp
  | cons y t ih => simp [List.foldr_cons, mem_insertUniq, ih]

/-- The body of the generated `for size in np.unique(sizes)` loop. -/
def convStep (sizes : List Int) (m : String) (degrees : List Int) (size : Val) : Py (List Int) :=
  (AngularLogic.getDegreeAndSize Val.none size m >>= fun t1 => pure (t1.1)) >>= fun deg =>
  (npEqScalar sizes size >>= fun t2 => npAssignWhere degrees t2 deg) >>= fun degrees =>
  pure degrees

theorem convert_unfold (sizes : List Int) (m : String) :
    convertAngularSizesToDegrees sizes m =
      List.foldlM (convStep sizes m) (npZerosInt sizes.length) (npUnique sizes) := by
  unfold convertAngularSizesToDegrees convStep
  simp

theorem convStep_ok (sizes acc : List Int) (m : String) (s v : Int) (k : Val)
    (h : AngularLogic.getDegreeAndSize .none (.int s) m = .ok (.int v, k))
    (hl : acc.length = sizes.length) :
    convStep sizes m acc (.int s) = .ok (List.zipWith (fun a t => if t == s then v else a) acc sizes) := by
  unfold convStep
  simp only [h, npEqScalar, npAssignWhere, bind, Except.bind, pure, Except.pure, List.length_map, hl,
    ↓reduceIte]
  congr 1
  apply List.ext_getElem
  · simp
  · intro i h1 h2
    simp

theorem convStep_err (sizes acc : List Int) (m : String) (s : Int) (e : PyErr)
    (h : AngularLogic.getDegreeAndSize .none (.int s) m = .error e) :
    convStep sizes m acc (.int s) = .error e := by
  unfold convStep
  simp [h, bind, Except.bind]

/-- (7, generated code) **Size-to-degree conversion of a sequence is element-wise the resolution
rule**: if every size resolves, entry `i` of the result is the degree that `sizes[i]` resolves to —
whatever the order and multiplicity of the sizes, with no memory of earlier elements. -/
theorem gen_convert_is_map (sizes : List Int) (m : String) (f : Int → Int)
    (hf : ∀ s ∈ sizes, ∃ k, AngularLogic.getDegreeAndSize .none (.int s) m = .ok (.int (f s), k)) :
    convertAngularSizesToDegrees sizes m = .ok (sizes.map f) := by
  rw [convert_unfold]
  have key : ∀ (todo done : List Int) (acc : List Int),
      (∀ s ∈ todo, s ∈ sizes) →
      acc = sizes.map (fun t => if t ∈ done then f t else 0) →
      List.foldlM (convStep sizes m) acc (todo.map Val.int)
        = .ok (sizes.map (fun t => if t ∈ done ++ todo then f t else 0)) := by
    intro todo
    induction todo with
    | nil => intro done acc _ h; simp [h, pure, Except.pure]
    | cons s todo ih =>
      intro done acc hsub hacc
      obtain ⟨k, hk⟩ := hf s (hsub s List.mem_cons_self)
      have hl : acc.length = sizes.length := by simp [hacc]
      simp only [List.map_cons, List.foldlM_cons, convStep_ok sizes acc m s (f s) k hk hl, bind, Except.bind]
      have := ih (done ++ [s]) (List.zipWith (fun a t => if t == s then f s else a) acc sizes)
        (fun x hx => hsub x (List.mem_cons_of_mem _ hx))
        (by
          subst hacc
          apply List.ext_getElem
          · simp
          · intro i h1 h2
            have hi : i < sizes.length := by simpa using h2
            simp only [List.getElem_zipWith, List.getElem_map, List.mem_append, List.mem_singleton]
            by_cases hs : sizes[i] = s
            · simp [hs]
            · simp [hs])
      simpa [List.append_assoc] using this
  have := key (sizes.foldr insertUniq []) [] (npZerosInt sizes.length)
    (fun s hs => (mem_unique s sizes).mp hs) (by simp [npZerosInt, List.map_const'])
  unfold npUnique
  refine Eq.trans this ?_
  congr 1
  apply List.map_congr_left
  intro t ht
  simp [(mem_unique t sizes).mpr ht]

theorem foldlM_error {α β ε : Type} (step : β → α → Except ε β) (P : β → Prop) (e0 : ε) :
    ∀ (todo : List α) (acc : β), P acc →
    (∀ s ∈ todo, ∀ acc, P acc → (∃ acc', step acc s = .ok acc' ∧ P acc') ∨ step acc s = .error e0) →
    (∃ s ∈ todo, ∀ acc, P acc → step acc s = .error e0) →
    List.foldlM step acc todo = .error e0 := by
  intro todo
  induction todo with
  | nil => intro acc _ _ h; obtain ⟨s, hs, _⟩ := h; cases hs
  | cons x t ih =>
    intro acc hP hstep hbad
    simp only [List.foldlM_cons, bind, Except.bind]
    rcases hstep x List.mem_cons_self acc hP with ⟨acc', h1, h2⟩ | h1
    · rw [h1]
      obtain ⟨s, hs, hb⟩ := hbad
      rcases List.mem_cons.mp hs with rfl | hs'
      · rw [hb acc hP] at h1; cases h1
      · exact ih acc' h2 (fun s hs => hstep s (List.mem_cons_of_mem _ hs)) ⟨s, hs', hb⟩
    · rw [h1]

/-- One size against a dispatched method: it resolves when it lies in `0 … max`, and is a
`ValueError` otherwise (negative or above the largest supported size). -/
theorem gen_size_dichotomy {m : String} {dg np : Tbl} (hm : getDegreeAndSize_dispatch m = .ok (dg, np))
    (s : Int) :
    (0 ≤ s ∧ s ≤ (maxKey (keys np) : Nat) →
      ∃ d s' : Nat, AngularLogic.getDegreeAndSize .none (.int s) m = .ok (.int d, .int s') ∧
        (s', d) ∈ np ∧ s ≤ s' ∧ ∀ k ∈ keys np, s ≤ (k : Nat) → s' ≤ k) ∧
    (s < 0 ∨ (maxKey (keys np) : Nat) < s →
      AngularLogic.getDegreeAndSize .none (.int s) m = .error .valueError) := by
  constructor
  · rintro ⟨h0, h1⟩
    obtain ⟨d, s', hr, _, h3, h4, h5, _⟩ := gen_size_request hm s.toNat (by omega)
    have hs : ((s.toNat : Nat) : Int) = s := by omega
    rw [hs] at hr
    exact ⟨d, s', hr, h3, by omega, fun k hk hle => h5 k hk (by omega)⟩
  · rintro (h | h)
    · exact (gen_request_above_max_rejected hm 0).2.2 _ _ (Or.inr (by simpa [Malformed] using h))
    · have hs : ((s.toNat : Nat) : Int) = s := by omega
      have := (gen_request_above_max_rejected hm s.toNat).2.1 (by omega)
      rw [hs] at this
      exact this

/-- (7', generated code) The converter **for each of the four methods, on every integer
sequence**: if all sizes lie in `0 … max` the result has one entry per size and entry `i` is the
degree of the least supported size not below `sizes[i]`; if some size is negative or above the
maximum the call is a `ValueError`. -/
theorem gen_convert_elementwise {m : String} {dg np : Tbl}
    (hm : getDegreeAndSize_dispatch m = .ok (dg, np)) (sizes : List Int) :
    ((∀ s ∈ sizes, 0 ≤ s ∧ s ≤ (maxKey (keys np) : Nat)) →
      ∃ ds, convertAngularSizesToDegrees sizes m = .ok ds ∧ ds.length = sizes.length ∧
        ∀ i (h : i < sizes.length) (h' : i < ds.length), ∃ s' : Nat,
          AngularLogic.getDegreeAndSize .none (.int sizes[i]) m = .ok (.int ds[i], .int s') ∧
          sizes[i] ≤ s' ∧ ∀ k ∈ keys np, sizes[i] ≤ (k : Nat) → s' ≤ k) ∧
    ((∃ s ∈ sizes, s < 0 ∨ (maxKey (keys np) : Nat) < s) →
      convertAngularSizesToDegrees sizes m = .error .valueError) := by
  constructor
  · intro hall
    -- the degree each size resolves to, read off the generated function itself
    let f : Int → Int := fun s =>
      match AngularLogic.getDegreeAndSize .none (.int s) m with
      | .ok (.int d, _) => d
      | _ => 0
    have hf : ∀ s ∈ sizes, ∃ k, AngularLogic.getDegreeAndSize .none (.int s) m = .ok (.int (f s), k) := by
      intro s hs
      obtain ⟨d, s', hr, _⟩ := (gen_size_dichotomy hm s).1 (hall s hs)
      exact ⟨.int s', by simp only [f, hr]⟩
    refine ⟨sizes.map f, gen_convert_is_map sizes m f hf, by simp, ?_⟩
    intro i h h'
    obtain ⟨d, s', hr, _, h3, h4⟩ := (gen_size_dichotomy hm sizes[i]).1 (hall _ (List.getElem_mem h))
    refine ⟨s', ?_, h3, h4⟩
    simp only [List.getElem_map, f, hr]
  · rintro ⟨s, hs, hbad⟩
    rw [convert_unfold]
    apply foldlM_error (convStep sizes m) (fun acc => acc.length = sizes.length) .valueError
    · simp [npZerosInt]
    · intro v hv acc hP
      obtain ⟨t, ht, rfl⟩ := List.mem_map.mp hv
      have ht' : t ∈ sizes := (mem_unique t sizes).mp ht
      by_cases hin : 0 ≤ t ∧ t ≤ (maxKey (keys np) : Nat)
      · obtain ⟨d, s', hr, _⟩ := (gen_size_dichotomy hm t).1 hin
        exact Or.inl ⟨_, convStep_ok sizes acc m t d _ hr hP, by simp [hP]⟩
      · exact Or.inr (convStep_err sizes acc m t _ ((gen_size_dichotomy hm t).2 (by omega)))
    · exact ⟨.int s, List.mem_map.mpr ⟨s, (mem_unique s sizes).mpr hs, rfl⟩,
        fun acc _ => convStep_err sizes acc m s _ ((gen_size_dichotomy hm s).2 hbad)⟩

/-! ### the selection part of `AngularGrid.__init__` (generated) -/

theorem model_ok_in_table {dg np files fp fs : Tbl} (hok : MethodOk dg np files fp fs)
    {o o' : Option Nat} {d s : Nat} (h : Bisect.getDegreeAndSize dg np o o' = .ok d s) :
    (d, s) ∈ dg ∧ (s, d) ∈ np := by
  cases o with
  | some n =>
    by_cases hn : n ≤ maxKey (keys dg)
    · obtain ⟨k, v, hr, hmem, _⟩ := resolve_spec dg hok.1 n hn hok.2.2.1
      simp only [Bisect.getDegreeAndSize, hr, Out.ok.injEq] at h
      obtain ⟨rfl, rfl⟩ := h
      exact ⟨hmem, hok.2.2.2.2.2.1 _ hmem⟩
    · simp [Bisect.getDegreeAndSize, resolve_reject dg n (by omega)] at h
  | none =>
    cases o' with
    | none => simp [Bisect.getDegreeAndSize] at h
    | some n =>
      by_cases hn : n ≤ maxKey (keys np)
      · obtain ⟨k, v, hr, hmem, _⟩ := resolve_spec np hok.2.1 n hn hok.2.2.2.1
        simp only [Bisect.getDegreeAndSize, hr, Out.ok.injEq] at h
        obtain ⟨rfl, rfl⟩ := h
        exact ⟨hok.2.2.2.2.1 _ hmem, hmem⟩
      · simp [Bisect.getDegreeAndSize, resolve_reject np n (by omega)] at h

/-- Whatever the arguments: when the generated `_get_degree_and_size` returns, it returns a
`(degree, size)` pair of the method's tables. -/
theorem gen_ok_in_table {m : String} {dg np : Tbl} (hm : getDegreeAndSize_dispatch m = .ok (dg, np))
    {x y : Val} {r : Val × Val} (h : AngularLogic.getDegreeAndSize x y m = .ok r) :
    ∃ d s : Nat, r = (.int d, .int s) ∧ (d, s) ∈ dg ∧ (s, d) ∈ np := by
  obtain ⟨_, _, _, hok⟩ := gen_dispatch_ok hm
  rcases wellformed_or_malformed x with hx | ⟨o, rfl⟩
  · rw [(gen_request_above_max_rejected hm 0).2.2 x y (Or.inl hx)] at h; cases h
  rcases wellformed_or_malformed y with hy | ⟨o', rfl⟩
  · rw [(gen_request_above_max_rejected hm 0).2.2 _ y (Or.inr hy)] at h; cases h
  rw [gen_eq_model hm] at h
  cases hmod : Bisect.getDegreeAndSize dg np o o' with
  | ok d s =>
    rw [hmod] at h
    simp only [ofOut, Except.ok.injEq] at h
    exact ⟨d, s, h.symm, model_ok_in_table hok hmod⟩
  | valueError => rw [hmod] at h; cases h
  | indexError => rw [hmod] at h; cases h

/-- The cache dictionary `__init__` selects for a (lower-cased) method name. -/
def cacheOf (m : String) : Py String :=
  if m == "lebedev" then pure "LEBEDEV_CACHE"
  else if m == "spherical" then pure "SPHERICAL_CACHE"
  else if m == "maxdet" then pure "MAX_DET_CACHE"
  else if m == "ahrens_beylkin" then pure "AHRENS_BEYLKIN_CACHE"
  else throw .valueError

/-- `__init__`, selection part, in closed form: lower-case the method, pick its cache, drop the
degree when a size is given, resolve, load by the resolved pair; the cache key is the resolved
degree. -/
theorem gen_init_unfold (x y : Val) (m : String) :
    initSelect x y m =
      (cacheOf (pyLower m) >>= fun c =>
        AngularLogic.getDegreeAndSize (if pyIsNone y then x else .none) y (pyLower m) >>= fun r =>
        loadPrecomputedAngularGrid r.1 r.2 (pyLower m) >>= fun f => pure (r.1, r.2, c, r.1, f)) := by
  have hy : ((if !(pyIsNone y) then (pure Val.none : Py Val) else pure x))
      = pure (if pyIsNone y then x else .none) := by cases y <;> rfl
  unfold initSelect cacheOf
  simp only [hy]
  by_cases h1 : pyLower m = "lebedev"
  · simp [h1, bind, Except.bind, pure, Except.pure]
  by_cases h2 : pyLower m = "spherical"
  · simp [h2, bind, Except.bind, pure, Except.pure]
  by_cases h3 : pyLower m = "maxdet"
  · simp [h3, bind, Except.bind, pure, Except.pure]
  by_cases h4 : pyLower m = "ahrens_beylkin"
  · simp [h4, bind, Except.bind, pure, Except.pure]
  simp [h1, h2, h3, h4, bind, Except.bind, throw, throwThe, MonadExceptOf.throw]

theorem cacheOf_ok {m : String} {dg np : Tbl} (hm : getDegreeAndSize_dispatch m = .ok (dg, np)) :
    (m, cacheOf m) ∈ [("lebedev", .ok "LEBEDEV_CACHE"), ("spherical", .ok "SPHERICAL_CACHE"),
      ("maxdet", .ok "MAX_DET_CACHE"), ("ahrens_beylkin", .ok "AHRENS_BEYLKIN_CACHE")] := by
  have h := (gen_dispatch_iff m dg np).mp hm
  simp only [List.mem_cons, Prod.mk.injEq, List.not_mem_nil, or_false] at h
  rcases h with ⟨rfl, _⟩ | ⟨rfl, _⟩ | ⟨rfl, _⟩ | ⟨rfl, _⟩ <;> simp [cacheOf, pure, Except.pure]

/-- `AngularGrid(degree=…, size=…)`: when a size is given the degree argument is ignored. -/
theorem gen_init_size_overrides_degree (x y : Val) (m : String) (hy : y ≠ .none) :
    initSelect x y m = initSelect .none y m := by
  rw [gen_init_unfold, gen_init_unfold]
  cases y with
  | none => exact absurd rfl hy
  | int i => rfl
  | other => rfl

/-- **`__init__` builds the grid `_get_degree_and_size` resolves**: for a (case-insensitive)
method name, whenever the resolution returns, the constructor reports that degree, takes the
points of the existing file `method_degree_size.npz` (no loader guard fires), and files them in
the method's own cache under the resolved degree. -/
theorem gen_init_resolved {m : String} {dg np : Tbl}
    (hm : getDegreeAndSize_dispatch (pyLower m) = .ok (dg, np)) (x y : Val) {r : Val × Val}
    (hr : AngularLogic.getDegreeAndSize (if pyIsNone y then x else .none) y (pyLower m) = .ok r) :
    ∃ (d s : Nat) (c pkg : String), r = (.int d, .int s) ∧ (d, s) ∈ dg ∧ (s, d) ∈ np ∧
      cacheOf (pyLower m) = .ok c ∧
      initSelect x y m = .ok (.int d, .int s, c, .int d, pkg, fileName (pyLower m) d s) ∧
      ∃ e ∈ packageFiles, e.1 = pkg ∧ (fileName (pyLower m) d s, pyLower m, d, s) ∈ e.2 := by
  obtain ⟨d, s, rfl, h1, h2⟩ := gen_ok_in_table hm hr
  obtain ⟨pkg, hl, hf⟩ := gen_loader_resolved hm h1
  have hc := cacheOf_ok hm
  simp only [List.mem_cons, Prod.mk.injEq, List.not_mem_nil, or_false] at hc
  have : ∃ c, cacheOf (pyLower m) = .ok c := by
    rcases hc with ⟨_, h⟩ | ⟨_, h⟩ | ⟨_, h⟩ | ⟨_, h⟩ <;> exact ⟨_, h⟩
  obtain ⟨c, hc'⟩ := this
  refine ⟨d, s, c, pkg, rfl, h1, h2, hc', ?_, hf⟩
  rw [gen_init_unfold, hc', hr]
  simp only [bind, Except.bind, hl, pure, Except.pure]

/-- `AngularGrid(degree=req, method=m)` for every request up to the largest supported degree. -/
theorem gen_init_degree_request {m : String} {dg np : Tbl}
    (hm : getDegreeAndSize_dispatch (pyLower m) = .ok (dg, np)) (req : Nat) (hreq : req ≤ maxKey (keys dg)) :
    ∃ (d s : Nat) (c pkg : String),
      initSelect (.int req) .none m = .ok (.int d, .int s, c, .int d, pkg, fileName (pyLower m) d s) ∧
      (d, s) ∈ dg ∧ req ≤ d ∧ (∀ d' ∈ keys dg, req ≤ d' → d ≤ d') ∧
      ∃ e ∈ packageFiles, e.1 = pkg ∧ (fileName (pyLower m) d s, pyLower m, d, s) ∈ e.2 := by
  obtain ⟨d, s, hr, _, _, h4, h5, _⟩ := gen_degree_request hm req hreq
  obtain ⟨d', s', c, pkg, he, h1, _, _, hi, hf⟩ := gen_init_resolved hm (.int req) .none (r := (.int d, .int s)) hr
  simp only [Prod.mk.injEq, Val.int.injEq, Int.natCast_inj] at he
  obtain ⟨rfl, rfl⟩ := he
  exact ⟨d, s, c, pkg, hi, h1, h4, h5, hf⟩

/-- `AngularGrid(degree=anything, size=req, method=m)` for every request up to the largest size. -/
theorem gen_init_size_request {m : String} {dg np : Tbl}
    (hm : getDegreeAndSize_dispatch (pyLower m) = .ok (dg, np)) (x : Val) (req : Nat)
    (hreq : req ≤ maxKey (keys np)) :
    ∃ (d s : Nat) (c pkg : String),
      initSelect x (.int req) m = .ok (.int d, .int s, c, .int d, pkg, fileName (pyLower m) d s) ∧
      (s, d) ∈ np ∧ req ≤ s ∧ (∀ s' ∈ keys np, req ≤ s' → s ≤ s') ∧
      ∃ e ∈ packageFiles, e.1 = pkg ∧ (fileName (pyLower m) d s, pyLower m, d, s) ∈ e.2 := by
  obtain ⟨d, s, hr, _, _, h4, h5, _⟩ := gen_size_request hm req hreq
  obtain ⟨d', s', c, pkg, he, _, h2, _, hi, hf⟩ := gen_init_resolved hm x (.int req) (r := (.int d, .int s)) hr
  simp only [Prod.mk.injEq, Val.int.injEq, Int.natCast_inj] at he
  obtain ⟨rfl, rfl⟩ := he
  exact ⟨d, s, c, pkg, hi, h2, h4, h5, hf⟩

theorem init_inv {x y : Val} {m : String} {d s k : Val} {c : String} {f : String × String}
    (h : initSelect x y m = .ok (d, s, c, k, f)) :
    cacheOf (pyLower m) = .ok c ∧
    AngularLogic.getDegreeAndSize (if pyIsNone y then x else .none) y (pyLower m) = .ok (d, s) ∧
    k = d ∧ loadPrecomputedAngularGrid d s (pyLower m) = .ok f := by
  rw [gen_init_unfold] at h
  cases hc : cacheOf (pyLower m) with
  | error e => simp [hc, bind, Except.bind] at h
  | ok c0 =>
    cases hr : AngularLogic.getDegreeAndSize (if pyIsNone y then x else .none) y (pyLower m) with
    | error e => simp [hc, hr, bind, Except.bind] at h
    | ok r =>
      cases hl : loadPrecomputedAngularGrid r.1 r.2 (pyLower m) with
      | error e => simp [hc, hr, hl, bind, Except.bind] at h
      | ok f0 =>
        simp only [hc, hr, hl, bind, Except.bind, pure, Except.pure, Except.ok.injEq, Prod.mk.injEq] at h
        obtain ⟨rfl, rfl, rfl, rfl, rfl⟩ := h
        exact ⟨rfl, rfl, rfl, hl⟩

theorem dispatch_of_ok {x y : Val} {m : String} {r : Val × Val}
    (h : AngularLogic.getDegreeAndSize x y m = .ok r) : ∃ dg np, getDegreeAndSize_dispatch m = .ok (dg, np) := by
  unfold AngularLogic.getDegreeAndSize at h
  cases hd : getDegreeAndSize_dispatch m with
  | error e => simp [hd, bind, Except.bind] at h
  | ok t => exact ⟨t.1, t.2, rfl⟩

/-- **The cache key is sound**: two constructions (any arguments, any spelling of the method)
that address the same entry of the same cache dictionary stand for the same degree, the same size
and the same data file — a cache hit can only return the grid a miss would have loaded. -/
theorem gen_cache_key_sound (x y x' y' : Val) (m m' : String)
    {d s k d' s' k' : Val} {c : String} {f f' : String × String}
    (h : initSelect x y m = .ok (d, s, c, k, f)) (h' : initSelect x' y' m' = .ok (d', s', c, k', f'))
    (hk : k = k') : d = d' ∧ s = s' ∧ f = f' := by
  obtain ⟨hc, hr, rfl, hl⟩ := init_inv h
  obtain ⟨hc', hr', rfl, hl'⟩ := init_inv h'
  subst hk
  obtain ⟨dg, np, hm⟩ := dispatch_of_ok hr
  obtain ⟨dg', np', hm'⟩ := dispatch_of_ok hr'
  -- same cache dictionary, hence the same method
  have hmm : pyLower m = pyLower m' := by
    have a := cacheOf_ok hm
    have b := cacheOf_ok hm'
    rw [hc] at a; rw [hc'] at b
    simp only [List.mem_cons, Prod.mk.injEq, Except.ok.injEq, List.not_mem_nil, or_false] at a b
    rcases a with ⟨a1, a2⟩ | ⟨a1, a2⟩ | ⟨a1, a2⟩ | ⟨a1, a2⟩ <;>
      rcases b with ⟨b1, b2⟩ | ⟨b1, b2⟩ | ⟨b1, b2⟩ | ⟨b1, b2⟩ <;>
      first
        | (exfalso; rw [a2] at b2; revert b2; decide)
        | (rw [a1, b1])
  rw [← hmm] at hr' hl' hm'
  rw [hm] at hm'
  simp only [Except.ok.injEq, Prod.mk.injEq] at hm'
  obtain ⟨rfl, rfl⟩ := hm'
  obtain ⟨_, _, _, hok⟩ := gen_dispatch_ok hm
  obtain ⟨dn, sn, he, hp, _⟩ := gen_ok_in_table hm hr
  obtain ⟨dn', sn', he', hp', _⟩ := gen_ok_in_table hm hr'
  simp only [Prod.mk.injEq] at he he'
  obtain ⟨rfl, rfl⟩ := he
  obtain ⟨hdd, rfl⟩ := he'
  simp only [Val.int.injEq, Int.natCast_inj] at hdd
  subst hdd
  have hs : sn = sn' := by
    have a := lookup_of_mem hok.1 hp
    have b := lookup_of_mem hok.1 hp'
    rw [a] at b; exact Option.some.inj b
  subst hs
  rw [hl] at hl'
  exact ⟨rfl, rfl, Except.ok.inj hl'⟩

/-! ### non-vacuity: the generated functions on concrete requests -/

deriving instance DecidableEq for Except

/-- The hypotheses of the theorems above are met by each of the four methods (in any spelling for
`__init__`), and the generated code gives the documented answers: degree 0 ↦ (3, 6), degree 32 ↦
(35, 434), size 27 ↦ (9, 38) for Lebedev; a float / negative / too large request is a `ValueError`;
`AngularGrid(50)` is the 974-point grid of degree 53 read from `lebedev_53_974.npz`. -/
example :
    getDegreeAndSize_dispatch "lebedev" = .ok (lebedevDegrees, lebedevNPoints) ∧
    getDegreeAndSize_dispatch (pyLower "Ahrens_Beylkin") = .ok (ahrensDegrees, ahrensNPoints) ∧
    AngularLogic.getDegreeAndSize (.int 0) .none "lebedev" = .ok (.int 3, .int 6) ∧
    AngularLogic.getDegreeAndSize (.int 32) .none "lebedev" = .ok (.int 35, .int 434) ∧
    AngularLogic.getDegreeAndSize .none (.int 27) "lebedev" = .ok (.int 9, .int 38) ∧
    AngularLogic.getDegreeAndSize (.int 7) (.int 27) "spherical" = .ok (.int 7, .int 32) ∧
    AngularLogic.getDegreeAndSize (.int 132) .none "lebedev" = .error .valueError ∧
    AngularLogic.getDegreeAndSize .other .none "lebedev" = .error .valueError ∧
    AngularLogic.getDegreeAndSize .none (.int (-1)) "maxdet" = .error .valueError ∧
    AngularLogic.getDegreeAndSize .none .none "maxdet" = .error .valueError ∧
    AngularLogic.getDegreeAndSize (.int 5) .none "Lebedev" = .error .valueError := by
  decide +kernel

example :
    convertAngularSizesToDegrees [27, 6, 27, 400] "lebedev" = .ok [9, 3, 9, 35] ∧
    convertAngularSizesToDegrees [27, 6, -27] "lebedev" = .error .valueError ∧
    convertAngularSizesToDegrees [] "lebedev" = .ok [] ∧
    loadPrecomputedAngularGrid (.int 9) (.int 38) "lebedev" = .ok ("grid.data.lebedev", "lebedev_9_38.npz") ∧
    loadPrecomputedAngularGrid (.int 9) (.int 50) "lebedev" = .error .valueError := by
  decide +kernel

set_option synthInstance.maxSize 1024 in
example :
    initSelect (.int 10) (.int 27) "LEBEDEV"
      = .ok (.int 9, .int 38, "LEBEDEV_CACHE", .int 9, "grid.data.lebedev", "lebedev_9_38.npz") ∧
    initSelect (.int 50) .none "lebedev"
      = .ok (.int 53, .int 974, "LEBEDEV_CACHE", .int 53, "grid.data.lebedev", "lebedev_53_974.npz") := by
  decide +kernel

end GridVerif.C12

/-
  C12, kernel-decided facts about the regenerated loader dispatch and the directory listing of
  the data packages (`Gen/AngularLogic.lean`).  Kept apart from `Props/C12/Logic.lean` because the
  kernel needs some 25 s for the string work.
-/
import GridVerif.Gen.AngularLogic

namespace GridVerif.C12
open GridVerif.AngularPy GridVerif.Gen.Angular GridVerif.Gen.AngularLogic

/-- The name of the data file of a grid: `method_degree_size.npz`. -/
def fileName (m : String) (d s : Nat) : String := m ++ "_" ++ toString d ++ "_" ++ toString s ++ ".npz"

/-- The directory listing is split correctly: every file name is `prefix_degree_size.npz` of its
three parts. Decided by the kernel on the regenerated listing. -/
theorem listing_names : ∀ e ∈ packageFiles, ∀ x ∈ e.2, x.1 = fileName x.2.1 x.2.2.1 x.2.2.2 := by
  decide +kernel

/-- For one method name: the loader's dispatch succeeds with the same tables as
`_get_degree_and_size`'s, and for every `(degree, size)` pair of the table the file
`method_degree_size.npz` is in the directory listing of the package the loader reads from. -/
def LoaderOk (m : String) : Prop :=
  match loadPrecomputedAngularGrid_dispatch m with
  | .ok (dg, np, pkg) =>
    (getDegreeAndSize_dispatch m).toOption = some (dg, np) ∧
    ∃ e ∈ packageFiles, e.1 = pkg ∧ ∀ p ∈ dg, ∃ x ∈ e.2, x.2.2 = p ∧ x.2.1 = m
  | .error _ => False

instance (m : String) : Decidable (LoaderOk m) := by
  unfold LoaderOk; split <;> infer_instance

/-- Decided by the kernel on the regenerated dispatch, tables and directory listing. -/
theorem loader_ok : ∀ m ∈ ["lebedev", "spherical", "maxdet", "ahrens_beylkin"], LoaderOk m := by
  decide +kernel

end GridVerif.C12

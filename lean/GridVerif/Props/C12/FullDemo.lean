/-
  C12, non-vacuity of `Props/C12/Full.lean`: a file system that satisfies `FsOk` (decided against
  the regenerated listing), the empty cache dictionaries of a fresh interpreter, `cache=False` first.
-/
import GridVerif.Props.C12.Full

namespace GridVerif.C12
open GridVerif GridVerif.Bisect GridVerif.AngularPy GridVerif.Gen GridVerif.Gen.Angular GridVerif.Gen.AngularLogic

/-! ### non-vacuity: a file system satisfying `FsOk`, a fresh interpreter, `cache=False` first -/

/-- Size recorded in the regenerated listing for a file of a package. -/
def sizeOfName (pkg name : String) : Option Nat :=
  (packageFiles.find? fun e => e.1 == pkg).bind fun e => (e.2.find? fun x => x.1 == name).map fun x => x.2.2.2

/-- A file system over `Float` in which every listed file loads with the listed number of points and
a single (broadcast) weight. -/
def demoLoad (pkg name : String) : Py (Npz Float) :=
  match sizeOfName pkg name with
  | some n => .ok ⟨List.replicate n [0, 0, 1], [1]⟩
  | none => .error .osError

theorem sizeOfName_listing : ∀ e ∈ packageFiles, ∀ x ∈ e.2, sizeOfName e.1 x.1 = some x.2.2.2 := by
  decide +kernel

theorem demoLoad_ok : FsOk demoLoad := by
  intro e he x hx
  refine ⟨⟨List.replicate x.2.2.2 [0, 0, 1], [1]⟩, ?_, by simp, Or.inr rfl⟩
  simp [demoLoad, sizeOfName_listing e he x hx]

/-- `AngularGrid(10, size=27, cache=False, method="LEBEDEV")` in a fresh interpreter: degree 9, the 38
points of `lebedev_9_38.npz`, 38 weights, the cache dictionaries stay empty, one "size is used"
warning; the same request with `cache=True` builds the same grid and leaves one cache entry. -/
example :
    (∃ p w l, initFull demoLoad [] (.int 10) (.int 27) false "LEBEDEV" = .ok (.int 9, "lebedev", p, w, [], l) ∧
      p.length = 38 ∧ w.length = 38 ∧ sizeWarning ∈ l) ∧
    (∃ p w l c v, initFull demoLoad [] (.int 10) (.int 27) true "LEBEDEV" = .ok (.int 9, "lebedev", p, w, c, l) ∧
      cacheGet c "LEBEDEV_CACHE" (.int 9) = .ok v ∧ v.1 = p) := by
  have hm : getDegreeAndSize_dispatch (pyLower "LEBEDEV") = .ok (lebedevDegrees, lebedevNPoints) := by decide +kernel
  have hr : AngularLogic.getDegreeAndSize (if pyIsNone (.int 27) then (.int 10) else .none) (.int 27) (pyLower "LEBEDEV")
      = .ok (.int 9, .int 38) := by decide +kernel
  have hc : cacheOf (pyLower "LEBEDEV") = .ok "LEBEDEV_CACHE" := by decide +kernel
  constructor
  · obtain ⟨d, s, c, pkg, data, w, caches', h0, _, _, _, _, hp, _, hw, _, hi, _, hoff, _⟩ :=
      gen_init_full demoLoad_ok (cacheOk_nil demoLoad) hm (.int 10) (.int 27) false hr
    simp only [Prod.mk.injEq, Val.int.injEq] at h0
    obtain ⟨h0a, h0b⟩ := h0
    have hd : d = 9 := by omega
    have hs : s = 38 := by omega
    subst hd hs
    rw [hoff rfl] at hi
    have hl : pyLower "LEBEDEV" = "lebedev" := by decide +kernel
    rw [hl] at hi
    refine ⟨_, _, _, hi, hp, by simp [length_finalWeights, hw], by simp [pyIsNone]⟩
  · obtain ⟨d, s, c, pkg, data, w, caches', h0, _, hc2, _, _, hp, _, hw, _, hi, _, _, hon⟩ :=
      gen_init_full demoLoad_ok (cacheOk_nil demoLoad) hm (.int 10) (.int 27) true hr
    simp only [Prod.mk.injEq, Val.int.injEq] at h0
    obtain ⟨h0a, h0b⟩ := h0
    have hd : d = 9 := by omega
    subst hd
    rw [hc] at hc2
    cases hc2
    have hl : pyLower "LEBEDEV" = "lebedev" := by decide +kernel
    rw [hl] at hi
    exact ⟨_, _, _, _, _, hi, hon rfl, rfl⟩

end GridVerif.C12

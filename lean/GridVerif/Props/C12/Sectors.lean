/-
  C12, last clause ("pruned and preset atomic grids never get a shell coarser than asked for") over the
  *generated text* of `AtomGrid._find_degrees_for_radial_points` (`Gen/AtomGrid.lean`, translated statement by
  statement from the current source by harness/translate/atomgrid.py): the degree a shell gets is looked up by the
  sector in which the shell's OWN radius lies — whatever the order of the radial array (ascending, descending as
  `MultiExpRTransform` produces it, shuffled, repeated radii).  Self-contained (no import of C05's proofs).
-/
import GridVerif.Gen.AtomGrid

set_option linter.unusedSectionVars false

namespace GridVerif.C12
open GridVerif.AtomGrid

section
variable {K : Type} [LT K] [LE K] [DecidableLT K] [DecidableLE K]

/-- Sector of a radius: the number of sector boundaries strictly below it. -/
def sectorOf (bounds : List K) (r : K) : Nat := bounds.countP fun b => decide (r > b)

theorem sectorOf_le (bounds : List K) (r : K) : sectorOf bounds r ≤ bounds.length := List.countP_le_length

theorem mapM_map_ok' {α β γ ε : Type} (f : α → β) (g : β → Except ε γ) (l : List α) :
    (l.map f).mapM g = l.mapM fun a => g (f a) := by
  induction l with
  | nil => rfl
  | cons a l ih => simp only [List.map_cons, List.mapM_cons, ih]

/-- The generated lookup, shell by shell. -/
theorem gen_find_degrees_unfold (rp bounds : List K) (ds : List Nat) :
    Gen.AtomGrid.find_degrees_for_radial_points rp bounds ds =
      rp.mapM fun r => match ds[sectorOf bounds r]? with
        | some d => .ok d
        | none => .error Err.indexError := by
  unfold Gen.AtomGrid.find_degrees_for_radial_points npTake npCountAxis1 sectorOf
  simp only [mapM_map_ok']
  congr 1
  funext r
  cases ds[List.countP (fun b => decide (r > b)) bounds]? <;> rfl

theorem mapM_ok_of_total {α β ε : Type} (g : α → Except ε β) (h : α → β) (l : List α) (hg : ∀ a ∈ l, g a = .ok (h a)) :
    l.mapM g = .ok (l.map h) := by
  induction l with
  | nil => rfl
  | cons a l ih =>
    simp only [List.mapM_cons, hg a List.mem_cons_self, ih fun b hb => hg b (List.mem_cons_of_mem _ hb)]
    rfl

/-- **Per-shell sector theorem over the generated text.** With one more degree than boundaries the lookup never
fails, returns one degree per radial point, and the degree at position `i` is the one of the sector of the radius
`rp[i]` itself — for every radial array, in any order, with or without repeated radii. -/
theorem gen_sector_per_shell (rp bounds : List K) (ds : List Nat) (hl : bounds.length < ds.length) :
    ∃ out, Gen.AtomGrid.find_degrees_for_radial_points rp bounds ds = .ok out ∧ out.length = rp.length ∧
      ∀ i (h : i < rp.length) (h' : i < out.length), ds[sectorOf bounds rp[i]]? = some out[i] := by
  have hin : ∀ r, sectorOf bounds r < ds.length := fun r => Nat.lt_of_le_of_lt (sectorOf_le bounds r) hl
  refine ⟨rp.map fun r => ds[sectorOf bounds r]'(hin r), ?_, by simp, ?_⟩
  · rw [gen_find_degrees_unfold]
    apply mapM_ok_of_total
    intro r _
    simp [List.getElem?_eq_getElem (hin r)]
  · intro i h h'
    simp [List.getElem?_eq_getElem (hin _)]

/-- **No shell coarser than asked for, in any order of the radial grid**: if every sector's matched degree is at
least the requested one (the resolution rule: `gen_degree_request`), then every shell's degree is at least the degree
requested for the sector its own radius lies in. -/
theorem gen_pruned_shell_not_coarser (rp bounds : List K) (matched req : List Nat) (hl : bounds.length < matched.length)
    (hr : req.length = matched.length)
    (hge : ∀ j (h : j < req.length) (h' : j < matched.length), req[j] ≤ matched[j]) :
    ∃ out, Gen.AtomGrid.find_degrees_for_radial_points rp bounds matched = .ok out ∧ out.length = rp.length ∧
      ∀ i (h : i < rp.length) (h' : i < out.length) (hq : sectorOf bounds rp[i] < req.length),
        req[sectorOf bounds rp[i]] ≤ out[i] := by
  obtain ⟨out, h1, h2, h3⟩ := gen_sector_per_shell rp bounds matched hl
  refine ⟨out, h1, h2, fun i h h' hq => ?_⟩
  have hm : sectorOf bounds rp[i] < matched.length := by omega
  have := h3 i h h'
  rw [List.getElem?_eq_getElem hm] at this
  have e : matched[sectorOf bounds rp[i]] = out[i] := Option.some.inj this
  rw [← e]
  exact hge _ hq hm

/-- The lookup is additive over any split of the radial array (so it is a function of each radius alone). -/
theorem gen_find_degrees_append (a b bounds : List K) (ds : List Nat) :
    Gen.AtomGrid.find_degrees_for_radial_points (a ++ b) bounds ds =
      (do let x ← Gen.AtomGrid.find_degrees_for_radial_points a bounds ds
          let y ← Gen.AtomGrid.find_degrees_for_radial_points b bounds ds
          pure (x ++ y)) := by
  simp only [gen_find_degrees_unfold, List.mapM_append]

end

/-- Descending (as `MultiExpRTransform` gives them), ascending and shuffled radii with a repeated one and one exactly
on a boundary: each radius gets the degree of its own sector. -/
example : Gen.AtomGrid.find_degrees_for_radial_points ([5, 3, 2, 1, 0] : List Nat) [1, 2, 4] [3, 5, 7, 9] = .ok [9, 7, 5, 3, 3] ∧
    Gen.AtomGrid.find_degrees_for_radial_points ([0, 1, 2, 3, 5] : List Nat) [1, 2, 4] [3, 5, 7, 9] = .ok [3, 3, 5, 7, 9] ∧
    Gen.AtomGrid.find_degrees_for_radial_points ([3, 0, 5, 3, 1] : List Nat) [1, 2, 4] [3, 5, 7, 9] = .ok [7, 3, 9, 7, 3] :=
  ⟨rfl, rfl, rfl⟩

end GridVerif.C12

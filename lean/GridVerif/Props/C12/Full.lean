/-
  C12 over the *full generated text* of `AngularGrid.__init__` and of the loader
  (`Gen/AngularLogic.lean`: `initFull`, `loadPrecomputedAngularGrid_data`,
  `loadPrecomputedAngularGridFull`, `getDegreeAndSize_warnings`): the grid that is built — its
  degree, its points, its weights — is the resolved one whatever the `cache=` option and whatever
  the cache dictionaries hold from earlier constructions (fresh interpreter or not).
-/
import GridVerif.Props.C12.Logic

set_option linter.unusedSectionVars false

namespace GridVerif.C12
open GridVerif GridVerif.Bisect GridVerif.AngularPy GridVerif.Gen GridVerif.Gen.Angular GridVerif.Gen.AngularLogic

/-! ### warnings of `_get_degree_and_size` -/

/-- The one warning `_get_degree_and_size` can raise. -/
def bothWarning : Warning :=
  ⟨"RuntimeWarning", "Both degree and size arguments are given, so only degree is used!", 2, 0⟩

/-- `if degree and size:` on well-formed arguments. -/
def bothGiven (d s : Option Nat) : Bool :=
  match d, s with
  | some a, some b => a != 0 && b != 0
  | _, _ => false

theorem natCast_bne_zero (a : Nat) : ((a : Int) != 0) = (a != 0) := by
  cases a with
  | zero => rfl
  | succ n => simp [bne, BEq.beq]; omega

theorem truthy_ofOpt (d s : Option Nat) :
    pyAnd (pyTruthy (ofOpt d)) (pyTruthy (ofOpt s)) = .ok (bothGiven d s) := by
  cases d with
  | none => rfl
  | some a =>
    cases s with
    | none => cases h : (a != 0) <;> simp [ofOpt, pyTruthy, pyAnd, bothGiven, bind, Except.bind, pure, Except.pure, natCast_bne_zero, h]
    | some b => cases h : (a != 0) <;> simp [ofOpt, pyTruthy, pyAnd, bothGiven, bind, Except.bind, pure, Except.pure, natCast_bne_zero, h]

theorem except_bind_pure_const {ε α β : Type} (x : Except ε α) (c : β) :
    (x >>= fun _ => (pure c : Except ε β)) = (fun _ => c) <$> x := by
  cases x <;> rfl

theorem ok_bind {ε α β : Type} (a : α) (f : α → Except ε β) : (Except.ok a >>= f) = f a := rfl
theorem pure_eq_ok {ε α : Type} (a : α) : (pure a : Except ε α) = .ok a := rfl

theorem except_map_ok {ε α β : Type} (a : α) (g : α → β) : g <$> (Except.ok a : Except ε α) = .ok (g a) := rfl

theorem except_map_throw {ε α β : Type} (e : ε) (g : α → β) :
    g <$> (throw e : Except ε α) = throw e := rfl

theorem except_map_ite {ε α β : Type} (c : Prop) [Decidable c] (a b : Except ε α) (g : α → β) :
    g <$> (if c then a else b) = if c then g <$> a else g <$> b := by
  split <;> rfl

/-- The executed warnings, given by the same body: on well-formed arguments the warnings variant
of `_get_degree_and_size` raises what the function raises, and where the function returns it
yields the "both given" warning exactly when `degree and size` is true. -/
theorem gen_warnings_body_eq (dg np : Tbl) (d s : Option Nat) (m : String) :
    getDegreeAndSize_warnings_body dg np (ofOpt d) (ofOpt s) m =
      (fun _ => if bothGiven d s then [bothWarning] else []) <$>
        getDegreeAndSize_body dg np (ofOpt d) (ofOpt s) m := by
  unfold getDegreeAndSize_warnings_body getDegreeAndSize_body
  simp only [guard_ok, truthy_ofOpt]
  cases d <;> cases s <;>
    simp [ofOpt, pyIsNone, bothGiven, map_bind, except_map_throw, except_map_ite, bothWarning,
      ok_bind, pure_eq_ok, except_map_ok]
  rename_i a b
  by_cases h : (¬a = 0 ∧ ¬b = 0) <;> simp [h, ok_bind]

/-- **Warnings of `_get_degree_and_size`** (generated text, through the dispatch): whenever the
function returns, exactly the "both given" `RuntimeWarning` (stacklevel 2) was raised, and only
when neither argument is `None` or `0`. -/
theorem gen_warnings_of_ok {m : String} {dg np : Tbl} (hm : getDegreeAndSize_dispatch m = .ok (dg, np))
    {x y : Val} {r : Val × Val} (h : AngularLogic.getDegreeAndSize x y m = .ok r) :
    ∃ d s, x = ofOpt d ∧ y = ofOpt s ∧
      getDegreeAndSize_warnings x y m = .ok (if bothGiven d s then [bothWarning] else []) := by
  rcases wellformed_or_malformed x with hx | ⟨d, rfl⟩
  · rw [(gen_request_above_max_rejected hm 0).2.2 x y (Or.inl hx)] at h; cases h
  rcases wellformed_or_malformed y with hy | ⟨s, rfl⟩
  · rw [(gen_request_above_max_rejected hm 0).2.2 _ y (Or.inr hy)] at h; cases h
  refine ⟨d, s, rfl, rfl, ?_⟩
  unfold AngularLogic.getDegreeAndSize at h
  unfold getDegreeAndSize_warnings
  rw [hm] at h ⊢
  simp only [ok_bind] at h ⊢
  rw [gen_warnings_body_eq, h]
  rfl

/-! ### the loader after `np.load` -/

section full
variable {K : Type} [Mul K] [Div K] [NatCast K] [Elem K] [LT K] [LE K] [DecidableLT K] [DecidableLE K]

/-- **Loader, after `np.load`** (generated text): the points are those of the file; a file with
one weight per point keeps its weights, a file with a single weight gets that weight (times
`np.ones`) for every point. -/
theorem gen_loader_data (data : Npz K) :
    (data.weights.length ≠ 1 →
      loadPrecomputedAngularGrid_data data = .ok (data.points, data.weights)) ∧
    (∀ w, data.weights = [w] →
      loadPrecomputedAngularGrid_data data =
        .ok (data.points, List.replicate data.points.length (((1 : Nat) : K) * w))) := by
  constructor
  · intro h
    simp [loadPrecomputedAngularGrid_data, h, pure_eq_ok]
  · intro w hw
    simp only [loadPrecomputedAngularGrid_data, hw, List.length_singleton, beq_self_eq_true, ↓reduceIte]
    by_cases h1 : data.points.length = 1
    · simp [npMul, npBroadcast, npOnes, h1, pure_eq_ok, ok_bind]
    · have : (List.replicate data.points.length ((1 : Nat) : K)).length ≠ [w].length := by simpa using h1
      unfold npMul npBroadcast npOnes
      simp only [this, ↓reduceIte]
      cases hn : data.points.length with
      | zero => simp [pure_eq_ok, ok_bind]
      | succ n =>
        cases n with
        | zero => exact absurd hn h1
        | succ k => simp [List.replicate_succ, pure_eq_ok, ok_bind]

/-- The loader returns as many weights as points for every file of the advertised shape. -/
theorem gen_loader_data_shape (data : Npz K) (n : Nat) (hp : data.points.length = n)
    (hw : data.weights.length = n ∨ data.weights.length = 1) :
    ∃ w, loadPrecomputedAngularGrid_data data = .ok (data.points, w) ∧ w.length = n := by
  by_cases h1 : data.weights.length = 1
  · obtain ⟨w0, hw0⟩ := List.length_eq_one_iff.mp h1
    exact ⟨_, (gen_loader_data data).2 w0 hw0, by simp [hp]⟩
  · exact ⟨_, (gen_loader_data data).1 h1, by rcases hw with h | h; exact h; exact absurd h h1⟩

/-! ### `AngularGrid.__init__`, every statement -/

/-- The file system behaves as the regenerated directory listing says: every listed file loads,
with as many points as its name says and one weight per point or a single weight (the header
facts of `Gen/AngularTables.lean`, decided in `tables_ok`). -/
def FsOk (npLoad : String → String → Py (Npz K)) : Prop :=
  ∀ e ∈ packageFiles, ∀ x ∈ e.2, ∃ data, npLoad e.1 x.1 = .ok data ∧
    data.points.length = x.2.2.2 ∧ (data.weights.length = x.2.2.2 ∨ data.weights.length = 1)

/-- Every entry of the cache dictionaries is what the loader returns for the dictionary's method
and the entry's key (true of the empty dictionaries of a fresh interpreter, and kept by every
construction: `gen_init_full`). -/
def CacheOk (npLoad : String → String → Py (Npz K)) (c : Caches K) : Prop :=
  ∀ e ∈ c, ∃ (m : String) (dg np : Tbl) (d s : Nat), getDegreeAndSize_dispatch m = .ok (dg, np) ∧
    cacheOf m = .ok e.1.1 ∧ e.1.2 = (d : Int) ∧ (d, s) ∈ dg ∧
    loadPrecomputedAngularGridFull npLoad (.int d) (.int s) m = .ok e.2

theorem cacheOk_nil (npLoad : String → String → Py (Npz K)) : CacheOk npLoad [] := by
  intro e he; cases he

/-- The weights handed to `Grid.__init__`. -/
def finalWeights (m : String) (w : List K) : List K :=
  if ["maxdet", "ahrens_beylkin"].contains m then npCopy w
  else npMulS (npMulS w ((4 : Nat) : K)) (Elem.pi : K)

def sizeWarning : Warning :=
  ⟨"RuntimeWarning", "Size is used for making the angular grid, degree is ignored!", 2, 0⟩
def negWarning : Warning :=
  ⟨"UserWarning", "Lebedev weights are negative which can introduce round-off errors.", 2, 0⟩

theorem cacheOf_inj {m1 m2 : String} {t1 t2 : Tbl × Tbl} {c : String}
    (h1 : getDegreeAndSize_dispatch m1 = .ok t1) (h2 : getDegreeAndSize_dispatch m2 = .ok t2)
    (c1 : cacheOf m1 = .ok c) (c2 : cacheOf m2 = .ok c) : m1 = m2 := by
  have a := cacheOf_ok (dg := t1.1) (np := t1.2) h1
  have b := cacheOf_ok (dg := t2.1) (np := t2.2) h2
  rw [c1] at a; rw [c2] at b
  simp only [List.mem_cons, Prod.mk.injEq, Except.ok.injEq, List.not_mem_nil, or_false] at a b
  rcases a with ⟨a1, a2⟩ | ⟨a1, a2⟩ | ⟨a1, a2⟩ | ⟨a1, a2⟩ <;>
    rcases b with ⟨b1, b2⟩ | ⟨b1, b2⟩ | ⟨b1, b2⟩ | ⟨b1, b2⟩ <;>
    first
      | (exfalso; rw [a2] at b2; revert b2; decide)
      | (rw [a1, b1])

/-- What a cache hit returns under the invariant: the loader's result for the resolved pair. -/
theorem cache_hit {npLoad : String → String → Py (Npz K)} {caches : Caches K} (hc : CacheOk npLoad caches)
    {m c : String} {dg np : Tbl} (hm : getDegreeAndSize_dispatch m = .ok (dg, np)) (hcm : cacheOf m = .ok c)
    {d s : Nat} (hp : (d, s) ∈ dg) {v : List (List K) × List K}
    (hl : loadPrecomputedAngularGridFull npLoad (.int d) (.int s) m = .ok v)
    (hin : (caches.any fun e => e.1 == (c, (d : Int))) = true) :
    cacheGet caches c (.int d) = .ok v := by
  unfold cacheGet
  simp only
  cases hf : caches.find? (fun e => e.1 == (c, (d : Int))) with
  | none =>
    rw [List.find?_eq_none] at hf
    obtain ⟨e, he, hee⟩ := List.any_eq_true.mp hin
    exact absurd hee (hf e he)
  | some e =>
    have hmem := List.mem_of_find?_eq_some hf
    have hkey := List.find?_some hf
    obtain ⟨m', dg', np', d', s', hm', hc', hd', hp', hl'⟩ := hc e hmem
    have hk : e.1 = (c, (d : Int)) := by simpa using hkey
    rw [hk] at hc' hd'
    simp only at hc' hd'
    have hmm : m' = m := cacheOf_inj hm' hm hc' hcm
    subst hmm
    rw [hm] at hm'
    simp only [Except.ok.injEq, Prod.mk.injEq] at hm'
    obtain ⟨rfl, rfl⟩ := hm'
    have hdd : d' = d := by omega
    subst hdd
    obtain ⟨_, _, _, hok⟩ := gen_dispatch_ok hm
    have hs : s' = s := by
      have a := lookup_of_mem hok.1 hp
      have b := lookup_of_mem hok.1 hp'
      rw [a] at b; exact (Option.some.inj b).symm
    subst hs
    rw [hl] at hl'
    simp only [pure_eq_ok]
    exact congrArg Except.ok (Except.ok.inj hl').symm

/-- The cache block of `__init__`: a hit returns the stored arrays, a miss loads them and files
them when `cache` is true. -/
def fetch (npLoad : String → String → Py (Npz K)) (caches : Caches K) (c : String) (d s : Val) (cache : Bool)
    (m : String) : Py (List (List K) × List K × Caches K) :=
  pyNot (cacheIn caches c d) >>= fun miss => if miss then
    loadPrecomputedAngularGridFull npLoad d s m >>= fun (points, weights) =>
    if cache then
      cacheSet caches c d ((points, weights)) >>= fun caches =>
      pure (points, weights, caches)
    else
      pure (points, weights, caches)
  else
    cacheGet caches c d >>= fun (points, weights) =>
    pure (points, weights, caches)

/-- after the method is known: step through the binds of both sides -/
local macro "init_tail" : tactic => `(tactic| (
  simp only [String.reduceBEq, Bool.false_eq_true, ↓reduceIte, pure_eq_ok, ok_bind, Bool.not_true, Bool.not_false,
    List.nil_append, fetch, finalWeights, List.contains_cons, List.contains_nil, Bool.or_false, Bool.or_true,
    Bool.true_and, Bool.false_and, List.append_nil, pyAnd, sizeWarning, negWarning]
  refine bind_congr fun l_ => ?_
  refine bind_congr fun r => ?_
  obtain ⟨d, s⟩ := r
  refine bind_congr fun t => ?_
  obtain ⟨p, w, c⟩ := t
  cases gridInit (npCopy p) _ <;> (try rfl)
  all_goals (simp only [ok_bind]; split <;> simp [ok_bind])))

/-- `__init__` (generated, every statement) in closed form. -/
theorem gen_initFull_unfold (npLoad : String → String → Py (Npz K)) (caches : Caches K) (x y : Val) (cache : Bool)
    (m : String) :
    initFull npLoad caches x y cache m =
      (cacheOf (pyLower m) >>= fun c =>
        getDegreeAndSize_warnings (if pyIsNone y then x else .none) y (pyLower m) >>= fun l_ =>
        AngularLogic.getDegreeAndSize (if pyIsNone y then x else .none) y (pyLower m) >>= fun r =>
        fetch npLoad caches c r.1 r.2 cache (pyLower m) >>= fun t =>
        gridInit (npCopy t.1) (finalWeights (pyLower m) t.2.1) >>= fun g =>
        pure (r.1, pyLower m, g.1, g.2, t.2.2,
          ((if pyIsNone y then [] else [sizeWarning]) ++ warnInner l_) ++
            (if pyLower m == "lebedev" && npAny (npLtS t.2.1 ((0 : Nat) : K)) then [negWarning] else []))) := by
  unfold initFull cacheOf
  cases y <;>
  · simp only [pyIsNone]
    by_cases h1 : pyLower m = "lebedev"
    · simp only [h1]
      init_tail
    by_cases h2 : pyLower m = "spherical"
    · simp only [h2]
      init_tail
    by_cases h3 : pyLower m = "maxdet"
    · simp only [h3]
      init_tail
    by_cases h4 : pyLower m = "ahrens_beylkin"
    · simp only [h4]
      init_tail
    simp [h1, h2, h3, h4, bind, Except.bind, throw, throwThe, MonadExceptOf.throw]

theorem length_finalWeights (m : String) (w : List K) : (finalWeights m w).length = w.length := by
  unfold finalWeights npCopy npMulS
  split <;> simp

theorem cacheOk_set {npLoad : String → String → Py (Npz K)} {caches : Caches K} (hc : CacheOk npLoad caches)
    {m c : String} {dg np : Tbl} (hm : getDegreeAndSize_dispatch m = .ok (dg, np)) (hcm : cacheOf m = .ok c)
    {d s : Nat} (hp : (d, s) ∈ dg) {v : List (List K) × List K}
    (hl : loadPrecomputedAngularGridFull npLoad (.int d) (.int s) m = .ok v) :
    CacheOk npLoad (((c, (d : Int)), v) :: caches.filter fun e => !(e.1 == (c, (d : Int)))) := by
  intro e he
  rcases List.mem_cons.mp he with rfl | he
  · exact ⟨m, dg, np, d, s, hm, hcm, rfl, hp, hl⟩
  · exact hc e (List.mem_filter.mp he).1

/-- **`AngularGrid.__init__`, every statement (generated text): the grid that is built does not
depend on the `cache=` option nor on what earlier constructions left in the cache dictionaries.**
For a file system that behaves as the regenerated listing says and cache dictionaries whose entries
are loader results (in particular the empty dictionaries of a fresh interpreter), whenever the
request resolves to `(d, s)`: the constructor reports degree `d` and the lower-cased method, its
points are the `s` points of the existing file `method_d_s.npz`, its weights are that file's weights
(a single weight broadcast) — times `4π` except for `maxdet` / `ahrens_beylkin` —, one per point;
the cache dictionaries keep their invariant, are untouched when `cache=False`, and hold the loaded
arrays under `d` when `cache=True`; the warnings are exactly "size is used" (when a size was given)
and "negative weights" (Lebedev, some weight below zero), both with `stacklevel=2`. -/
theorem gen_init_full {npLoad : String → String → Py (Npz K)} (hfs : FsOk npLoad)
    {caches : Caches K} (hc : CacheOk npLoad caches)
    {m : String} {dg np : Tbl} (hm : getDegreeAndSize_dispatch (pyLower m) = .ok (dg, np))
    (x y : Val) (cache : Bool) {r : Val × Val}
    (hr : AngularLogic.getDegreeAndSize (if pyIsNone y then x else .none) y (pyLower m) = .ok r) :
    ∃ (d s : Nat) (c pkg : String) (data : Npz K) (w : List K) (caches' : Caches K),
      r = (.int d, .int s) ∧ (d, s) ∈ dg ∧ cacheOf (pyLower m) = .ok c ∧
      (∃ e ∈ packageFiles, e.1 = pkg ∧ (fileName (pyLower m) d s, pyLower m, d, s) ∈ e.2) ∧
      npLoad pkg (fileName (pyLower m) d s) = .ok data ∧ data.points.length = s ∧
      loadPrecomputedAngularGrid_data data = .ok (data.points, w) ∧ w.length = s ∧
      loadPrecomputedAngularGridFull npLoad (.int d) (.int s) (pyLower m) = .ok (data.points, w) ∧
      initFull npLoad caches x y cache m =
        .ok (.int d, pyLower m, data.points, finalWeights (pyLower m) w, caches',
          (if pyIsNone y then [] else [sizeWarning]) ++
            (if pyLower m == "lebedev" && npAny (npLtS w ((0 : Nat) : K)) then [negWarning] else [])) ∧
      CacheOk npLoad caches' ∧ (cache = false → caches' = caches) ∧
      (cache = true → cacheGet caches' c (.int d) = .ok (data.points, w)) := by
  obtain ⟨d, s, rfl, h1, _⟩ := gen_ok_in_table hm hr
  obtain ⟨pkg, hl, e, he, hpkg, hf⟩ := gen_loader_resolved hm h1
  obtain ⟨data, hdata, hpl, hwl⟩ := hfs e he _ hf
  rw [hpkg] at hdata
  simp only at hdata hpl hwl
  obtain ⟨w, hw, hwlen⟩ := gen_loader_data_shape data s hpl hwl
  have hfull : loadPrecomputedAngularGridFull npLoad (.int d) (.int s) (pyLower m) = .ok (data.points, w) := by
    unfold loadPrecomputedAngularGridFull
    rw [hl]
    simp only [ok_bind, hdata, hw]
  have hcm := cacheOf_ok hm
  simp only [List.mem_cons, Prod.mk.injEq, List.not_mem_nil, or_false] at hcm
  have : ∃ c, cacheOf (pyLower m) = .ok c := by
    rcases hcm with ⟨_, h⟩ | ⟨_, h⟩ | ⟨_, h⟩ | ⟨_, h⟩ <;> exact ⟨_, h⟩
  obtain ⟨c, hc'⟩ := this
  -- no warning from inside `_get_degree_and_size`: one of its two arguments is `None`
  obtain ⟨d0, s0, hx0, hy0, hwarn⟩ := gen_warnings_of_ok hm hr
  have hnb : bothGiven d0 s0 = false := by
    cases y with
    | none =>
      cases s0 with
      | none => cases d0 <;> rfl
      | some b => cases hy0
    | int i =>
      cases d0 with
      | none => rfl
      | some a => simp only [pyIsNone, Bool.false_eq_true, ↓reduceIte, ofOpt] at hx0; cases hx0
    | other =>
      cases d0 with
      | none => rfl
      | some a => simp only [pyIsNone, Bool.false_eq_true, ↓reduceIte, ofOpt] at hx0; cases hx0
  rw [hnb] at hwarn
  have hgi : gridInit (npCopy data.points) (finalWeights (pyLower m) w)
      = .ok (data.points, finalWeights (pyLower m) w) := by
    unfold gridInit npCopy
    simp [length_finalWeights, hpl, hwlen, pure_eq_ok]
  -- the cache block
  have hfetch : ∃ caches', fetch npLoad caches c (.int d) (.int s) cache (pyLower m) = .ok (data.points, w, caches') ∧
      CacheOk npLoad caches' ∧ (cache = false → caches' = caches) ∧
      (cache = true → cacheGet caches' c (.int d) = .ok (data.points, w)) := by
    unfold fetch
    cases hin : (caches.any fun e => e.1 == (c, (d : Int))) with
    | true =>
      have hget := cache_hit hc hm hc' h1 hfull hin
      refine ⟨caches, ?_, hc, fun _ => rfl, fun _ => hget⟩
      simp [cacheIn, hin, pyNot, pure_eq_ok, ok_bind, hget]
    | false =>
      cases cache with
      | false =>
        refine ⟨caches, ?_, hc, fun _ => rfl, fun h => Bool.noConfusion h⟩
        simp [cacheIn, hin, pyNot, pure_eq_ok, ok_bind, hfull]
      | true =>
        refine ⟨_, ?_, cacheOk_set hc hm hc' h1 hfull, fun h => Bool.noConfusion h, fun _ => ?_⟩
        · simp [cacheIn, hin, pyNot, pure_eq_ok, ok_bind, hfull, cacheSet]
        · simp [cacheGet, pure_eq_ok]
  obtain ⟨caches', hft, hok', hoff, hon⟩ := hfetch
  refine ⟨d, s, c, pkg, data, w, caches', rfl, h1, hc', ⟨e, he, hpkg, hf⟩, hdata, hpl, hw, hwlen, hfull, ?_, hok', hoff, hon⟩
  rw [gen_initFull_unfold, hc', hwarn, hr]
  simp only [ok_bind, hft, hgi, pure_eq_ok, warnInner, List.map_nil, List.append_nil, Bool.false_eq_true, ↓reduceIte]

/-- Two constructions of the same request — any two `cache=` values, any two states of the cache
dictionaries that satisfy the invariant (fresh, or left by any earlier constructions) — build the
same grid: same degree, method, points, weights and warnings. -/
theorem gen_init_independent_of_cache {npLoad : String → String → Py (Npz K)} (hfs : FsOk npLoad)
    {c1 c2 : Caches K} (h1 : CacheOk npLoad c1) (h2 : CacheOk npLoad c2) (b1 b2 : Bool)
    {m : String} {dg np : Tbl} (hm : getDegreeAndSize_dispatch (pyLower m) = .ok (dg, np))
    (x y : Val) {r : Val × Val}
    (hr : AngularLogic.getDegreeAndSize (if pyIsNone y then x else .none) y (pyLower m) = .ok r) :
    ∃ (d : Val) (mm : String) (p : List (List K)) (w : List K) (l : List Warning) (c1' c2' : Caches K),
      initFull npLoad c1 x y b1 m = .ok (d, mm, p, w, c1', l) ∧
      initFull npLoad c2 x y b2 m = .ok (d, mm, p, w, c2', l) ∧ CacheOk npLoad c1' ∧ CacheOk npLoad c2' := by
  obtain ⟨d, s, c, pkg, data, w, c1', hr1, _, _, _, _, _, _, _, hf1, hi1, hk1, _, _⟩ := gen_init_full hfs h1 hm x y b1 hr
  obtain ⟨d', s', c', pkg', data', w', c2', hr2, _, _, _, _, _, _, _, hf2, hi2, hk2, _, _⟩ := gen_init_full hfs h2 hm x y b2 hr
  rw [hr1] at hr2
  simp only [Prod.mk.injEq, Val.int.injEq, Int.natCast_inj] at hr2
  obtain ⟨rfl, rfl⟩ := hr2
  rw [hf1] at hf2
  simp only [Except.ok.injEq, Prod.mk.injEq] at hf2
  obtain ⟨hp, rfl⟩ := hf2
  rw [← hp] at hi2
  exact ⟨_, _, _, _, _, c1', c2', hi1, hi2, hk1, hk2⟩

/-- A request that `_get_degree_and_size` rejects is rejected by the constructor with the same
exception — before the cache dictionaries or the data directory are looked at, whatever `cache=`. -/
theorem gen_init_full_reject (npLoad : String → String → Py (Npz K)) (caches : Caches K) (cache : Bool)
    {m : String} {dg np : Tbl} (hm : getDegreeAndSize_dispatch (pyLower m) = .ok (dg, np))
    (x y : Val) {e : PyErr}
    (hr : AngularLogic.getDegreeAndSize (if pyIsNone y then x else .none) y (pyLower m) = .error e) :
    initFull npLoad caches x y cache m = .error e := by
  have hcm := cacheOf_ok hm
  simp only [List.mem_cons, Prod.mk.injEq, List.not_mem_nil, or_false] at hcm
  have : ∃ c, cacheOf (pyLower m) = .ok c := by
    rcases hcm with ⟨_, h⟩ | ⟨_, h⟩ | ⟨_, h⟩ | ⟨_, h⟩ <;> exact ⟨_, h⟩
  obtain ⟨c, hc'⟩ := this
  rw [gen_initFull_unfold, hc']
  simp only [ok_bind]
  -- the warnings variant raises what the function raises
  have hw : getDegreeAndSize_warnings (if pyIsNone y then x else .none) y (pyLower m) = .error e := by
    generalize (if pyIsNone y then x else Val.none) = x' at hr ⊢
    unfold AngularLogic.getDegreeAndSize at hr
    unfold getDegreeAndSize_warnings
    rw [hm] at hr ⊢
    simp only [ok_bind] at hr ⊢
    rcases wellformed_or_malformed x' with hx | ⟨o, rfl⟩
    · rw [gen_malformed_rejected dg np x' y _ (Or.inl hx)] at hr
      cases hr
      unfold getDegreeAndSize_warnings_body
      simp [guard_malformed hx, ok_bind, throw, throwThe, MonadExceptOf.throw]
    rcases wellformed_or_malformed y with hy | ⟨o', rfl⟩
    · rw [gen_malformed_rejected dg np _ y _ (Or.inr hy)] at hr
      cases hr
      unfold getDegreeAndSize_warnings_body
      simp [guard_ok, guard_malformed hy, ok_bind, throw, throwThe, MonadExceptOf.throw]
    rw [gen_warnings_body_eq, hr]
    rfl
  rw [hw]
  rfl

/-- An unknown method name is a `ValueError` of the constructor. -/
theorem gen_init_full_unknown_method (npLoad : String → String → Py (Npz K)) (caches : Caches K) (cache : Bool)
    (x y : Val) (m : String) (h : pyLower m ∉ ["lebedev", "spherical", "maxdet", "ahrens_beylkin"]) :
    initFull npLoad caches x y cache m = .error .valueError := by
  simp only [List.mem_cons, List.not_mem_nil, or_false, not_or] at h
  rw [gen_initFull_unfold]
  simp [cacheOf, h, throw, throwThe, MonadExceptOf.throw, bind, Except.bind]

end full

end GridVerif.C12

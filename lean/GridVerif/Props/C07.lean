/-
  C07 — a molecular grid is the weighted concatenation of its atomic grids.

  Model: `Model/MolGrid.lean` (hand-written, tied by correspondence, harness/props/c07.py); the generated constructor / accessors against it: `Props/C07/GenInit.lean` (moved there in round 6);
  selection logic and call sites of the convenience constructors, and (round 2) the constructor
  `__init__`, `get_atomic_grid`, `__getitem__` statement by statement: `Gen/MolGrid.lean`
  (regenerated from /repo on every run; `gen_*_eq_model` tie it to the hand model). Helper lemmas: `Lemmas/MolGrid.lean`.

  All theorems: any point type `P`, any number of atoms and any atomic grids (the components
  `AtomGrid`, `BeckeWeights` are given: C05, C06), callable or array aim weights, `store` on
  and off; value type `K` any commutative semiring where arithmetic is needed.

  The end-to-end "within one percent" clause is numerical and is *not* a theorem here
  (sampled by the oracle of harness/props/c07.py, labelled exploration).
-/
import GridVerif.Lemmas.MolGrid
import GridVerif.Gen.MolGrid
import Mathlib.Algebra.Ring.Rat
import Mathlib.Tactic.NormNum.Basic

namespace GridVerif.C07
open GridVerif.MolGrid List

variable {α P K R S Rot Sz Rad RS DS SS : Type}

/-! ### concatenation, index table -/

/-- Shape facts of a successful construction (no assumption on the atomic grids): the index
table has one entry more than there are atoms, starts at 0, is monotone, ends at the grid size;
`points`, `atweights` have the grid's size, `atcoords` one row per atom. -/
theorem molgrid_shape [Add K] [Mul K] [NatCast K] {atnums : List Nat}
    {atgrids : List (AtGrid P K)} {aim : AimArg P K} {store : Bool} {m : MolGrid P K}
    (h : MolGrid.init atnums atgrids aim store = .ok m) :
    m.indices.length = atgrids.length + 1 ∧ m.indices.Pairwise (· ≤ ·) ∧
    m.indices[0]? = some 0 ∧ m.indices.getLast? = some m.size ∧
    m.points.length = m.size ∧ m.atweights.length = m.size ∧ m.atcoords.length = atgrids.length := by
  have sp := init_spec h
  have hsize : m.size = (atgrids.map AtGrid.size).sum := by
    unfold MolGrid.size
    rw [mulBroadcast_length sp.weights, sp.atweights, flatten_weights_length]
  refine ⟨?_, ?_, ?_, ?_, ?_, ?_, ?_⟩
  · rw [sp.indices, indexTable_length, List.length_map]
  · rw [sp.indices]; exact prefixSums_pairwise 0 _
  · rw [sp.indices]; exact indexTable_head _
  · rw [sp.indices, indexTable_last, hsize]
  · rw [sp.points, flatten_points_length _ sp.fits, hsize]
  · rw [sp.atweights, flatten_weights_length, hsize]
  · rw [sp.atcoords, List.length_map]

/-- **Clause 1 (points in order, delimited by the index table).** After a successful
construction the index table has one entry more than there are atoms, starts at 0, is
monotone, ends at the grid size; and for every atom `k` the Python slices
`points[indices[k]:indices[k+1]]`, `atweights[indices[k]:indices[k+1]]` are exactly the atomic
grid's points and weights, `atcoords[k]` its centre. `hwf` — every atomic grid has as many points
as weights — is what `Grid.__init__` guarantees for every grid object (a duck-typed object with a
single point and several weights is *not* rejected by the constructor: NumPy broadcasts the point
over the segment, `AtGrid.segPoints`; see `gen_init_eq_model`). -/
theorem molgrid_slices [Add K] [Mul K] [NatCast K] {atnums : List Nat}
    {atgrids : List (AtGrid P K)} {aim : AimArg P K} {store : Bool} {m : MolGrid P K}
    (h : MolGrid.init atnums atgrids aim store = .ok m) (hwf : ∀ g ∈ atgrids, g.WF) :
    m.indices.length = atgrids.length + 1 ∧ m.indices.Pairwise (· ≤ ·) ∧
    m.indices[0]? = some 0 ∧ m.indices.getLast? = some m.size ∧
    m.points.length = m.size ∧ m.atweights.length = m.size ∧ m.atcoords.length = atgrids.length ∧
    ∀ k (hk : k < atgrids.length), ∃ a b,
      m.indices[k]? = some a ∧ m.indices[k + 1]? = some b ∧ a ≤ b ∧ b = a + atgrids[k].size ∧
      pySlice m.points a b = atgrids[k].points ∧
      pySlice m.atweights a b = atgrids[k].weights ∧
      m.atcoords[k]? = some atgrids[k].center := by
  have sp := init_spec h
  obtain ⟨s1, s2, s3, s4, s5, s6, s7⟩ := molgrid_shape h
  have hlw : (atgrids.map AtGrid.weights).map length = atgrids.map AtGrid.size := by
    rw [List.map_map]; rfl
  have hlp : (atgrids.map AtGrid.points).map length = atgrids.map AtGrid.size := by
    rw [List.map_map]
    apply List.map_congr_left
    intro g hg; exact hwf g hg
  refine ⟨s1, s2, s3, s4, s5, s6, s7, ?_⟩
  · intro k hk
    have hk1 : k < (atgrids.map AtGrid.size).length := by simpa using hk
    refine ⟨((atgrids.map AtGrid.size).take k).sum, ((atgrids.map AtGrid.size).take (k + 1)).sum,
      ?_, ?_, ?_, ?_, ?_, ?_, ?_⟩
    · rw [sp.indices]; exact indexTable_getElem? _ k (by omega)
    · rw [sp.indices]; exact indexTable_getElem? _ (k + 1) (by omega)
    · rw [List.sum_take_succ _ k hk1]; omega
    · rw [List.sum_take_succ _ k hk1, List.getElem_map]
    · rw [sp.points, map_segPoints_of_wf _ hwf, ← hlp]
      have := slice_flatten (atgrids.map AtGrid.points) k (by simpa using hk)
      rw [this, List.getElem_map]
    · rw [sp.atweights, ← hlw]
      have := slice_flatten (atgrids.map AtGrid.weights) k (by simpa using hk)
      rw [this, List.getElem_map]
    · rw [sp.atcoords, List.getElem?_map, List.getElem?_eq_getElem hk]; rfl

/-- Non-vacuity: two atoms with 2 and 1 points, array aim weights. -/
example : (MolGrid.init (P := Nat) (K := Nat) [1, 8]
    [⟨[10, 11], [1, 2], 0⟩, ⟨[20], [3], 5⟩] (.array [1, 0, 1]) false).toOption.map
      (fun m => (m.indices, m.points, m.weights)) =
    some ([0, 2, 3], [10, 11, 20], [1, 0, 3]) := by
  decide

/-! ### weights -/

/-- **Clause 2 (weights = atomic weights × atom-in-molecule weights)**, point by point.
`haim` — the aim weights have the grid's size — is what the constructor enforces for an array
(`aim_array_size`) and the contract of a callable (C06 for `BeckeWeights`). -/
theorem weights_spec [Add K] [Mul K] [NatCast K] {atnums : List Nat}
    {atgrids : List (AtGrid P K)} {aim : AimArg P K} {store : Bool} {m : MolGrid P K}
    (h : MolGrid.init atnums atgrids aim store = .ok m)
    (haim : m.aimWeights.length = m.size) :
    m.weights = zipWith (· * ·) m.atweights m.aimWeights ∧
    ∀ (j : Nat) (w : K), m.weights[j]? = some w ↔
      ∃ a b : K, m.atweights[j]? = some a ∧ m.aimWeights[j]? = some b ∧ w = a * b := by
  have sp := init_spec h
  have hl : m.aimWeights.length = m.atweights.length := by
    rw [haim]; unfold MolGrid.size; exact mulBroadcast_length sp.weights
  have hw := mulBroadcast_eq_len sp.weights hl
  refine ⟨hw, fun j w => ?_⟩
  rw [hw, List.getElem?_zipWith_eq_some]
  constructor
  · rintro ⟨a, b, ha, hb, hab⟩; exact ⟨a, b, ha, hb, hab.symm⟩
  · rintro ⟨a, b, ha, hb, hab⟩; exact ⟨a, b, ha, hb, hab.symm⟩

/-- Array aim weights always have the grid's size after a successful construction (any other
size is rejected with `ValueError`); a wrong type is rejected with `TypeError`. -/
theorem aim_array_size [Add K] [Mul K] [NatCast K] (atnums : List Nat)
    (atgrids : List (AtGrid P K)) (a : List K) (store : Bool) :
    (∀ m, MolGrid.init atnums atgrids (.array a) store = .ok m →
      m.aimWeights = a ∧ a.length = m.size) ∧
    (atgrids ≠ [] → (∀ g ∈ atgrids, g.Fits) → a.length ≠ (atgrids.map AtGrid.size).sum →
      MolGrid.init atnums atgrids (.array a) store = .error .valueError) ∧
    (atgrids ≠ [] → (∀ g ∈ atgrids, g.Fits) →
      MolGrid.init atnums atgrids (AimArg.other : AimArg P K) store = .error .typeError) := by
  refine ⟨fun m h => ?_, fun hne hw hl => ?_, fun hne hw => ?_⟩
  · have sp := init_spec h
    have := sp.aim
    simp only at this
    refine ⟨this.1, ?_⟩
    unfold MolGrid.size
    rw [mulBroadcast_length sp.weights, sp.atweights, flatten_weights_length, this.2]
  · unfold MolGrid.init
    have he : atgrids.isEmpty = false := by simpa using hne
    rw [he, if_neg (by simp), if_neg (not_not.mpr hw)]
    simp only [ne_eq, hl, not_false_eq_true, ↓reduceIte]
    rfl
  · unfold MolGrid.init
    have he : atgrids.isEmpty = false := by simpa using hne
    rw [he, if_neg (by simp), if_neg (not_not.mpr hw)]
    rfl

/-- A callable that returns a single value is broadcast by NumPy (as coded). -/
theorem weights_broadcast [Add K] [Mul K] [NatCast K] {atnums : List Nat}
    {atgrids : List (AtGrid P K)} {aim : AimArg P K} {store : Bool} {m : MolGrid P K}
    (h : MolGrid.init atnums atgrids aim store = .ok m) (c : K)
    (haim : m.aimWeights = [c]) (hsz : m.size ≠ 1) :
    m.weights = m.atweights.map (· * c) := by
  have sp := init_spec h
  have hl := mulBroadcast_length sp.weights
  have hw := sp.weights
  unfold mulBroadcast at hw
  rw [haim] at hw
  have : ¬ ([c].length = m.atweights.length) := by
    unfold MolGrid.size at hsz; simp only [List.length_cons, List.length_nil]; omega
  simp only [this, ↓reduceIte] at hw
  exact (Except.ok.inj hw).symm

/-! ### integrals -/

/-- The integral of the values `vals` on one atomic grid: `AtomGrid.integrate(vals)` =
`Σ weights·vals`. -/
def atomIntegral [CommSemiring K] (g : AtGrid P K) (vals : List K) : K :=
  (zipWith (· * ·) g.weights vals).sum

/-- **Clause 3 (the molecular integral of f is the sum over atoms of the atomic-grid integral
of w_A·f)**: `mg.integrate(f) = Σ_A atgrid_A.integrate((aim·f)[indices[A]:indices[A+1]])`.
`segs m.indices` are the consecutive pairs `(indices[A], indices[A+1])`
(`segs_getElem?_eq_some`), one per atom. -/
theorem integral_decomposes [CommSemiring K] {atnums : List Nat}
    {atgrids : List (AtGrid P K)} {aim : AimArg P K} {store : Bool} {m : MolGrid P K}
    (h : MolGrid.init atnums atgrids aim store = .ok m)
    (haim : m.aimWeights.length = m.size) (f : List K) (hf : f.length = m.size) :
    (segs m.indices).length = atgrids.length ∧
    m.integrate f = .ok ((zipWith (fun (g : AtGrid P K) (ab : Nat × Nat) =>
      atomIntegral g (zipWith (· * ·) (pySlice m.aimWeights ab.1 ab.2) (pySlice f ab.1 ab.2)))
      atgrids (segs m.indices)).sum) := by
  have sp := init_spec h
  have hw := (weights_spec h haim).1
  have hseg : (segs m.indices).length = atgrids.length := by
    rw [sp.indices]; unfold indexTable; rw [segs_prefixSums_length, List.length_map]
  refine ⟨hseg, ?_⟩
  unfold MolGrid.integrate
  simp only [hf, ne_eq, not_true_eq_false, ↓reduceIte]
  congr 1
  rw [sumK_eq, hw, zipWith_mul_assoc, sp.atweights]
  have := sum_zipWith_flatten (atgrids.map AtGrid.weights) (zipWith (· * ·) m.aimWeights f) 0
  rw [List.drop_zero] at this
  rw [this, List.zipWith_map_left, sp.indices]
  have hlw : (atgrids.map AtGrid.weights).map length = atgrids.map AtGrid.size := by
    rw [List.map_map]; rfl
  rw [hlw]
  unfold indexTable atomIntegral
  congr 2
  funext g ab
  simp only [pySlice_zipWith]

/-- Non-vacuity / sanity on numbers: atoms with 2 and 1 points. -/
example : (MolGrid.init (P := Nat) (K := Nat) [1, 8]
    [⟨[10, 11], [1, 2], 0⟩, ⟨[20], [3], 5⟩] (.array [1, 4, 1]) true).toOption.map
      (fun m => (m.integrate [5, 6, 7]).toOption) =
    some (some (1 * (1 * 5) + 2 * (4 * 6) + 3 * (1 * 7))) := by
  decide

/-! ### independence of `store` -/

/-- The constructor with `store=False` is the constructor with `store=True` followed by
forgetting the list of atomic grids — same success, same exception. -/
theorem init_store_false [Add K] [Mul K] [NatCast K] (atnums : List Nat)
    (atgrids : List (AtGrid P K)) (aim : AimArg P K) :
    MolGrid.init atnums atgrids aim false =
      (MolGrid.init atnums atgrids aim true).map fun m => { m with atgrids := none } := by
  unfold MolGrid.init
  by_cases he : atgrids.isEmpty = true
  · simp only [he, ↓reduceIte]; rfl
  · simp only [he, Bool.false_eq_true, ↓reduceIte]
    by_cases hw : ∀ g ∈ atgrids, g.Fits
    · rw [if_neg (not_not.mpr hw), if_neg (not_not.mpr hw)]
      cases aim with
      | callable f =>
        simp only
        cases mulBroadcast (atgrids.map AtGrid.weights).flatten
            (f (atgrids.map AtGrid.segPoints).flatten (atgrids.map AtGrid.center) atnums
              (indexTable (atgrids.map AtGrid.size))) <;> rfl
      | array a =>
        simp only
        by_cases hl : a.length = (atgrids.map AtGrid.size).sum
        · simp only [hl, ne_eq, not_true_eq_false, ↓reduceIte]
          cases mulBroadcast (atgrids.map AtGrid.weights).flatten a <;> rfl
        · simp only [ne_eq, hl, not_false_eq_true, ↓reduceIte]; rfl
      | other => rfl
    · rw [if_pos hw, if_pos hw]; rfl

/-- **Clause 4 (points, weights, integrals do not depend on `store`)**: for the same
arguments the two constructions succeed or fail together (with the same exception), and then
agree on `points`, `weights`, `atweights`, `aim_weights`, `atcoords`, `indices` and on
`integrate(f)` for every `f` (including its shape error). Only the attribute `atgrids`
differs. -/
theorem store_independent [Add K] [Mul K] [NatCast K] (atnums : List Nat)
    (atgrids : List (AtGrid P K)) (aim : AimArg P K) :
    match MolGrid.init atnums atgrids aim true, MolGrid.init atnums atgrids aim false with
    | .ok m1, .ok m2 =>
      m1.points = m2.points ∧ m1.weights = m2.weights ∧ m1.atweights = m2.atweights ∧
      m1.aimWeights = m2.aimWeights ∧ m1.atcoords = m2.atcoords ∧ m1.indices = m2.indices ∧
      (∀ f, m1.integrate f = m2.integrate f) ∧ m1.atgrids = some atgrids ∧ m2.atgrids = none
    | .error e1, .error e2 => e1 = e2
    | _, _ => False := by
  rw [init_store_false]
  cases h : MolGrid.init atnums atgrids aim true with
  | error e => simp [Except.map]
  | ok m =>
    have sp := init_spec h
    have hst : m.atgrids = some atgrids := by simpa using sp.stored
    simp only [Except.map, hst, and_self, true_and]
    exact ⟨fun f => rfl, trivial⟩

/-- `get_atomic_grid(k)`, both values of `store`: atom `k`'s points, its **raw atomic
weights** and its centre; an `AtomGrid` object iff stored. -/
theorem getAtomicGrid_spec [Add K] [Mul K] [NatCast K] {atnums : List Nat}
    {atgrids : List (AtGrid P K)} {aim : AimArg P K} {store : Bool} {m : MolGrid P K}
    (h : MolGrid.init atnums atgrids aim store = .ok m) (hwf : ∀ g ∈ atgrids, g.WF)
    (k : Nat) (hk : k < atgrids.length) :
    ∃ g, m.getAtomicGrid (k : Int) = .ok g ∧ g.points = atgrids[k].points ∧
      g.weights = atgrids[k].weights ∧ g.center = atgrids[k].center ∧ g.isAtom = store := by
  have sp := init_spec h
  obtain ⟨hlen, -, -, -, -, -, hcl, hsl⟩ := molgrid_slices h hwf
  obtain ⟨a, b, ha, hb, -, -, hp, hw, hc⟩ := hsl k hk
  unfold MolGrid.getAtomicGrid
  have hneg : ¬ ((k : Int) < 0) := by omega
  simp only [hneg, ↓reduceIte]
  cases store with
  | true =>
    have hst : m.atgrids = some atgrids := by simpa using sp.stored
    rw [hst]
    simp only [pyGet_nat_lt atgrids k hk]
    exact ⟨_, rfl, rfl, rfl, rfl, rfl⟩
  | false =>
    have hst : m.atgrids = none := by simpa using sp.stored
    rw [hst]
    have hlw : (pySlice m.points a b).length = (pySlice m.atweights a b).length := by
      rw [hp, hw]; exact hwf _ (List.getElem_mem _)
    simp only [pyGet_succ, pyGet_nat, ha, hb, hc, ok_bind, mkLocalGrid_ok _ hlw]
    exact ⟨_, rfl, hp, hw, rfl, rfl⟩

/-- `get_atomic_grid` rejects a negative index (`ValueError`) and an index beyond the last
atom (`IndexError`) — in both modes. -/
theorem getAtomicGrid_errors [Add K] [Mul K] [NatCast K] {atnums : List Nat}
    {atgrids : List (AtGrid P K)} {aim : AimArg P K} {store : Bool} {m : MolGrid P K}
    (h : MolGrid.init atnums atgrids aim store = .ok m) (index : Int) :
    (index < 0 → m.getAtomicGrid index = .error .valueError) ∧
    ((atgrids.length : Int) ≤ index → m.getAtomicGrid index = .error .indexError) := by
  have sp := init_spec h
  obtain ⟨hlen, -, -, -, -, -, hcl⟩ := molgrid_shape h
  refine ⟨fun hn => ?_, fun hge => ?_⟩
  · unfold MolGrid.getAtomicGrid; simp only [hn, ↓reduceIte]; rfl
  · obtain ⟨k, rfl⟩ := Int.eq_ofNat_of_zero_le (by omega : 0 ≤ index)
    have hk : atgrids.length ≤ k := by omega
    unfold MolGrid.getAtomicGrid
    have hneg : ¬ ((k : Int) < 0) := by omega
    simp only [hneg, ↓reduceIte]
    cases store with
    | true =>
      have hst : m.atgrids = some atgrids := by simpa using sp.stored
      rw [hst]
      simp only [pyGet_nat_ge atgrids k hk]
      rfl
    | false =>
      have hst : m.atgrids = none := by simpa using sp.stored
      rw [hst]
      by_cases hk2 : k = atgrids.length
      · have h1 : pyGet m.indices (k : Int) = .ok (m.indices[k]'(by omega)) :=
          pyGet_nat_lt _ _ (by omega)
        have h2 : pyGet m.indices ((k : Int) + 1) = .error .indexError := by
          rw [pyGet_succ]; exact pyGet_nat_ge _ _ (by omega)
        simp only [h1, h2]; rfl
      · have h1 : pyGet m.indices (k : Int) = .error .indexError :=
          pyGet_nat_ge _ _ (by omega)
        simp only [h1]; rfl

/-- **Clause 4, per-atom grids (`get_atomic_grid`)**: for every integer index the grids
handed back with and without `store` have the same points, weights and centre, or both calls
raise the same exception. (The *type* differs by design: `AtomGrid` vs `LocalGrid`.) -/
theorem getAtomicGrid_store_independent [Add K] [Mul K] [NatCast K] {atnums : List Nat}
    {atgrids : List (AtGrid P K)} {aim : AimArg P K} {m1 m2 : MolGrid P K}
    (h1 : MolGrid.init atnums atgrids aim true = .ok m1)
    (h2 : MolGrid.init atnums atgrids aim false = .ok m2) (hwf : ∀ g ∈ atgrids, g.WF)
    (index : Int) :
    match m1.getAtomicGrid index, m2.getAtomicGrid index with
    | .ok g1, .ok g2 => g1.points = g2.points ∧ g1.weights = g2.weights ∧
        g1.center = g2.center ∧ g1.isAtom = true ∧ g2.isAtom = false
    | .error e1, .error e2 => e1 = e2
    | _, _ => False := by
  by_cases hn : index < 0
  · rw [(getAtomicGrid_errors h1 index).1 hn, (getAtomicGrid_errors h2 index).1 hn]
  · by_cases hge : (atgrids.length : Int) ≤ index
    · rw [(getAtomicGrid_errors h1 index).2 hge, (getAtomicGrid_errors h2 index).2 hge]
    · obtain ⟨k, rfl⟩ := Int.eq_ofNat_of_zero_le (by omega : 0 ≤ index)
      have hk : k < atgrids.length := by omega
      obtain ⟨g1, e1, p1, w1, c1, t1⟩ := getAtomicGrid_spec h1 hwf k hk
      obtain ⟨g2, e2, p2, w2, c2, t2⟩ := getAtomicGrid_spec h2 hwf k hk
      rw [e1, e2]
      exact ⟨by rw [p1, p2], by rw [w1, w2], by rw [c1, c2], t1, t2⟩

/-! ### `__getitem__` -/

/-- `mg[k]` for an atom index `0 ≤ k < natoms`, as coded: atom `k`'s points and centre in both
modes; the weights are the **raw atomic weights** when the grids are stored and the
**aim-weighted** molecular weights `atweights·aim` of that segment when they are not. -/
theorem getItem_spec [Add K] [Mul K] [NatCast K] {atnums : List Nat}
    {atgrids : List (AtGrid P K)} {aim : AimArg P K} {store : Bool} {m : MolGrid P K}
    (h : MolGrid.init atnums atgrids aim store = .ok m) (hwf : ∀ g ∈ atgrids, g.WF)
    (haim : m.aimWeights.length = m.size) (k : Nat) (hk : k < atgrids.length) :
    ∃ g a b, m.getItem (k : Int) = .ok g ∧ m.indices[k]? = some a ∧ m.indices[k + 1]? = some b ∧
      g.points = atgrids[k].points ∧ g.center = atgrids[k].center ∧ g.isAtom = store ∧
      g.weights = if store then atgrids[k].weights
        else zipWith (· * ·) atgrids[k].weights (pySlice m.aimWeights a b) := by
  have sp := init_spec h
  obtain ⟨hlen, -, -, -, hpl, -, hcl, hsl⟩ := molgrid_slices h hwf
  obtain ⟨a, b, ha, hb, -, -, hp, hw, hc⟩ := hsl k hk
  unfold MolGrid.getItem
  cases store with
  | true =>
    have hst : m.atgrids = some atgrids := by simpa using sp.stored
    rw [hst]
    simp only [pyGet_nat_lt atgrids k hk]
    exact ⟨_, a, b, rfl, ha, hb, rfl, rfl, rfl, rfl⟩
  | false =>
    have hst : m.atgrids = none := by simpa using sp.stored
    rw [hst]
    have hlw : (pySlice m.points a b).length = (pySlice m.weights a b).length := by
      rw [pySlice_length, pySlice_length, hpl]; rfl
    simp only [pyGet_succ, pyGet_nat, ha, hb, hc, ok_bind, mkLocalGrid_ok _ hlw]
    refine ⟨_, a, b, rfl, rfl, rfl, hp, rfl, rfl, ?_⟩
    simp only [SubGrid.weights, Bool.false_eq_true, ↓reduceIte]
    rw [(weights_spec h haim).1, pySlice_zipWith, hw]

/-- What of `mg[k]` does **not** depend on `store` (atom indices `0 ≤ k < natoms`): the points
and the centre. -/
theorem getItem_store_independent_partial [Add K] [Mul K] [NatCast K] {atnums : List Nat}
    {atgrids : List (AtGrid P K)} {aim : AimArg P K} {m1 m2 : MolGrid P K}
    (h1 : MolGrid.init atnums atgrids aim true = .ok m1)
    (h2 : MolGrid.init atnums atgrids aim false = .ok m2) (hwf : ∀ g ∈ atgrids, g.WF)
    (haim : m1.aimWeights.length = m1.size) (k : Nat) (hk : k < atgrids.length) :
    ∃ g1 g2, m1.getItem (k : Int) = .ok g1 ∧ m2.getItem (k : Int) = .ok g2 ∧
      g1.points = g2.points ∧ g1.center = g2.center := by
  have hs := store_independent atnums atgrids aim
  rw [h1, h2] at hs
  have haim2 : m2.aimWeights.length = m2.size := by
    unfold MolGrid.size at *; rw [← hs.2.2.2.1, ← hs.2.1]; exact haim
  obtain ⟨g1, _, _, e1, _, _, p1, c1, _, _⟩ := getItem_spec h1 hwf haim k hk
  obtain ⟨g2, _, _, e2, _, _, p2, c2, _, _⟩ := getItem_spec h2 hwf haim2 k hk
  exact ⟨g1, g2, e1, e2, by rw [p1, p2], by rw [c1, c2]⟩

/-- Non-vacuity of `h`, `haim`, `hk` (used by `integral_decomposes`, `getItem_spec`, …): the
witness molecule below, callable aim weights. -/
example : (MolGrid.init (P := Nat) (K := Nat) [1, 1] [⟨[7], [1], 0⟩, ⟨[7, 8], [1, 3], 1⟩]
    (.callable fun p _ _ _ => p.map fun _ => 2) true).toOption.map
      (fun m => (decide (m.aimWeights.length = m.size), m.weights,
        (m.getItem 1).toOption.map SubGrid.weights, (m.getAtomicGrid 1).toOption.map SubGrid.weights)) =
    some (true, [2, 2, 6], some [1, 3], some [1, 3]) := by
  decide

/-- The reading of "the per-atom grids handed back do not depend on whether atomic grids are
stored" for `__getitem__`, at full strength (values `ℚ`, points in `ℚ³`): same points, same
centre **and same weights**. The code as it is violates it: `getItem_store_independent_fails_at`. -/
def getItem_store_independent_full : Prop :=
  ∀ (atnums : List Nat) (atgrids : List (AtGrid (ℚ × ℚ × ℚ) ℚ)) (aim : AimArg (ℚ × ℚ × ℚ) ℚ)
    (m1 m2 : MolGrid (ℚ × ℚ × ℚ) ℚ), (∀ g ∈ atgrids, g.WF) →
    MolGrid.init atnums atgrids aim true = .ok m1 →
    MolGrid.init atnums atgrids aim false = .ok m2 →
    ∀ (k : Nat), k < atgrids.length → ∀ g1 g2, m1.getItem (k : Int) = .ok g1 →
      m2.getItem (k : Int) = .ok g2 →
      g1.points = g2.points ∧ g1.center = g2.center ∧ g1.weights = g2.weights

/-- The witness molecule: H₂ on the z axis at ∓1, each atomic grid consisting of the single
point at the bond midpoint with atomic weight 1; atom-in-molecule weights ½, ½ (what every
symmetric partition gives there). -/
def witnessGrids : List (AtGrid (ℚ × ℚ × ℚ) ℚ) :=
  [⟨[(0, 0, 0)], [1], (0, 0, -1)⟩, ⟨[(0, 0, 0)], [1], (0, 0, 1)⟩]

/-- **`__getitem__` hands back different weights depending on `store`** (code as it is):
on the witness `mg[0].weights` is `[1]` with `store=True` and `[1/2]` with `store=False`. -/
theorem getItem_store_independent_fails_at : ¬ getItem_store_independent_full := by
  intro hfull
  have h1 : MolGrid.init [1, 1] witnessGrids (.array [1 / 2, 1 / 2]) true =
      .ok ⟨[(0, 0, 0), (0, 0, 0)], [1 / 2, 1 / 2], [1, 1], [1 / 2, 1 / 2],
        [(0, 0, -1), (0, 0, 1)], [0, 1, 2], some witnessGrids⟩ := by
    decide +kernel
  have h2 : MolGrid.init [1, 1] witnessGrids (.array [1 / 2, 1 / 2]) false =
      .ok ⟨[(0, 0, 0), (0, 0, 0)], [1 / 2, 1 / 2], [1, 1], [1 / 2, 1 / 2],
        [(0, 0, -1), (0, 0, 1)], [0, 1, 2], none⟩ := by
    decide +kernel
  have := hfull _ _ _ _ _ (by decide) h1 h2 0 (by decide) (.atom ⟨[(0, 0, 0)], [1], (0, 0, -1)⟩)
    (.localGrid [(0, 0, 0)] [1 / 2] (0, 0, -1)) (by decide +kernel) (by decide +kernel)
  have hw := this.2.2
  simp only [SubGrid.weights] at hw
  revert hw
  decide +kernel

/-- **Negative indices** (`__getitem__` has no sign check, `get_atomic_grid` has): with stored
grids `mg[-1]` is the last atom's grid; without, `_indices[-1] : _indices[0]` is the empty
slice — an empty `LocalGrid` at the last atom's centre. On the witness: 1 point vs 0 points. -/
theorem getItem_negative_index_fails_at :
    ∃ (m1 m2 : MolGrid (ℚ × ℚ × ℚ) ℚ) (g1 g2 : SubGrid (ℚ × ℚ × ℚ) ℚ),
      MolGrid.init [1, 1] witnessGrids (.array [1 / 2, 1 / 2]) true = .ok m1 ∧
      MolGrid.init [1, 1] witnessGrids (.array [1 / 2, 1 / 2]) false = .ok m2 ∧
      m1.getItem (-1) = .ok g1 ∧ m2.getItem (-1) = .ok g2 ∧
      g1.points = [(0, 0, 0)] ∧ g2.points = [] ∧ g1.center = g2.center := by
  refine ⟨⟨[(0, 0, 0), (0, 0, 0)], [1 / 2, 1 / 2], [1, 1], [1 / 2, 1 / 2],
        [(0, 0, -1), (0, 0, 1)], [0, 1, 2], some witnessGrids⟩,
      ⟨[(0, 0, 0), (0, 0, 0)], [1 / 2, 1 / 2], [1, 1], [1 / 2, 1 / 2],
        [(0, 0, -1), (0, 0, 1)], [0, 1, 2], none⟩,
      .atom ⟨[(0, 0, 0)], [1], (0, 0, 1)⟩, .localGrid [] [] (0, 0, 1), ?_, ?_, ?_, ?_, rfl, rfl, rfl⟩
  all_goals decide +kernel

/-- `save` needs the stored grids: `TypeError` without them (not covered by the sentence about
points / weights / integrals / per-atom grids; recorded because `save` is part of the class). -/
theorem save_needs_store [Add K] [Mul K] [NatCast K] {atnums : List Nat}
    {atgrids : List (AtGrid P K)} {aim : AimArg P K} {store : Bool} {m : MolGrid P K}
    (h : MolGrid.init atnums atgrids aim store = .ok m) :
    (store = false → m.saveKeys = .error .typeError) ∧
    (store = true → ∃ ks, m.saveKeys = .ok ks ∧ ks.length = 6 + 7 * atgrids.length) := by
  have sp := init_spec h
  refine ⟨fun hs => ?_, fun hs => ?_⟩
  · subst hs
    have hst : m.atgrids = none := by simpa using sp.stored
    unfold MolGrid.saveKeys; rw [hst]; rfl
  · subst hs
    have hst : m.atgrids = some atgrids := by simpa using sp.stored
    unfold MolGrid.saveKeys; rw [hst]
    refine ⟨_, rfl, ?_⟩
    simp only [List.length_append, List.length_cons, List.length_nil, List.length_flatMap,
      List.length_map, List.map_const', List.length_range, List.sum_replicate_nat]
    omega

/-! ### fan-out of the convenience constructors -/

/-- **Clause 5 (fan-out)**: atom `i` receives exactly the single value, the `i`-th list entry,
the `atnums[i]`-keyed dict entry, or the default for `atnums[i]`; a short list is an
`IndexError`, a missing key a `KeyError`, any other argument type a `TypeError`. -/
theorem fanout_spec (dflt : Option (Nat → Py α)) (atnums : List Nat) (i : Nat)
    (hi : i < atnums.length) :
    (∀ x, pick (.obj x) dflt atnums i = .ok x) ∧
    (∀ l : List α, pick (.list l) dflt atnums i =
      match l[i]? with | some x => .ok x | none => .error .indexError) ∧
    (∀ d : Nat → Option α, pick (.dict d) dflt atnums i =
      match d atnums[i] with | some x => .ok x | none => .error .keyError) ∧
    (∀ f, dflt = some f → pick .none dflt atnums i = f atnums[i]) ∧
    (dflt = none → pick (.none : PyArg α) dflt atnums i = .error .typeError) ∧
    pick (.other : PyArg α) dflt atnums i = .error .typeError := by
  refine ⟨fun x => rfl, fun l => ?_, fun d => ?_, fun f hf => ?_, fun hf => ?_, rfl⟩
  · rw [show pick (.list l) dflt atnums i = pyGet l i from rfl, pyGet_nat]
    cases l[i]? <;> rfl
  · show (pyGet atnums i >>= fun z => pyLookup d z) = _
    rw [pyGet_nat_lt atnums i hi]
    show pyLookup d atnums[i] = _
    unfold pyLookup
    cases d atnums[i] <;> rfl
  · subst hf; simp only [pick, pyGet_nat_lt atnums i hi]; rfl
  · subst hf; rfl

example : pick (.dict fun z => if z = 8 then some "fine" else none) none [1, 8, 1] 1 = .ok "fine" ∧
    pick (.list ["a", "b", "c"]) none [1, 8, 1] 2 = .ok "c" ∧
    pick (.dict fun z => if z = 8 then some "fine" else none) none [1, 8, 1] 0 = .error .keyError := by
  decide

/-- **The regenerated selection code is the hand model**: the `isinstance` chains of
`from_preset` (`rad`, `gd_type`), `from_pruned` (`rad`) and the `None` test of `from_size`
(`rad_grid`), as translated from the current source, select exactly as `pick` / `sizeRad` do. -/
theorem gen_selection_eq_model (dflt : Nat → Py α) (arg : PyArg α) (atnums : List Nat)
    (i : Nat) (hi : i < atnums.length) (atnum : Nat) :
    Gen.MolGrid.fromPreset_rad dflt arg atnums i = pick arg (some dflt) atnums i ∧
    Gen.MolGrid.fromPreset_gd_type dflt arg atnums i = pick arg none atnums i ∧
    Gen.MolGrid.fromPruned_rad dflt arg atnums i = pick arg (some dflt) atnums i ∧
    Gen.MolGrid.fromSize_rad_grid dflt arg atnum = sizeRad arg dflt atnum := by
  have hz := pyGet_nat_lt atnums i hi
  refine ⟨?_, ?_, ?_, ?_⟩
  · cases arg <;> simp [Gen.MolGrid.fromPreset_rad, pick, hz]
  · cases arg <;> simp [Gen.MolGrid.fromPreset_gd_type, pick, hz]
  · cases arg <;> simp [Gen.MolGrid.fromPruned_rad, pick, hz]
  · cases arg <;> simp [Gen.MolGrid.fromSize_rad_grid, sizeRad]

/-- **The call sites the hand model was written against** (text of the current source, carried
by the translator): loop headers, the arguments of the per-atom `AtomGrid` constructions, the
final `cls(atnums, <list>, aim_weights, store=store)`, and the statements before the loops
(length checks, `aim_weights is None` default, the `d_sectors / s_sectors / radius`
normalisation of `from_pruned`). -/
theorem call_sites_pinned :
    Gen.MolGrid.fromPreset_loop = ["i", "range(total_atm)"] ∧
    Gen.MolGrid.fromPreset_call =
      [("func", "AtomGrid.from_preset"), ("atnum", "atnums[i]"), ("preset", "gd_type"),
       ("rgrid", "rad"), ("center", "atcoords[i]"), ("rotate", "rotate")] ∧
    Gen.MolGrid.fromPreset_prelude =
      ["if atcoords.ndim != 2: raise ValueError",
       "if len(atnums) != atcoords.shape[0]: raise ValueError",
       "if aim_weights is None: aim_weights = BeckeWeights(order=3)",
       "total_atm = len(atnums)", "atomic_grids = []"] ∧
    Gen.MolGrid.fromSize_loop = ["(atnum, atcoord)", "zip(atnums, atcoords)"] ∧
    Gen.MolGrid.fromSize_call =
      [("func", "AtomGrid"), ("0", "rad_grid"), ("degrees", "None"), ("sizes", "[size]"),
       ("center", "atcoord"), ("rotate", "rotate")] ∧
    Gen.MolGrid.fromSize_prelude =
      ["if aim_weights is None: aim_weights = BeckeWeights(order=3)", "atgrids = []"] ∧
    Gen.MolGrid.fromPruned_loop = ["(i, atnum)", "enumerate(atnums)"] ∧
    Gen.MolGrid.fromPruned_call =
      [("func", "AtomGrid.from_pruned"), ("0", "rad"), ("1", "radius_atom[i]"),
       ("r_sectors", "r_sectors[i]"), ("d_sectors", "d_sectors[i]"),
       ("s_sectors", "s_sectors[i]"), ("center", "atcoords[i]"), ("rotate", "rotate")] ∧
    Gen.MolGrid.fromPruned_prelude =
      ["if atcoords.ndim != 2: raise ValueError",
       "if atnums.size != atcoords.shape[0]: raise ValueError",
       "if aim_weights is None: aim_weights = BeckeWeights(order=3)",
       "at_grids = []", "natoms = len(atcoords)",
       "if isinstance(d_sectors, (int, np.integer)): d_sectors = [d_sectors] * natoms",
       "if s_sectors is not None: d_sectors = [None] * natoms else: s_sectors = [None] * natoms",
       "if len(d_sectors) != len(r_sectors): raise ValueError",
       "if len(s_sectors) != len(r_sectors): raise ValueError",
       "radius_atom = [radius] * natoms if isinstance(radius, (float, np.float64)) else radius"] ∧
    Gen.MolGrid.fromPreset_return = Gen.MolGrid.fromSize_return ∧
    Gen.MolGrid.fromPruned_return = Gen.MolGrid.fromSize_return ∧
    Gen.MolGrid.fromSize_return =
      [("func", "cls"), ("0", "atnums"), ("1", "<per-atom list>"), ("2", "aim_weights"),
       ("store", "store")] :=
  ⟨rfl, rfl, rfl, rfl, rfl, rfl, rfl, rfl, rfl, rfl, rfl, rfl⟩

theorem forall₂_range_of_index {β : Type} (n : Nat) (gs : List β) (Rel : Nat → β → Prop)
    (hn : gs.length = n) (hgs : ∀ i (hi : i < n), Rel i (gs[i]'(by omega))) :
    List.Forall₂ Rel (List.range n) gs := by
  rw [List.forall₂_iff_get]
  refine ⟨by simp [hn], fun i h1 h2 => ?_⟩
  simp only [List.get_eq_getElem, List.getElem_range]
  exact hgs i (by simpa using h1)

/-- **Clause 5, `from_preset` = the hand-built grid**: if `gs` are the atomic grids built by
hand, atom by atom, with `AtomGrid.from_preset(atnum=atnums[i], preset=<picked>, rgrid=<picked>,
center=atcoords[i], rotate)`, then `MolGrid.from_preset(…)` — with the selection code
regenerated from the source — is `MolGrid(atnums, gs, aim_weights or BeckeWeights(order=3),
store)`, exception for exception. -/
theorem fromPreset_eq_hand_built [Add K] [Mul K] [NatCast K] (dflt : Nat → Py R)
    (mkAt : Nat → S → R → P → Rot → Py (AtGrid P K)) (becke3 : AimArg P K)
    (atnums : List Nat) (atcoords : List P) (preset : PyArg S) (rgrid : PyArg R)
    (aim : Option (AimArg P K)) (rotate : Rot) (store : Bool)
    (hlen : atnums.length = atcoords.length) (gs : List (AtGrid P K))
    (hn : gs.length = atnums.length)
    (hgs : ∀ i (hi : i < atnums.length), ∃ rad gd,
      pick rgrid (some dflt) atnums i = .ok rad ∧ pick preset none atnums i = .ok gd ∧
      mkAt atnums[i] gd rad (atcoords[i]'(by omega)) rotate = .ok (gs[i]'(by omega))) :
    fromPresetWith (Gen.MolGrid.fromPreset_rad dflt)
      (Gen.MolGrid.fromPreset_gd_type fun _ => .error .typeError) mkAt
      becke3 atnums atcoords preset rgrid aim rotate store =
    MolGrid.init atnums gs (aimOrDefault aim becke3) store ∧
    fromPreset dflt mkAt becke3 atnums atcoords preset rgrid aim rotate store =
    MolGrid.init atnums gs (aimOrDefault aim becke3) store := by
  have key : ∀ (selR : PyArg R → List Nat → Nat → Py R) (selP : PyArg S → List Nat → Nat → Py S),
      (∀ i, i < atnums.length → selR rgrid atnums i = pick rgrid (some dflt) atnums i) →
      (∀ i, i < atnums.length → selP preset atnums i = pick preset none atnums i) →
      fromPresetWith selR selP mkAt becke3 atnums atcoords preset rgrid aim rotate store =
        MolGrid.init atnums gs (aimOrDefault aim becke3) store := by
    intro selR selP hR hP
    unfold fromPresetWith
    simp only [hlen, ne_eq, not_true_eq_false, ↓reduceIte]
    have : presetGrids selR selP mkAt atnums atcoords preset rgrid rotate = .ok gs := by
      unfold presetGrids
      rw [allOk_eq_ok_iff]
      apply forall₂_range_of_index _ _ _ hn
      intro i hi
      obtain ⟨rad, gd, h1, h2, h3⟩ := hgs i hi
      simp only [hR i hi, hP i hi, h1, h2, pyGet_nat_lt atnums i hi,
        pyGet_nat_lt atcoords i (by omega)]
      exact h3
    rw [this]; rfl
  refine ⟨key _ _ (fun i hi => (gen_selection_eq_model dflt rgrid atnums i hi 0).1)
    (fun i hi => (gen_selection_eq_model (fun _ => .error .typeError) preset atnums i hi 0).2.1), ?_⟩
  exact key _ _ (fun _ _ => rfl) (fun _ _ => rfl)

/-- Non-vacuity: two atoms, preset by dict (keyed by atomic number), radial grids by list; the
"atomic grid" records what it was built from. -/
example :
    let mkAt : Nat → String → Nat → Nat → Unit → Py (AtGrid Nat Nat) :=
      fun z gd rad c _ => .ok ⟨[z, gd.length, rad, c], [1, 1, 1, 1], c⟩
    let aim : AimArg Nat Nat := .array [1, 1, 1, 1, 1, 1, 1, 1]
    fromPreset (fun _ => .error .valueError) mkAt aim [1, 8] [100, 200]
      (.dict fun z => if z = 8 then some "fine" else if z = 1 then some "coarse" else none)
      (.list [41, 42]) none () false =
    MolGrid.init [1, 8] [⟨[1, 6, 41, 100], [1, 1, 1, 1], 100⟩, ⟨[8, 4, 42, 200], [1, 1, 1, 1], 200⟩]
      aim false := by
  decide

/-- **Clause 5, `from_size`**: the loop is `zip(atnums, atcoords)` (no length check — it stops
at the shorter one); the radial grid is the single given one or the default for the atom's
number (no list / dict fan-out in `from_size`). If `gs` are the grids built by hand with
`AtomGrid(rad, degrees=None, sizes=[size], center=atcoord, rotate)`, the result is
`MolGrid(atnums, gs, aim_weights or BeckeWeights(order=3), store)`. -/
theorem fromSize_eq_hand_built [Add K] [Mul K] [NatCast K] (dflt : Nat → Py R)
    (mkAt : R → Sz → P → Rot → Py (AtGrid P K)) (becke3 : AimArg P K)
    (atnums : List Nat) (atcoords : List P) (size : Sz) (rgrid : PyArg R)
    (aim : Option (AimArg P K)) (rotate : Rot) (store : Bool) (gs : List (AtGrid P K))
    (hgs : List.Forall₂ (fun (zc : Nat × P) g => ∃ rad, sizeRad rgrid dflt zc.1 = .ok rad ∧
      mkAt rad size zc.2 rotate = .ok g) (atnums.zip atcoords) gs) :
    fromSizeWith (fun a d z => Gen.MolGrid.fromSize_rad_grid d a z) dflt mkAt becke3 atnums
      atcoords size rgrid aim rotate store =
    MolGrid.init atnums gs (aimOrDefault aim becke3) store ∧
    fromSize dflt mkAt becke3 atnums atcoords size rgrid aim rotate store =
    MolGrid.init atnums gs (aimOrDefault aim becke3) store := by
  have key : ∀ (selR : PyArg R → (Nat → Py R) → Nat → Py R),
      (∀ z, selR rgrid dflt z = sizeRad rgrid dflt z) →
      fromSizeWith selR dflt mkAt becke3 atnums atcoords size rgrid aim rotate store =
        MolGrid.init atnums gs (aimOrDefault aim becke3) store := by
    intro selR hR
    unfold fromSizeWith
    have : sizeGrids selR dflt mkAt atnums atcoords size rgrid rotate = .ok gs := by
      unfold sizeGrids
      rw [allOk_eq_ok_iff]
      refine hgs.imp ?_
      rintro zc g ⟨rad, h1, h2⟩
      simp only [hR, h1]
      exact h2
    rw [this]; rfl
  exact ⟨key _ (fun z => (gen_selection_eq_model dflt rgrid [0] 0 (by simp) z).2.2.2),
    key _ (fun _ => rfl)⟩

example :
    let mkAt : Nat → Unit → Nat → Unit → Py (AtGrid Nat Nat) :=
      fun rad _ c _ => .ok ⟨[rad, c], [1, 1], c⟩
    let aim : AimArg Nat Nat := .array [1, 1, 1, 1]
    fromSize (fun z => .ok (1000 + z)) mkAt aim [1, 8, 6] [100, 200] () .none none () true =
    MolGrid.init [1, 8, 6] [⟨[1001, 100], [1, 1], 100⟩, ⟨[1008, 200], [1, 1], 200⟩] aim true := by
  decide

/-- The normalisation block of `from_pruned`: on success there are as many radial sector
lists as atoms, `d_sectors[i]` / `s_sectors[i]` exist for every atom, and exactly one of the
two is `None` for all atoms (`s_sectors` wins when given); an `int` `d_sectors` is repeated;
an `int` `s_sectors` — advertised by the signature — is a `TypeError`. -/
theorem prunedSectors_spec (natoms nR : Nat) (d : DArg DS) (s : SArg SS)
    (dl : List (Option DS)) (sl : List (Option SS))
    (h : prunedSectors natoms nR d s = .ok (dl, sl)) :
    natoms = nR ∧ dl.length = natoms ∧ sl.length = natoms ∧
    (s = .none → sl = List.replicate natoms none ∧ dl = (d.toList natoms).map some) ∧
    (∀ l, s = .list l → dl = List.replicate natoms none ∧ sl = l.map some) ∧
    s ≠ .int := by
  revert h
  unfold prunedSectors
  cases s with
  | none =>
    intro h
    simp only at h
    by_cases h1 : (d.toList natoms).length = nR
    · rw [if_neg (not_not.mpr h1)] at h
      by_cases h2 : natoms = nR
      · rw [if_neg (not_not.mpr h2)] at h
        obtain ⟨rfl, rfl⟩ := Prod.mk.inj (Except.ok.inj h)
        refine ⟨h2, ?_, by simp, fun _ => ⟨rfl, rfl⟩, fun l hl => (by cases hl), (by simp)⟩
        rw [List.length_map, h1, h2]
      · rw [if_pos h2] at h; cases h
    · rw [if_pos h1] at h; cases h
  | list l =>
    intro h
    simp only at h
    by_cases h1 : natoms = nR
    · rw [if_neg (not_not.mpr h1)] at h
      by_cases h2 : l.length = nR
      · rw [if_neg (not_not.mpr h2)] at h
        obtain ⟨rfl, rfl⟩ := Prod.mk.inj (Except.ok.inj h)
        refine ⟨h1, by simp, by simp [h1, h2], fun hc => (by cases hc), fun l' hl => ?_, (by simp)⟩
        cases hl; exact ⟨rfl, rfl⟩
      · rw [if_pos h2] at h; cases h
    · rw [if_pos h1] at h; cases h
  | int =>
    intro h
    simp only at h
    by_cases h1 : natoms = nR
    · rw [if_neg (not_not.mpr h1)] at h; cases h
    · rw [if_pos h1] at h; cases h

example : prunedSectors (DS := Nat) (SS := List Nat) 2 2 (.int 50) .none =
    .ok ([some 50, some 50], [none, none]) ∧
    prunedSectors (DS := Nat) (SS := List Nat) 2 2 (.int 50) (.list [[6, 14], [26]]) =
    .ok ([none, none], [some [6, 14], some [26]]) ∧
    prunedSectors (DS := Nat) (SS := List Nat) 2 2 (.int 50) .int = .error .typeError := by
  decide

/-- `radius`: a float is used for every atom, a list entry by entry, anything else (an `int`)
is a `TypeError` at the first atom. -/
theorem radiusAtom_spec (natoms : Nat) (i : Nat) (hi : i < natoms) (x : Rad) (l : List Rad) :
    radiusAtom natoms (.float x) i = .ok x ∧
    radiusAtom natoms (.list l) i =
      (match l[i]? with | some y => .ok y | none => .error .indexError) ∧
    radiusAtom natoms (.other : RadArg Rad) i = .error .typeError := by
  refine ⟨?_, ?_, rfl⟩
  · show pyGet (List.replicate natoms x) (i : Int) = _
    rw [pyGet_nat_lt _ i (by simpa using hi)]
    simp
  · show pyGet l (i : Int) = _
    rw [pyGet_nat]
    cases l[i]? <;> rfl

/-- **Clause 5, `from_pruned`**: if `gs` are the atomic grids built by hand with
`AtomGrid.from_pruned(<picked rgrid>, radius_atom[i], r_sectors=r_sectors[i],
d_sectors=d_sectors[i], s_sectors=s_sectors[i], center=atcoords[i], rotate)`, then
`MolGrid.from_pruned(…)` is `MolGrid(atnums, gs, aim_weights or BeckeWeights(order=3), store)`. -/
theorem fromPruned_eq_hand_built [Add K] [Mul K] [NatCast K] (dflt : Nat → Py R)
    (mkAt : R → Rad → RS → Option DS → Option SS → P → Rot → Py (AtGrid P K))
    (becke3 : AimArg P K) (atnums : List Nat) (atcoords : List P) (radius : RadArg Rad)
    (rSectors : List RS) (d : DArg DS) (s : SArg SS) (rgrid : PyArg R)
    (aim : Option (AimArg P K)) (rotate : Rot) (store : Bool)
    (hlen : atnums.length = atcoords.length)
    (dl : List (Option DS)) (sl : List (Option SS))
    (hsec : prunedSectors atcoords.length rSectors.length d s = .ok (dl, sl))
    (gs : List (AtGrid P K)) (hn : gs.length = atnums.length)
    (hgs : ∀ i (hi : i < atnums.length), ∃ rad ra rs ds ss,
      pick rgrid (some dflt) atnums i = .ok rad ∧
      radiusAtom atcoords.length radius i = .ok ra ∧
      rSectors[i]? = some rs ∧ dl[i]? = some ds ∧ sl[i]? = some ss ∧
      mkAt rad ra rs ds ss (atcoords[i]'(by omega)) rotate = .ok (gs[i]'(by omega))) :
    fromPrunedWith (Gen.MolGrid.fromPruned_rad dflt) mkAt becke3 atnums atcoords radius rSectors
      d s rgrid aim rotate store = MolGrid.init atnums gs (aimOrDefault aim becke3) store ∧
    fromPruned dflt mkAt becke3 atnums atcoords radius rSectors d s rgrid aim rotate store =
      MolGrid.init atnums gs (aimOrDefault aim becke3) store := by
  have key : ∀ (selR : PyArg R → List Nat → Nat → Py R),
      (∀ i, i < atnums.length → selR rgrid atnums i = pick rgrid (some dflt) atnums i) →
      fromPrunedWith selR mkAt becke3 atnums atcoords radius rSectors d s rgrid aim rotate store =
        MolGrid.init atnums gs (aimOrDefault aim becke3) store := by
    intro selR hR
    unfold fromPrunedWith
    simp only [hlen, ne_eq, not_true_eq_false, ↓reduceIte, hsec]
    have : prunedGrids selR mkAt atnums atcoords radius rSectors dl sl rgrid rotate = .ok gs := by
      unfold prunedGrids
      rw [allOk_eq_ok_iff]
      apply forall₂_range_of_index _ _ _ hn
      intro i hi
      obtain ⟨rad, ra, rs, ds, ss, h1, h2, h3, h4, h5, h6⟩ := hgs i hi
      simp only [hR i hi, h1, h2, pyGet_nat, h3, h4, h5, List.getElem?_eq_getElem (show i < atcoords.length by omega)]
      exact h6
    show (do
      let grids ← prunedGrids selR mkAt atnums atcoords radius rSectors dl sl rgrid rotate
      MolGrid.init atnums grids (aimOrDefault aim becke3) store) = _
    rw [this]; rfl
  exact ⟨key _ (fun i hi => (gen_selection_eq_model dflt rgrid atnums i hi 0).2.2.1),
    key _ (fun _ _ => rfl)⟩

example :
    let mkAt : Nat → Nat → Nat → Option Nat → Option Nat → Nat → Unit → Py (AtGrid Nat Nat) :=
      fun rad ra rs ds ss c _ => .ok ⟨[rad, ra, rs, (match ds with | some d => d | none => 0), (match ss with | some x => x | none => 0), c],
        [1, 1, 1, 1, 1, 1], c⟩
    let aim : AimArg Nat Nat := .array [1, 1, 1, 1, 1, 1, 1, 1, 1, 1, 1, 1]
    fromPruned (fun z => .ok (1000 + z)) mkAt aim [1, 8] [100, 200] (.float 3) [11, 12]
      (.list [21, 22]) .none (.dict fun z => if z = 8 then some 42 else some 41) none () false =
    MolGrid.init [1, 8] [⟨[41, 3, 11, 21, 0, 100], [1, 1, 1, 1, 1, 1], 100⟩,
      ⟨[42, 3, 12, 22, 0, 200], [1, 1, 1, 1, 1, 1], 200⟩] aim false := by
  decide

/-- `_generate_default_rgrid`: defined exactly on the keys of the parameter table
(`ValueError` elsewhere), and then the grid built from that element's row. -/
theorem defaultRgrid_spec {T : Type} (table : List (Nat × T)) (build : T → R) (atnum : Nat) :
    (atnum ∉ table.map Prod.fst → defaultRgrid table build atnum = .error .valueError) ∧
    (atnum ∈ table.map Prod.fst → ∃ t, (atnum, t) ∈ table ∧
      defaultRgrid table build atnum = .ok (build t)) := by
  unfold defaultRgrid
  constructor
  · intro hn
    have : table.find? (fun p => p.1 == atnum) = none := by
      rw [List.find?_eq_none]
      intro p hp hc
      exact hn (List.mem_map.mpr ⟨p, hp, by simpa using hc⟩)
    rw [this]; rfl
  · intro hm
    cases hf : table.find? (fun p => p.1 == atnum) with
    | none =>
      rw [List.find?_eq_none] at hf
      obtain ⟨p, hp, hpe⟩ := List.mem_map.mp hm
      exact absurd (by simpa using hpe) (hf p hp)
    | some p =>
      have h1 := List.mem_of_find?_eq_some hf
      have h2 := List.find?_some hf
      have h3 : p.1 = atnum := by simpa using h2
      exact ⟨p.2, by rw [← h3]; exact h1, rfl⟩

/-- The regenerated key set of `_DEFAULT_POWER_RTRANSFORM_PARAMS`: H–La and Hf–Pb, each once,
every grid with at least 34 radial points. -/
theorem defaultRgrid_table_ok :
    (Gen.MolGrid.defaultRgridNpt.map Prod.fst).Nodup ∧
    (∀ z, z ∈ Gen.MolGrid.defaultRgridNpt.map Prod.fst ↔ (1 ≤ z ∧ z ≤ 57) ∨ (72 ≤ z ∧ z ≤ 82)) ∧
    (∀ p ∈ Gen.MolGrid.defaultRgridNpt, 34 ≤ p.2) := by
  refine ⟨by decide +kernel, ?_, by decide +kernel⟩
  intro z
  constructor
  · intro h
    have : ∀ y ∈ Gen.MolGrid.defaultRgridNpt.map Prod.fst, (1 ≤ y ∧ y ≤ 57) ∨ (72 ≤ y ∧ y ≤ 82) := by
      decide +kernel
    exact this z h
  · intro h
    have : ∀ y, y < 83 → ((1 ≤ y ∧ y ≤ 57) ∨ (72 ≤ y ∧ y ≤ 82)) →
        y ∈ Gen.MolGrid.defaultRgridNpt.map Prod.fst := by
      decide +kernel
    exact this z (by omega) h

end GridVerif.C07

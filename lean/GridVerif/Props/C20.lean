/-
  C20 — library calls never modify the caller's arrays, dictionaries or callback results.

  Model: the effects IR of every function of src/grid (`Gen/Effects.lean`, regenerated from
  /repo on every run by harness/translate/effects.py) with the store semantics and the
  may-alias analysis of `Model/Effects.lean`.
-/
import GridVerif.Lemmas.Effects
import GridVerif.Gen.Effects

namespace GridVerif.C20
open GridVerif.Effects

/-- **Soundness of the analysis.**  If `safe p`, then for every set of caller-owned objects,
every initial binding of the variables in which only the parameters (and, in methods, the
attributes of `self`) may refer to caller-owned objects — *any aliasing pattern among them is
allowed: the same array passed twice, arrays sharing memory* —, every behaviour of callbacks
(they may return any caller-owned object, e.g. their own argument or a cached array), and every
execution (any order and repetition of the function's statements, any choice at each step), the
content of every caller-owned object is the same after the run as before. -/
theorem analysis_sound (p : Prog) (h : safe p = true) (owned : Nat → Prop) (σ σ' : State)
    (hinit : ∀ v, v ∉ p.entry → ¬ owned (σ.ref v))
    (hrun : Run owned p.stmts σ σ') :
    ∀ o, owned o → σ'.heap o = σ.heap o := by
  unfold safe at h
  simp only [Bool.and_eq_true] at h
  obtain ⟨⟨hentry, hclosed⟩, hnowrite⟩ := h
  have hI : Inv owned p.taint σ := by
    intro v hv
    apply hinit
    intro hmem
    have := List.all_eq_true.mp hentry v hmem
    simp only [List.contains_eq_mem, decide_eq_true_eq] at this
    exact hv this
  exact (run_preserves hclosed hnowrite hI hrun).2

/-- A certificate that leaves out a variable which an assignment can bind to caller-owned data is
rejected, whatever else it says (the check does not trust the translator's taint set). -/
example : safe { name := "cheat", nparams := 1, owned0 := [], stmts := [.assign 1 [0] false, .inplace 1],
                 taint := [0] } = false := by decide

/-- The analysis is not vacuous: it rejects the two defects that were repaired in /repo
(an in-place update of the array returned by a callback, `setdefault` on a caller's dict)
and a write through a view of a parameter, and accepts their repaired forms. -/
example :
    -- result = fx(x); result -= b*y          (fx: user callback)
    safe { name := "bad1", nparams := 1, owned0 := [], stmts := [.assign 1 [0] false, .inplace 1], taint := [0, 1] } = false ∧
    -- result = fx(x); result = result - b*y
    safe { name := "ok1", nparams := 1, owned0 := [], stmts := [.assign 1 [0] false, .assign 2 [] false, .inplace 2], taint := [0, 1] } = true ∧
    -- opts.setdefault(...) on the parameter
    safe { name := "bad2", nparams := 1, owned0 := [], stmts := [.inplace 0], taint := [0] } = false ∧
    -- v = np.asarray(p); w = v.reshape(..); w[0] = 1
    safe { name := "bad3", nparams := 1, owned0 := [], stmts := [.assign 1 [0] false, .assign 2 [1] false, .inplace 2], taint := [0, 1, 2] } = false ∧
    -- y = cb(...); y += 1
    safe { name := "bad4", nparams := 0, owned0 := [], stmts := [.assign 0 [] true, .inplace 0], taint := [0] } = false := by
  decide

/-- A concrete execution of `bad1` that changes a caller-owned object (so `safe = false`
there is not over-caution): object 7 is owned, parameter 0 refers to it. -/
example : ∃ σ σ' : State, Run (fun o => o = 7) [.assign 1 [0] false, .inplace 1] σ σ' ∧
    σ'.heap 7 ≠ σ.heap 7 := by
  refine ⟨⟨fun _ => 7, fun _ => 0⟩, ⟨fun _ => 7, fun a => if a = 7 then 1 else 0⟩, ?_, by simp⟩
  refine .cons (s := .assign 1 [0] false) (by simp) (.aliasOf (y := 0) (by simp)) ?_
  refine .cons (s := .inplace 1) (by simp) ?_ .nil
  have := @Step.write (fun o => o = 7) 1 ⟨fun v => if v = 1 then 7 else 7, fun _ => 0⟩ 1
  simpa using this

set_option maxRecDepth 100000 in
/-- **Every function and method of the library passes the analysis** (decided by the kernel on
the regenerated IR; nested functions, lambdas and private module-level helpers are analysed
inlined at their use sites). -/
theorem all_functions_safe : Gen.Effects.progs.all safe = true := by
  decide +kernel

/-- C20 for the library: combine the two. -/
theorem library_never_writes_caller_data (p : Prog) (hp : p ∈ Gen.Effects.progs)
    (owned : Nat → Prop) (σ σ' : State)
    (hinit : ∀ v, v ∉ p.entry → ¬ owned (σ.ref v)) (hrun : Run owned p.stmts σ σ') :
    ∀ o, owned o → σ'.heap o = σ.heap o :=
  analysis_sound p (List.all_eq_true.mp all_functions_safe p hp) owned σ σ' hinit hrun

end GridVerif.C20

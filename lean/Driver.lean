/-
  Line-protocol driver: one operation per input line, one answer per line.
  Imports Model/Gen/Driver modules only (no Mathlib) so it links as a native exe.
-/
import GridVerif.Driver.All

open GridVerif

partial def loop (h : IO.FS.Stream) (out : IO.FS.Stream) : IO Unit := do
  let line ← h.getLine
  if line.isEmpty then return ()
  let toks := (line.trimAscii.toString.splitOn " ").filter (· ≠ "")
  let ans := match Driver.dispatch toks with
    | some s => s
    | none => "bad-op"
  out.putStrLn ans
  loop h out

def main : IO Unit := do
  let out ← IO.getStdout
  loop (← IO.getStdin) out
  out.flush

#!/bin/sh
# Development helper: run checks against a mutated copy of the library WITHOUT touching /repo or the
# shared lake workspace:  seedtrial.sh <mutated-worktree> <Cxx> [more Cxx…]
# (TIER=thorough in the environment selects the thorough tier)
# (copies /verif incl. its build products to a scratch dir, runs `./check Cxx` there with GRID_REPO)
set -e
WT="$1"; shift
T=/var/tmp/verif-trial-$$
mkdir -p "$T"
rsync -a --exclude replays /verif/ "$T"/ 2>/dev/null || true
cd "$T"
for P in "$@"; do
  echo "=== $P on $WT"
  GRID_REPO="$WT" ./check "$P" --tier "${TIER:-quick}" 2>&1 | grep -v "^info:" | tail -12 || true
done
rm -rf "$T"

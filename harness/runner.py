"""Check flow (DESIGN 2.6): regenerate -> re-check theorems + audit ->
correspondence -> oracle -> verdict, evidence, replay."""
from __future__ import annotations

import fcntl
import hashlib
import importlib
import json
import os
import re
import subprocess
import sys
import time
import traceback
from pathlib import Path

from .common import (
    ALLOWED_AXIOMS,
    LEAN,
    REPO,
    VERIF,
    Ctx,
    DriverError,
    Failure,
    jsonable,
    load_known_findings,
)

FORBIDDEN = re.compile(
    r"\bsorry\b|\badmit\b|^axiom |native_decide|bv_decide|implemented_by|\bunsafe |maxHeartbeats 0"
)



def _drop_stale_build_products():
    """Remove build products of modules whose source file no longer exists (a module that was renamed
    or removed leaves its .olean behind; leanchecker replays every .olean below the prefix it is given
    and then fails on the stale one although the current sources build and check)."""
    lib = LEAN / ".lake" / "build" / "lib" / "lean" / "GridVerif"
    ir = LEAN / ".lake" / "build" / "ir" / "GridVerif"
    if not lib.is_dir():
        return
    for ol in lib.rglob("*.olean"):
        rel = ol.relative_to(lib).with_suffix(".lean")
        if not (LEAN / "GridVerif" / rel).exists():
            stem = ol.name[: -len(".olean")]
            for d in (ol.parent, ir / rel.parent):
                if d.is_dir():
                    for f in d.glob(stem + ".*"):
                        if f.is_file() and f.name.split(".")[0] == stem:
                            f.unlink()


def _strip_comments(text: str) -> str:
    # remove nested /- -/ blocks and -- line comments
    out, depth, i = [], 0, 0
    while i < len(text):
        if text.startswith("/-", i):
            depth += 1
            i += 2
        elif text.startswith("-/", i) and depth > 0:
            depth -= 1
            i += 2
        elif depth > 0:
            if text[i] == "\n":
                out.append("\n")
            i += 1
        elif text.startswith("--", i):
            while i < len(text) and text[i] != "\n":
                i += 1
        else:
            out.append(text[i])
            i += 1
    return "".join(out)


def import_closure(modules: list[str]) -> list[Path]:
    """The .lean files of this project that the given modules import, transitively."""
    seen, todo = {}, list(modules) + ["Driver"]
    while todo:
        m = todo.pop()
        if m in seen:
            continue
        path = LEAN / (m.replace(".", "/") + ".lean")
        if not path.exists():
            continue
        seen[m] = path
        for line in path.read_text().splitlines():
            mm = re.match(r"\s*(?:public\s+)?import\s+((?:GridVerif|Driver)[\w.]*)", line)
            if mm:
                todo.append(mm.group(1))
    return sorted(seen.values())


def forbidden_tokens(modules: list[str] | None = None) -> list[str]:
    """Forbidden tokens in the Lean files the property's modules (and the driver) are built from."""
    hits = []
    files = import_closure(modules) if modules else sorted((LEAN / "GridVerif").rglob("*.lean")) + [LEAN / "Driver.lean"]
    for p in files:
        body = _strip_comments(p.read_text())
        # string literals may legitimately contain words; drop them
        body = re.sub(r'"(?:[^"\\]|\\.)*"', '""', body)
        for ln, line in enumerate(body.splitlines(), 1):
            if FORBIDDEN.search(line):
                hits.append(f"{p.relative_to(LEAN)}:{ln}: {line.strip()[:120]}")
    return hits


class LeanLock:
    def __enter__(self):
        (LEAN / ".lake").mkdir(exist_ok=True)
        self.f = open(LEAN / ".lake" / "verif.lock", "w")
        fcntl.flock(self.f, fcntl.LOCK_EX)
        return self

    def __exit__(self, *a):
        fcntl.flock(self.f, fcntl.LOCK_UN)
        self.f.close()


def run(cmd, cwd=None, timeout=3600, env=None):
    e = dict(os.environ)
    if env:
        e.update(env)
    p = subprocess.run(cmd, cwd=cwd, capture_output=True, text=True, timeout=timeout, env=e)
    return p.returncode, p.stdout + p.stderr


def theorem_of_error(path: Path, line: int) -> str | None:
    try:
        lines = path.read_text().splitlines()
    except OSError:
        return None
    for i in range(min(line, len(lines)) - 1, -1, -1):
        m = re.match(r"\s*(?:private\s+|protected\s+)?(?:theorem|lemma|def|example|instance|abbrev)\s+([^\s:({\[]+)", lines[i])
        if m:
            return m.group(1)
    return None


def lean_build_and_audit(pid: str, modules: list[str], theorems: list[str], thorough: bool):
    """-> dict(ok, obligations, discharged, broken: [(name, why)], log)"""
    res = {"obligations": 2 * len(theorems), "discharged": 0, "broken": [], "log": "",
           "driver_ok": True}
    with LeanLock():
        rc, out = run(["lake", "build", "driver"], cwd=LEAN)
        if rc != 0:
            res["driver_ok"] = False
            res["log"] += out[-4000:]
        rc, out = run(["lake", "build"] + modules, cwd=LEAN)
        res["log"] += out[-6000:]
        if rc != 0:
            names = set()
            for m in re.finditer(r"error: ([^\s:]+\.lean):(\d+):(\d+)", out):
                t = theorem_of_error(LEAN / m.group(1), int(m.group(2)))
                names.add(f"{m.group(1)}:{m.group(2)}" + (f" ({t})" if t else ""))
            why = "lake build failed: " + ("; ".join(sorted(names)) if names else out[-500:])
            res["broken"] = [(t, why) for t in theorems] or [("build", why)]
            res["build_failed_at"] = sorted(names)
            return res
        # audit file generated from the registry
        audit_dir = LEAN / "GridVerif" / "Audit"
        audit_dir.mkdir(exist_ok=True)
        audit = audit_dir / f"{pid}.lean"
        text = "".join(f"import {m}\n" for m in modules) + "\n" + "".join(
            f"#print axioms {t}\n" for t in theorems
        )
        if not audit.exists() or audit.read_text() != text:
            audit.write_text(text)
        rc, out = run(["lake", "env", "lean", str(audit.relative_to(LEAN))], cwd=LEAN)
        res["log"] += out[-3000:]
        if thorough:
            _drop_stale_build_products()
            rc2, out2 = run(["lake", "env", "leanchecker"] + modules, cwd=LEAN, timeout=3600)
            res["leanchecker"] = "ok" if rc2 == 0 else out2[-1500:]
            if rc2 != 0:
                res["broken"].append(("leanchecker", out2[-500:]))
    # parse
    flat = re.sub(r"\s+", " ", out)
    axioms = {}
    for m in re.finditer(r"'([^']+)' depends on axioms: \[([^\]]*)\]", flat):
        axioms[m.group(1)] = {a.strip() for a in m.group(2).split(",") if a.strip()}
    for m in re.finditer(r"'([^']+)' does not depend on any axioms", flat):
        axioms[m.group(1)] = set()
    hits = forbidden_tokens(modules)
    for t in theorems:
        # `#print axioms` prints the fully-qualified name; accept suffix match
        key = next((k for k in axioms if k == t or k.endswith("." + t) or t.endswith("." + k)), None)
        if key is None:
            res["broken"].append((t, "theorem missing (not found by #print axioms)"))
            continue
        res["discharged"] += 1
        bad = axioms[key] - ALLOWED_AXIOMS
        if bad:
            res["broken"].append((t, f"depends on non-standard axioms {sorted(bad)}"))
        else:
            res["discharged"] += 1
    if hits:
        res["broken"].append(("forbidden-token", "; ".join(hits[:5])))
        res["discharged"] = max(0, res["discharged"] - 1)
    res["axioms"] = {k: sorted(v) for k, v in axioms.items()}
    return res


def regenerate(gens: list[str]):
    """Run the translators named in `gens`; -> list of (name, status, detail)."""
    out = []
    for g in gens:
        try:
            mod = importlib.import_module(f"harness.translate.{g}")
            changed, detail = mod.generate()
            out.append((g, "changed" if changed else "same", detail))
        except Exception as e:  # translator cannot carry the source
            out.append((g, "error", f"{type(e).__name__}: {e}\n{traceback.format_exc()[-1500:]}"))
    return out


def write_evidence(pid, ctx: Ctx, level: str, lean_res, trusted_base, assumptions, violations):
    cov = {
        "evaluations": ctx.evaluations,
        "distinct_nontrivial": ctx.distinct_nontrivial,
        "rule": ctx.rule,
        "samples": ctx.samples + ([ctx._last] if hasattr(ctx, "_last") else []),
        "distribution": ctx.distribution,
        "traces_validated_against_impl": ctx.traces,
        "exhaustive": bool(ctx.exhaustive),
    }
    if lean_res is not None:
        cov.update(
            obligations=lean_res["obligations"],
            discharged=lean_res["discharged"],
            checker_cmd=f"cd lean && lake build <Props modules of {pid}> && lake env lean GridVerif/Audit/{pid}.lean"
            + (" && lake env leanchecker <modules>" if ctx.thorough else ""),
            trusted_base=trusted_base,
            theorem_axioms=lean_res.get("axioms", {}),
        )
        if "leanchecker" in lean_res:
            cov["leanchecker"] = lean_res["leanchecker"]
    cov.update(ctx.extra)
    ev = {
        "property_id": pid,
        "tier": ctx.tier,
        "seed": ctx.seed,
        "level": level,
        "coverage": cov,
        "assumptions": assumptions,
        "wall_s": round(time.time() - ctx.t0, 2),
        "violations": violations,
        "infos": ctx.infos[:40],
    }
    d = VERIF / "evidence"
    d.mkdir(exist_ok=True)
    (d / f"{pid}.json").write_text(json.dumps(ev, indent=1, sort_keys=True) + "\n")


def setup() -> int:
    """Build the driver and every Props module named by a property module."""
    mods = []
    ready = (VERIF / "harness" / "ready.txt").read_text().split()
    for pid in ready:
        m = importlib.import_module(f"harness.props.{pid.lower()}")
        for x in getattr(m, "LEAN_MODULES", []):
            if x not in mods:
                mods.append(x)
    with LeanLock():
        rc, out = run(["lake", "build", "driver"] + mods, cwd=LEAN, timeout=7200)
    print(out[-3000:])
    return 0 if rc == 0 else 2


def private_driver():
    """Copy the driver executable (under the build lock) so that a concurrent relink by another
    check cannot pull it away while this run uses it."""
    import shutil
    import atexit
    from . import common

    src = LEAN / ".lake" / "build" / "bin" / "driver"
    with LeanLock():
        if not src.exists():
            run(["lake", "build", "driver"], cwd=LEAN)
        if not src.exists():
            return
        dst = src.with_name(f"driver.{os.getpid()}")
        shutil.copy2(src, dst)
    common.DRIVER_EXE = dst
    atexit.register(lambda: dst.unlink(missing_ok=True))


def check_property(pid: str, tier: str, seed: int, no_lean: bool = False) -> int:
    try:
        mod = importlib.import_module(f"harness.props.{pid.lower()}")
    except ModuleNotFoundError:
        print(f"no check for {pid}")
        return 2
    ctx = Ctx(pid, tier, seed)
    ctx.rule = getattr(mod, "RULE", "")
    level = getattr(mod, "LEVEL", "proof")
    theorems = list(getattr(mod, "THEOREMS", []))
    modules = list(getattr(mod, "LEAN_MODULES", []))
    findings, fixed = load_known_findings(pid)

    # 1. regenerate
    gen = [] if no_lean else regenerate(getattr(mod, "GEN", []))
    for name, status, detail in gen:
        if status == "error":
            ctx.fail("proof", f"translator:{name}", f"translator {name} cannot translate the current source: {detail[:300]}")
        elif status == "changed":
            ctx.info(f"Gen changed by translator {name}: {detail[:600]}")

    # 2. theorems
    lean_res = None
    if (modules or theorems) and not no_lean:
        lean_res = lean_build_and_audit(pid, modules, theorems, ctx.thorough)
        if any(status == "error" for _, status, _ in gen):
            # the theorems that built are about the *previous* generation of the model: none of them
            # counts as discharged for the current source
            lean_res["discharged"] = 0
        for name, why in lean_res["broken"]:
            ctx.fail("proof", f"theorem:{name}", f"{name}: {why}")
        if not lean_res["driver_ok"]:
            ctx.fail("proof", "driver", "the executable model (driver) no longer builds: " + lean_res["log"][-400:])

    # 3. correspondence, 4. oracle (small budget)
    private_driver()
    for stage in ("corr", "oracle"):
        fn = getattr(mod, stage, None)
        if fn is None:
            continue
        try:
            if stage == "oracle":
                fn(ctx, "small")
            else:
                fn(ctx)
        except DriverError as e:
            ctx.fail("proof", "driver", f"driver unusable during {stage}: {e}")
        except Exception as e:
            # the harness calling the implementation crashed: treat as a broken tie
            ctx.fail("corr", f"{stage}-crash", f"{stage} harness raised {type(e).__name__}: {e}",
                     witness=traceback.format_exc()[-2500:])

    # 5. verdict
    known_hits, unknown = {}, []
    for f in ctx.failures:
        if f.kind == "oracle" and f.key in findings:
            known_hits.setdefault(f.key, f)
        else:
            unknown.append(f)
    tie_broken = [f for f in unknown if f.kind in ("proof", "corr")]
    new_oracle = [f for f in unknown if f.kind == "oracle"]

    if tie_broken and not new_oracle and hasattr(mod, "oracle"):
        # search the implementation for a concrete failing input: first at the inputs on which the
        # correspondence disagreed (the property itself is evaluated there), then with the large budget
        before = len(ctx.failures)
        if hasattr(mod, "oracle_at"):
            for f in [f for f in tie_broken if f.kind == "corr"][:40]:
                try:
                    mod.oracle_at(ctx, f)
                except Exception as e:
                    ctx.info(f"oracle_at raised {type(e).__name__}: {e}")
        if any(f.kind == "oracle" and f.key not in findings for f in ctx.failures[before:]):
            pass
        else:
          try:
            mod.oracle(ctx, "large")
          except Exception as e:
            ctx.info(f"large-budget oracle raised {type(e).__name__}: {e}")
        for f in ctx.failures[before:]:
            if f.kind == "oracle" and f.key not in findings:
                new_oracle.append(f)
            elif f.kind == "oracle":
                known_hits.setdefault(f.key, f)

    for key, text in findings.items():
        if key in known_hits:
            print(f"KNOWN-FINDING: property={pid} {key} :: {text}")
        else:
            print(f"info: listed finding {key} did not reproduce in this run")
    for line in ctx.infos[:10]:
        print("info:", line[:300])

    violations = 0
    rc = 0
    if tie_broken or new_oracle:
        violations = max(1, len(new_oracle))
        replay = {
            "property": pid,
            "tier": tier,
            "seed": seed,
            "failing_inputs": [f.to_json() for f in new_oracle],
            "no_longer_checks": [f.to_json() for f in tie_broken],
            "lean_log_tail": (lean_res or {}).get("log", "")[-3000:],
            "gen": [(n, s, d[:2000]) for n, s, d in gen],
        }
        h = hashlib.sha256(json.dumps(replay, sort_keys=True).encode()).hexdigest()[:10]
        rdir = VERIF / "replays"
        rdir.mkdir(exist_ok=True)
        rp = rdir / f"{pid}-{h}.json"
        rp.write_text(json.dumps(replay, indent=1) + "\n")
        tail = "" if new_oracle else " no-failing-input-found"
        for f in (new_oracle or tie_broken)[:5]:
            print(f"  {f.kind}: {f.key}: {f.what[:400]}")
        print(f"VIOLATION property={pid} replay={rp}{tail}")
        rc = 1

    write_evidence(
        pid, ctx, level, lean_res,
        getattr(mod, "TRUSTED_BASE", []), getattr(mod, "ASSUMPTIONS", []), violations,
    )
    print(f"{pid}: tier={tier} seed={seed} evaluations={ctx.evaluations} "
          f"distinct_nontrivial={ctx.distinct_nontrivial} "
          + (f"obligations={lean_res['obligations']} discharged={lean_res['discharged']} " if lean_res else "")
          + f"wall={time.time() - ctx.t0:.1f}s -> {'VIOLATION' if rc else 'ok'}")
    return rc


def replay_file(path: str) -> int:
    data = json.loads(Path(path).read_text())
    still = 0
    items = data.get("failing_inputs", [])
    if not items:
        print("replay holds no failing input; obligations that no longer checked:")
        for f in data.get("no_longer_checks", []):
            print("  ", f["key"], "::", f["what"][:300])
        print(f"re-run: ./check {data['property']} --tier {data.get('tier', 'quick')}")
        return 0
    for f in items:
        sn = f.get("snippet")
        if not sn:
            print("no snippet for", f["key"])
            continue
        p = subprocess.run(["/venv/bin/python", "-c", sn], capture_output=True, text=True, cwd="/")
        if p.returncode != 0:
            still += 1
            print(f"STILL FAILS: {f['key']}: {p.stderr.strip().splitlines()[-1] if p.stderr.strip() else ''}")
        else:
            print(f"no longer fails: {f['key']}")
    return 1 if still else 0


def main(argv):
    import argparse

    ap = argparse.ArgumentParser()
    ap.add_argument("what")
    ap.add_argument("path", nargs="?")
    ap.add_argument("--tier", default=os.environ.get("VERIF_TIER", "quick"))
    ap.add_argument("--no-lean", action="store_true",
                    help="development only: skip regeneration/build/audit, run correspondence + oracle with the current driver")
    a = ap.parse_args(argv)
    seed = int(os.environ.get("VERIF_SEED", "0") or 0)
    if a.what == "replay":
        return replay_file(a.path)
    if a.what == "setup":
        return setup()
    return check_property(a.what.upper(), a.tier, seed, no_lean=a.no_lean)

#!/bin/sh
# seedkeep.sh <worktree> <Cxx> <tag> : confirm a seeded change (demo passes on /repo, fails on the
# worktree, existing suite passes on the worktree) and store it under /verif/seeded/<Cxx>-<tag>/
WT="$1"; P="$2"; TAG="$3"
D=/verif/seeded/$P-$TAG
mkdir -p "$D"
cp "$WT/patch.diff" "$D/patch.diff"
cp "$WT/demo_$P.py" "$D/demo_$P.py"
cd "$WT"
PYTHONPATH=/repo/src /venv/bin/python demo_$P.py > "$D/demo_pristine.log" 2>&1; echo "demo on pristine /repo: exit $?" | tee "$D/confirm.log"
PYTHONPATH="$WT/src" /venv/bin/python demo_$P.py > "$D/demo_changed.log" 2>&1; echo "demo on changed tree: exit $?" | tee -a "$D/confirm.log"
OMP_NUM_THREADS=1 OPENBLAS_NUM_THREADS=1 PYTHONPATH="$WT/src" /venv/bin/python -m pytest -q -p no:cacheprovider -n 4 src/grid/tests 2>&1 | tail -1 | tee -a "$D/confirm.log"

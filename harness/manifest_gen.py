"""Regenerate MANIFEST.json from the per-property modules (run by hand: /venv/bin/python -m harness.manifest_gen)."""
import importlib
import json
from pathlib import Path

VERIF = Path(__file__).resolve().parent.parent
ALL = [f"C{i:02d}" for i in range(1, 21)]


def main():
    checks, na = [], []
    ready = (VERIF / "harness" / "ready.txt").read_text().split()
    for pid in ALL:
        try:
            if pid not in ready:
                raise ModuleNotFoundError(pid)
            mod = importlib.import_module(f"harness.props.{pid.lower()}")
        except ModuleNotFoundError:
            na.append({"property_id": pid, "reason": "check not built yet (work in progress; see DESIGN.md section 4 for the planned proof)"})
            continue
        checks.append({
            "property_id": pid,
            "quick_cmd": f"./check {pid} --tier quick",
            "thorough_cmd": f"./check {pid} --tier thorough",
            "evidence_file": f"evidence/{pid}.json",
            "replay_cmd_template": "./check replay {path}",
            "engine": "lean4-proof+correspondence",
            "level_claimed": {
                "category": mod.LEVEL,
                "text": mod.LEVEL_TEXT,
                "design_ref": f"DESIGN.md section 4, {pid}",
            },
            "level_note": "; ".join(mod.TRUSTED_BASE + mod.ASSUMPTIONS),
            "technique": mod.TECHNIQUE,
        })
    man = {
        "version": 1,
        "setup_cmd": "./check setup",
        "hooks": {
            "guard": "GRID_VERIF_HOOKS",
            "enable": "no hooks are needed: checks import grid from /repo/src as it is (editable install in /venv)",
            "baseline_off_cmd": "cd /repo && /venv/bin/python -m pytest -ra -q -p no:cacheprovider --timeout=900 --continue-on-collection-errors",
            "source_commits": [],
            "add_only": True,
        },
        "engines": [{
            "name": "lean4-proof+correspondence",
            "path": "check",
            "serves_properties": [c["property_id"] for c in checks],
            "kind_free_text": "Lean 4 theorems about a model (lean/GridVerif: Gen regenerated from /repo by harness/translate, Model hand-written), axiom audit, differential correspondence of the compiled model (lean/Driver.lean) against the implementation, property oracle on the implementation as failing-input search",
        }],
        "checks": checks,
        "not_applicable": na,
        "notes": "See DESIGN.md. ./check <Cxx> --tier quick|thorough ; ./check replay <file>. Exit 0 ok, 1 violation, 2 infrastructure.",
    }
    (VERIF / "MANIFEST.json").write_text(json.dumps(man, indent=1) + "\n")
    print(f"{len(checks)} checks, {len(na)} not applicable")


if __name__ == "__main__":
    main()

"""Print the markdown table of the stored seeded changes (seeded/*/meta.json) for DESIGN.md."""
import json, glob, os
rows = []
for f in sorted(glob.glob(os.path.join(os.path.dirname(__file__), "..", "seeded", "*", "meta.json"))):
    m = json.load(open(f))
    name = os.path.basename(os.path.dirname(f))
    conf = os.path.join(os.path.dirname(f), "confirm.log")
    suite = ""
    if os.path.exists(conf):
        lines = open(conf).read().strip().splitlines()
        suite = next((l for l in lines if "passed" in l), "")
        suite = suite.strip("= ").split(",")[0] if suite else "pending"
    rows.append((name, m["property"], m["breaks"], m["needs"], m["first_result"], m["final_result"], m["caught_by"], suite))
print("| seed | what the change does | what it needs to manifest | first run of the check | now | mechanism that catches it |")
print("|---|---|---|---|---|---|")
for n, p, b, need, fr, fin, how, suite in rows:
    print(f"| `{n}` | {b} | {need} | {fr} | {fin.split(':')[0]} | {how} |")


def update_design():
    """Replace the table of section 8.5 in DESIGN.md by the current one (`python harness/seedtable.py --update`)."""
    import io, contextlib, runpy, sys
    p = os.path.join(os.path.dirname(__file__), "..", "DESIGN.md")
    s = open(p).read()
    head = "| seed | what the change does |"
    i = s.index(head)
    j = s.index("\n\n", i)
    lines = ["| seed | what the change does | what it needs to manifest | first run of the check | now | mechanism that catches it |", "|---|---|---|---|---|---|"]
    for n, pp, b, need, fr, fin, how, suite in rows:
        lines.append(f"| `{n}` | {b} | {need} | {fr} | {fin.split(':')[0]} | {how} |")
    open(p, "w").write(s[:i] + "\n".join(lines) + s[j:])


if __name__ == "__main__":
    import sys
    if "--update" in sys.argv:
        update_design()

#!/bin/sh
# Development helper: re-run the stored seeded changes against the CURRENT machinery.
#   seedregress.sh [seed-dir-name …]      (default: every directory under seeded/)
# For each: fresh detached worktree of /repo (outside /repo and /verif), apply patch.diff,
# run harness/seedtrial.sh <wt> <property>, keep the verdict in /var/tmp/seedregress/<name>.log,
# remove the worktree.  Prints one line per seed:  <name> CAUGHT|MISSED  <VIOLATION line…>
# Nothing is written under /verif; /repo's working tree is not touched.
cd /verif
OUT=/var/tmp/seedregress; mkdir -p $OUT
[ $# -eq 0 ] && set -- $(ls seeded)
for N in "$@"; do
  P=${N%%-*}
  WT=/var/tmp/seedregress/wt-$N
  git -C /repo worktree remove --force $WT 2>/dev/null
  git -C /repo worktree add -q --detach $WT HEAD || { echo "$N WORKTREE-FAILED"; continue; }
  if ! git -C $WT apply /verif/seeded/$N/patch.diff; then echo "$N NOAPPLY"; git -C /repo worktree remove --force $WT; continue; fi
  sh harness/seedtrial.sh $WT $P > $OUT/$N.log 2>&1
  if grep -q "^VIOLATION property=$P" $OUT/$N.log; then
    echo "$N CAUGHT $(grep -m1 '^VIOLATION' $OUT/$N.log | cut -c1-160)"
  else
    echo "$N MISSED"
  fi
  git -C /repo worktree remove --force $WT
done

"""Development measurement (not a registered check): how much of the library's text is carried
by the translators?

For every numeric literal, comparison operator, arithmetic operator and boolean keyword constant in
the non-test modules of src/grid, a scratch copy of the source gets that one token changed and all
translators are run in dry-run mode (GRID_VERIF_GEN_DRYRUN=1, nothing is written).  A token is
*carried* when some translator's output changes or a translator raises; the tokens no translator
notices are printed (file:line:col, the token, the function) — those are the places where only the
differential run and the oracles stand between a change and the theorems.

    /venv/bin/python -m harness.sensitivity [module.py …] [--jobs N] [--skip-effects]

Scratch copies live under /var/tmp/grid-sens-<pid> and are removed at the end.
"""
from __future__ import annotations

import ast
import json
import os
import shutil
import subprocess
import sys
import warnings
from concurrent.futures import ThreadPoolExecutor
from pathlib import Path

REPO_SRC = Path(os.environ.get("GRID_REPO", "/repo")) / "src" / "grid"
TRANSLATORS = sorted(p.stem for p in (Path(__file__).parent / "translate").glob("*.py")
                     if p.stem not in ("__init__", "util", "coulomb_py"))

CMP = {ast.Lt: "<=", ast.LtE: "<", ast.Gt: ">=", ast.GtE: ">", ast.Eq: "!=", ast.NotEq: "=="}
CMPTXT = {ast.Lt: "<", ast.LtE: "<=", ast.Gt: ">", ast.GtE: ">=", ast.Eq: "==", ast.NotEq: "!="}
BIN = {ast.Add: ("+", "-"), ast.Sub: ("-", "+"), ast.Mult: ("*", "/"), ast.Div: ("/", "*")}


def sites(path: Path):
    """-> list of (line, col, end_col, old_text, new_text, kind, function)"""
    src = path.read_text()
    lines = src.splitlines()
    with warnings.catch_warnings():
        warnings.simplefilter("ignore")
        tree = ast.parse(src)
    out = []
    doc = set()
    for n in ast.walk(tree):
        if isinstance(n, (ast.FunctionDef, ast.ClassDef, ast.Module)) and n.body and isinstance(n.body[0], ast.Expr) \
                and isinstance(getattr(n.body[0], "value", None), ast.Constant):
            doc.add(id(n.body[0].value))

    def walk(node, fn):
        for ch in ast.iter_child_nodes(node):
            f = fn
            if isinstance(ch, (ast.FunctionDef, ast.ClassDef)):
                f = (fn + "." if fn else "") + ch.name
            if isinstance(ch, ast.Constant) and id(ch) not in doc and ch.lineno == ch.end_lineno:
                v = ch.value
                txt = lines[ch.lineno - 1][ch.col_offset:ch.end_col_offset]
                if isinstance(v, bool):
                    out.append((ch.lineno, ch.col_offset, ch.end_col_offset, txt, str(not v), "bool", f))
                elif isinstance(v, int):
                    out.append((ch.lineno, ch.col_offset, ch.end_col_offset, txt, str(v + 1), "int", f))
                elif isinstance(v, float):
                    out.append((ch.lineno, ch.col_offset, ch.end_col_offset, txt, repr(v * 1.5 + 0.25), "float", f))
            if isinstance(ch, ast.Compare) and len(ch.ops) == 1 and type(ch.ops[0]) in CMP and ch.lineno == ch.end_lineno:
                l, r = ch.left, ch.comparators[0]
                if l.end_lineno == r.lineno == ch.lineno:
                    seg = lines[ch.lineno - 1][l.end_col_offset:r.col_offset]
                    op = CMPTXT[type(ch.ops[0])]
                    if seg.count(op) == 1 and seg.strip().strip("()") == op:
                        k = l.end_col_offset + seg.index(op)
                        out.append((ch.lineno, k, k + len(op), op, CMP[type(ch.ops[0])], "cmp", f))
            if isinstance(ch, ast.BinOp) and type(ch.op) in BIN:
                l, r = ch.left, ch.right
                if l.end_lineno == r.lineno:
                    seg = lines[l.end_lineno - 1][l.end_col_offset:r.col_offset]
                    op, new = BIN[type(ch.op)]
                    if seg.strip().strip("()") == op and seg.count(op) == 1:
                        k = l.end_col_offset + seg.index(op)
                        out.append((l.end_lineno, k, k + 1, op, new, "arith", f))
            walk(ch, f)
    walk(tree, "")
    return out


def run_one(workdir: Path, mod: str, site, translators):
    line, c0, c1, old, new, kind, fn = site
    tgt = workdir / "src" / "grid" / Path(mod).name
    assert str(tgt.resolve()).startswith("/var/tmp/grid-sens-"), tgt
    orig = (REPO_SRC / mod).read_text()
    ls = orig.split("\n")
    assert ls[line - 1][c0:c1] == old, (mod, site, ls[line - 1][c0:c1])
    ls[line - 1] = ls[line - 1][:c0] + new + ls[line - 1][c1:]
    tgt.write_text("\n".join(ls))
    try:
        code = ("import importlib,json,sys\nres={}\n"
                f"for g in {translators!r}:\n"
                "    try:\n"
                "        ch,_=importlib.import_module('harness.translate.'+g).generate(); res[g]='changed' if ch else 'same'\n"
                "    except BaseException as e:\n"
                "        res[g]='error'\n"
                "print('@@'+json.dumps(res))\n")
        env = dict(os.environ, GRID_REPO=str(workdir), PYTHONPATH=str(workdir / "src"), GRID_VERIF_GEN_DRYRUN="1", OMP_NUM_THREADS="1",
                   OPENBLAS_NUM_THREADS="1", PYTHONDONTWRITEBYTECODE="1")
        p = subprocess.run(["/venv/bin/python", "-c", code], cwd="/verif", env=env, capture_output=True, text=True, timeout=600)
        for l in p.stdout.splitlines():
            if l.startswith("@@"):
                return json.loads(l[2:])
        return {"_driver": "error:" + (p.stderr[-300:])}
    finally:
        tgt.write_text(orig)


def main(argv):
    jobs = 6
    mods = []
    skip_eff = False
    it = iter(argv)
    for a in it:
        if a == "--jobs":
            jobs = int(next(it))
        elif a == "--skip-effects":
            skip_eff = True
        else:
            mods.append(Path(a).name)        # module NAME only: an absolute path would escape the scratch copy
    if not mods:
        mods = sorted(p.name for p in REPO_SRC.glob("*.py") if p.name not in ("__init__.py", "_version.py"))
    translators = [t for t in TRANSLATORS if not (skip_eff and t == "effects")]
    base = Path(f"/var/tmp/grid-sens-{os.getpid()}")
    todo = [(m, s) for m in mods for s in sites(REPO_SRC / m)]
    print(f"{len(todo)} sites in {len(mods)} modules, {len(translators)} translators, {jobs} jobs", flush=True)
    works = []
    for j in range(jobs):
        w = base / f"w{j}"
        (w / "src").mkdir(parents=True)
        shutil.copytree(REPO_SRC, w / "src" / "grid", ignore=shutil.ignore_patterns("tests", "__pycache__"))
        works.append(w)
    # baseline: which translators are 'same' on the untouched copy (must be all)
    results = []
    try:
        import queue
        q = queue.Queue()
        for w in works:
            q.put(w)

        def job(ms):
            w = q.get()
            try:
                return ms, run_one(w, ms[0], ms[1], translators)
            finally:
                q.put(w)
        with ThreadPoolExecutor(jobs) as ex:
            for k, (ms, res) in enumerate(ex.map(job, todo)):
                results.append((ms, res))
                if k % 50 == 49:
                    print(f"  … {k + 1}/{len(todo)}", flush=True)
    finally:
        shutil.rmtree(base, ignore_errors=True)
    carried = unc = 0
    bykind = {}
    print("\nNOT carried by any translator (except possibly `effects`):")
    for (m, s), res in results:
        hit = [g for g, v in res.items() if v != "same" and g != "effects"]
        kind = s[5]
        bykind.setdefault(kind, [0, 0])
        if hit:
            carried += 1
            bykind[kind][0] += 1
        else:
            unc += 1
            bykind[kind][1] += 1
            print(f"  {m}:{s[0]}:{s[1]} [{kind}] {s[3]!r}->{s[4]!r} in {s[6]}  effects={res.get('effects', '-')}")
    print(f"\ncarried {carried}, not carried {unc}; by kind (carried, not): {bykind}")
    Path("/var/tmp/grid-sens-last.json").write_text(json.dumps([[m, list(s), r] for (m, s), r in results]))


if __name__ == "__main__":
    main(sys.argv[1:])

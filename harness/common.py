"""Shared plumbing of the checks: PRNG, driver line protocol, float<->bits,
evidence accumulation, failure records, known-findings matching.

Everything here runs with /venv/bin/python (numpy, scipy, sympy, mpmath and the
editable `grid` package from /repo/src).
"""
from __future__ import annotations

import hashlib
import json
import os
import random
import struct
import subprocess
import sys
import time
import warnings
from pathlib import Path

warnings.filterwarnings("ignore")

VERIF = Path(__file__).resolve().parent.parent
LEAN = VERIF / "lean"
REPO = Path(os.environ.get("GRID_REPO", "/repo"))
SRC = REPO / "src" / "grid"
DRIVER_EXE = LEAN / ".lake" / "build" / "bin" / "driver"

ALLOWED_AXIOMS = {"propext", "Classical.choice", "Quot.sound"}


# ----------------------------------------------------------------------------
# floats <-> bits
# ----------------------------------------------------------------------------
def f2b(x) -> str:
    """float -> decimal string of its IEEE-754 bit pattern."""
    return str(struct.unpack(">Q", struct.pack(">d", float(x)))[0])


def b2f(s: str) -> float:
    return struct.unpack(">d", struct.pack(">Q", int(s)))[0]


def vec(xs, conv=str) -> str:
    xs = list(xs)
    return " ".join([str(len(xs))] + [conv(x) for x in xs])


def fvec(xs) -> str:
    return vec(xs, f2b)


def mat(rows, conv=str) -> str:
    rows = [list(r) for r in rows]
    c = len(rows[0]) if rows else 0
    flat = [conv(x) for r in rows for x in r]
    return " ".join([str(len(rows)), str(c)] + flat)


def fmat(rows) -> str:
    return mat(rows, f2b)


class Tokens:
    """Reader for a driver answer."""

    def __init__(self, line: str):
        self.t = line.split()
        self.i = 0

    def tok(self) -> str:
        v = self.t[self.i]
        self.i += 1
        return v

    def nat(self) -> int:
        return int(self.tok())

    def flt(self) -> float:
        return b2f(self.tok())

    def vec(self, conv=int):
        n = int(self.tok())
        return [conv(self.tok()) for _ in range(n)]

    def fvec(self):
        return self.vec(b2f)

    def fmat(self):
        r = int(self.tok())
        c = int(self.tok())
        return [[b2f(self.tok()) for _ in range(c)] for _ in range(r)]

    def done(self) -> bool:
        return self.i >= len(self.t)


def close(a: float, b: float, rtol=1e-11, atol=0.0, scale=None) -> bool:
    """|a-b| <= atol + rtol*scale, with nan==nan and inf==inf of equal sign."""
    if a != a or b != b:
        return (a != a) and (b != b)
    if a in (float("inf"), float("-inf")) or b in (float("inf"), float("-inf")):
        return a == b
    if scale is None:
        scale = max(abs(a), abs(b))
    return abs(a - b) <= atol + rtol * scale


def all_close(xs, ys, **kw) -> bool:
    xs = list(xs)
    ys = list(ys)
    return len(xs) == len(ys) and all(close(x, y, **kw) for x, y in zip(xs, ys))


# ----------------------------------------------------------------------------
# driver
# ----------------------------------------------------------------------------
class DriverError(RuntimeError):
    pass


def driver_batch(lines: list[str], timeout=600) -> list[str]:
    """Send the lines to the compiled Lean driver, one answer per line."""
    if not lines:
        return []
    exe = globals()["DRIVER_EXE"]
    if not exe.exists():
        raise DriverError(f"driver executable missing: {exe}")
    data = "\n".join(lines) + "\n"
    p = subprocess.run(
        [str(exe)], input=data.encode(), capture_output=True, timeout=timeout
    )
    if p.returncode != 0:
        raise DriverError(f"driver exited {p.returncode}: {p.stderr.decode()[:2000]}")
    out = p.stdout.decode().split("\n")
    if out and out[-1] == "":
        out.pop()
    if len(out) != len(lines):
        raise DriverError(f"driver answered {len(out)} lines for {len(lines)} ops")
    return out


# ----------------------------------------------------------------------------
# failures, context
# ----------------------------------------------------------------------------
class Failure:
    """One thing that does not check.

    kind:   'proof'  a theorem / translator / audit obligation no longer checks
            'corr'   model and implementation disagree on an input
            'oracle' the property itself fails on the implementation
    key:    stable identifier of the call site / data file / input class; used to
            match KNOWN_FINDINGS.txt (only for kind == 'oracle')
    what:   one-line description
    witness: JSON-able concrete input / history, expected vs observed
    snippet: self-contained Python that raises AssertionError iff it still fails
    """

    def __init__(self, kind, key, what, witness=None, snippet=None):
        self.kind = kind
        self.key = key
        self.what = what
        self.witness = witness
        self.snippet = snippet

    def to_json(self):
        return {
            "kind": self.kind,
            "key": self.key,
            "what": self.what,
            "witness": self.witness,
            "snippet": self.snippet,
        }


def jsonable(x):
    import numpy as np

    if isinstance(x, dict):
        return {str(k): jsonable(v) for k, v in x.items()}
    if isinstance(x, (list, tuple)):
        return [jsonable(v) for v in x]
    if isinstance(x, np.ndarray):
        return jsonable(x.tolist())
    if isinstance(x, (np.integer,)):
        return int(x)
    if isinstance(x, (np.floating,)):
        return float(x)
    if isinstance(x, (np.bool_,)):
        return bool(x)
    if isinstance(x, float):
        if x != x:
            return "nan"
        if x in (float("inf"), float("-inf")):
            return "inf" if x > 0 else "-inf"
        return x
    if isinstance(x, (int, str, bool)) or x is None:
        return x
    return repr(x)


class Ctx:
    """Per-run context handed to the property modules."""

    def __init__(self, pid: str, tier: str, seed: int):
        self.pid = pid
        self.tier = tier
        self.seed = seed
        self.rng = random.Random(f"{pid}:{seed}")
        import numpy as np

        self.np_rng = np.random.default_rng(
            int(hashlib.sha256(f"{pid}:{seed}".encode()).hexdigest()[:8], 16)
        )
        self.thorough = tier == "thorough"
        self.evaluations = 0
        self._distinct = set()
        self.samples = []
        self.distribution = {}
        self.traces = 0
        self.failures: list[Failure] = []
        self.infos: list[str] = []
        self.rule = ""
        self.extra = {}
        self.t0 = time.time()
        self.exhaustive = False
        self.deadline = None

    # -- budget helpers -------------------------------------------------------
    def n(self, quick: int, thorough: int) -> int:
        return thorough if self.thorough else quick

    # -- evidence -------------------------------------------------------------
    def count(self, case, nontrivial: bool = True, tag: str | None = None, n: int = 1):
        """Record one evaluated case (canonical JSON-able `case`)."""
        self.evaluations += n
        if tag is not None:
            self.distribution[tag] = self.distribution.get(tag, 0) + n
        if nontrivial:
            h = hashlib.blake2b(
                json.dumps(jsonable(case), sort_keys=True).encode(), digest_size=12
            ).digest()
            self._distinct.add(h)
        if len(self.samples) < 6:
            self.samples.append(jsonable(case))
        else:
            self._last = jsonable(case)

    def tagc(self, tag: str, n: int = 1):
        self.distribution[tag] = self.distribution.get(tag, 0) + n

    @property
    def distinct_nontrivial(self):
        return len(self._distinct)

    def fail(self, kind, key, what, witness=None, snippet=None):
        # keep at most a handful per (kind, key) — the first is the minimal one
        same = [f for f in self.failures if f.kind == kind and f.key == key]
        if len(same) >= 3:
            return
        self.failures.append(Failure(kind, key, what, jsonable(witness), snippet))

    def info(self, msg: str):
        self.infos.append(msg)


# ----------------------------------------------------------------------------
# known findings
# ----------------------------------------------------------------------------
def load_known_findings(pid: str):
    """-> (findings: {key: text}, fixed: [text])"""
    findings, fixed = {}, []
    p = VERIF / "KNOWN_FINDINGS.txt"
    if not p.exists():
        return findings, fixed
    for line in p.read_text().splitlines():
        line = line.strip()
        if not line or line.startswith("#"):
            continue
        if line.startswith("finding:"):
            body = line[len("finding:"):].strip()
            head, _, text = body.partition("::")
            fields = dict(kv.split("=", 1) for kv in head.split() if "=" in kv)
            if fields.get("property") == pid and "key" in fields:
                findings[fields["key"]] = text.strip()
        elif line.startswith("fixed:"):
            body = line[len("fixed:"):].strip()
            if f"property={pid}" in body.split():
                fixed.append(body)
    return findings, fixed


def repo_python_snippet_header() -> str:
    return (
        "import warnings; warnings.filterwarnings('ignore')\n"
        "import numpy as np\n"
    )

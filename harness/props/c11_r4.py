"""C11, fourth round (AGENT_ROUND4.md): classes 14–20 and the crash-proof structure of the oracle.

  * `Guard`           independent parts / cases: an exception in one is recorded (a `…:raises` failure when the library
                      raised, otherwise the first harness exception is re-raised after all parts have run) and never
                      hides what the other parts find;
  * `part_sparse`     sparse grids (1–3 points per cell, and every shape triple (N, dim, K) with sizes 1 and 2) with small
                      spheres next to faces / edges / corners of the cell whose only contents come from neighbouring
                      cells — in every run, deterministic count (class 20 + the two stored changes C11-e / C11-f);
  * `part_held`       (14) dtype / layout of the arrays the grid object holds: constructor and setters with integer, bool,
                      float32, read-only, strided, negative-stride, Fortran-ordered arrays, kinds changing between
                      constructor and setter, lattice vectors of those layouts; the float64 computation is the reference;
  * `part_forms`      (15) every call form of the constructor and of `get_localgrid` (positional / keyword, omitted /
                      `None` / explicit default) gives the observations of the canonical form;
  * `part_shared`     (16) one array object used for several requests (two grids on one points / weights / lattice
                      array, the centre a view into the points array or into a larger caller array, the same centre
                      object for several queries): answers from pristine copies, arguments and the bytes around a
                      view unchanged;
  * `part_values`     (17) value kinds of the weights the local grid carries (complex128/64, longdouble, float16);
  * `part_raises`     (18) a call that raises leaves no trace: later accepted calls equal those on a fresh object;
  * `part_illcond`    (19) where the consumed pseudo-inverse / plane spacings are extreme: cells with an angle of
                      1e-2 … 1e-6 rad between two lattice vectors (condition number up to 2e6; measured accurate up to
                      2e8 on the pinned tree), exact integer reference.
"""
import itertools
import math
import traceback
import warnings

import numpy as np

from . import c11_r3 as r3


# ----------------------------------------------------------------------------
# crash-proof structure
# ----------------------------------------------------------------------------
class Guard:
    """`with guard(key, what):` around a part or a single case.  An exception inside is caught:
    raised below a frame of the library (src/grid) -> `ctx.fail("oracle", key + ":raises", …)`;
    raised by the harness itself -> remembered, the first one is re-raised by `finish()` after every part has run."""

    def __init__(self, ctx, kind="oracle"):
        self.ctx, self.kind = ctx, kind
        self.first = None
        self.crashes = 0

    def __call__(self, key, what="", witness=None, snippet=None):
        return _GuardCtx(self, key, what, witness, snippet)

    def finish(self):
        if self.first is not None:
            raise self.first


class _GuardCtx:
    def __init__(self, g, key, what, witness, snippet):
        self.g, self.key, self.what, self.witness, self.snippet = g, key, what, witness, snippet

    def __enter__(self):
        return self

    def __exit__(self, et, ev, tb):
        if et is None or not issubclass(et, Exception):
            return False
        if getattr(ev, "skip_case", False):       # (the case generator gave up on this case: not an error)
            self.g.ctx.tagc("skipped-case:" + self.key)
            return True
        frames = traceback.extract_tb(tb)
        in_lib = [f for f in frames if "/grid/" in f.filename.replace("\\", "/") and "/harness/" not in f.filename]
        if in_lib:
            f = in_lib[-1]
            self.g.ctx.fail(self.g.kind, f"{self.key}:raises",
                            f"{self.what}: the library raised {et.__name__}: {str(ev)[:160]} ({f.filename.split('/')[-1]}:{f.lineno})",
                            witness=self.witness if self.witness is not None else traceback.format_exc()[-1500:], snippet=self.snippet)
        else:
            self.g.crashes += 1
            self.g.ctx.tagc("harness-exception:" + self.key)
            if self.g.first is None:
                self.g.first = ev
        return True


# ----------------------------------------------------------------------------
# arrays of another dtype / layout, with the text that rebuilds them
# ----------------------------------------------------------------------------
def _lit(a):
    a = np.asarray(a)
    if a.size == 0:
        return f"np.zeros({a.shape!r}, dtype=np.{a.dtype})"
    return f"np.array({a.tolist()!r}, dtype=np.{a.dtype})"


def dress4(rng, a, kinds=None, allow_values=True):
    """The same numbers in another dtype / memory layout -> (array, kind, python text that rebuilds it).
    float32 / int / bool change the values (rounded first); the caller reads them back from the array."""
    a = np.asarray(a, dtype=float)
    ks = kinds or (["f64"] * 2 + ["strided", "negstride", "readonly", "fortran"] + (["f32", "int", "bool"] if allow_values else []))
    return make_kind(a, rng.choice(ks), rng.choice([np.int64, np.int32]))


def make_kind(a, k, inttype=np.int64):
    """The array `a` (float64 values) as kind `k` -> (array, kind, text); a new array object on every call."""
    a = np.asarray(a, dtype=float)
    if k == "fortran" and a.ndim != 2:
        k = "negstride"
    if k == "f32":
        out = a.astype(np.float32)
        return out, k, _lit(out)
    if k == "int":
        out = np.round(a).astype(inttype)
        return out, k, _lit(out)
    if k == "bool":
        out = (np.round(a).astype(int) % 2).astype(bool)
        return out, k, _lit(out)
    if k == "strided":
        big = np.repeat(a, 2, axis=0) if a.ndim else a
        out = big[::2] if a.ndim else a
        return out, k, (f"np.repeat({_lit(a)}, 2, axis=0)[::2]" if a.ndim else _lit(a))
    if k == "negstride":
        rev = a[::-1].copy() if a.ndim else a
        return (rev[::-1] if a.ndim else a), k, (f"{_lit(rev)}[::-1]" if a.ndim else _lit(a))
    if k == "readonly":
        out = a.copy()
        out.flags.writeable = False
        return out, k, f"(lambda x: (x.setflags(write=False), x)[1])({_lit(a)})"
    if k == "fortran":
        return np.asfortranarray(a.copy()), k, f"np.asfortranarray({_lit(a)})"      # (a copy: an (n, 1) array is already Fortran-contiguous)
    return a.copy(), "f64", _lit(a)


def _near(x, y):
    """Equal up to the rounding of another summation order (operands that are views vs contiguous copies)."""
    x, y = np.asarray(x, dtype=float), np.asarray(y, dtype=float)
    return x.shape == y.shape and bool(np.all(np.abs(x - y) <= 1e-12 * (1 + np.maximum(np.abs(x), np.abs(y)))))


def _pairs(P, lg, a, d):
    return r3._pairs(P, lg, a, d)


def _lat(g, d):
    rv = np.asarray(g.realvecs, dtype=float)
    return rv.reshape(-1, d) if rv.size else np.zeros((0, d))


HIST_SNIP = """import warnings; warnings.filterwarnings('ignore')
import itertools, numpy as np
from grid.periodicgrid import PeriodicGrid
{hist}
lg = g.get_localgrid({c}, {r})    # (an exception here is the failure)
d = {d}; P = np.asarray(g.points, dtype=float).reshape(-1, d)
a = np.asarray(g.realvecs, dtype=float).reshape(-1, d)
k = len(a); b = np.linalg.pinv(a).T if k else np.zeros((0, d))
L_ = np.asarray(lg.points, dtype=float).reshape(len(lg.indices), d)
got = sorted((int(i), tuple(int(v) for v in np.rint(b @ (L_[t] - P[i])))) for t, i in enumerate(lg.indices))
c_ = np.atleast_1d(np.asarray({c}, dtype=float)); r_ = float({rf!r})
want = []       # (parent index, integer translation j) with |x_i + j.a - c| <= r, by direct enumeration (the radius is kept off every distance)
for i in range(len(P)):
    mid = np.rint(b @ (c_ - P[i])).astype(int) if k else np.zeros(0, dtype=int)
    R = [int(np.ceil(np.linalg.norm(b[t]) * r_)) + 2 for t in range(k)]
    for j in itertools.product(*[range(int(mid[t]) - R[t], int(mid[t]) + R[t] + 1) for t in range(k)]):
        if np.linalg.norm(P[i] + (np.array(j) @ a if k else 0) - c_) <= r_:
            want.append((i, tuple(int(v) for v in j)))
want.sort()      # the checker found {nwant} pair(s): {wshort!r}
amb = {amb!r}
assert sorted(set(got) - set(amb)) == sorted(set(want) - set(amb)) and len(set(got)) == len(got), f'(index, translation) pairs {{got}}, reference {{want}}'
assert np.array_equal(np.asarray(lg.weights), np.asarray(g.weights)[np.asarray(lg.indices, dtype=int)]), 'weights are not those of the parent points'
J_ = np.array([np.rint(b @ (L_[t] - P[i])) for t, i in enumerate(lg.indices)]).reshape(len(L_), k)
assert np.allclose(L_, P[np.asarray(lg.indices, dtype=int)] + J_ @ a, rtol=0, atol=1e-8 * (1 + np.abs(P).max()) + 16 * np.spacing(np.abs(L_).max() if len(L_) else 1.0)), 'stored positions are not parent point + lattice translation'
"""


class Checker:
    def __init__(self, ctx, M):
        self.ctx, self.M = ctx, M
        self.PG = M["periodicgrid"].PeriodicGrid
        self.LG = M["basegrid"].LocalGrid

    def query(self, g, d, oned, hist, c, r, want, amb, key, what, cobj=None, robj=None, call=None):
        """One query against a reference enumeration (`hist`: python lines that rebuild `g`).  -> local grid or None"""
        from .c10 import _descr
        ctx = self.ctx
        a = _lat(g, d)
        P = np.asarray(g.points, dtype=float).reshape(-1, d)
        cobj = (float(c[0]) if oned else c) if cobj is None else cobj
        robj = r if robj is None else robj
        snippet = HIST_SNIP.format(hist="\n".join(hist), c=_descr(cobj), r=_descr(robj), rf=float(r), d=d, nwant=len(want), wshort=want[:6], amb=amb)
        wit = dict(history=list(hist), center=np.asarray(c).tolist(), radius=float(r), expected=want[:40])
        try:
            with warnings.catch_warnings():
                warnings.simplefilter("ignore")
                c_keep = np.array(cobj, copy=True)
                lg = call(g, cobj, robj) if call else g.get_localgrid(cobj, robj)
            if not np.array_equal(c_keep, np.asarray(cobj)):
                ctx.fail("oracle", "periodicgrid.get_localgrid:caller-array", f"{what}: get_localgrid changed the caller's centre array from {c_keep.tolist()} to {np.asarray(cobj).tolist()}",
                         witness=wit, snippet="\n".join(HIST_SNIP.format(hist="\n".join(hist), c="c_", r=_descr(robj), rf=float(r), d=d, nwant=0, wshort=[], amb=amb).split("\n")[:3]) + "\n" + "\n".join(hist)
                         + f"\nc_ = {_descr(c_keep)}; c0_ = c_.copy()\ng.get_localgrid(c_, {_descr(robj)})\nassert np.array_equal(c_, c0_), 'the centre array of the caller was changed'\n")
                if isinstance(cobj, np.ndarray) and cobj.flags.writeable:
                    cobj[...] = c_keep
        except Exception as e:  # noqa: BLE001
            ctx.fail("oracle", f"periodicgrid.get_localgrid:{'empty' if not want else 'raises'}:{key}",
                     f"{what}: get_localgrid(center={np.asarray(c).tolist()}, radius={r!r}) raised {type(e).__name__}: {str(e)[:80]}; "
                     f"{len(want)} image(s) lie inside the sphere", witness=dict(wit, raised=repr(e)), snippet=snippet)
            return None
        got, ok = _pairs(P, lg, a, d)
        amb_s = set(amb)
        g1, w1 = sorted(set(got) - amb_s), sorted(set(want) - amb_s)
        vals_ok = ok and isinstance(lg, self.LG) and np.array_equal(np.asarray(lg.weights), np.asarray(g.weights)[np.asarray(lg.indices, dtype=int)])
        if g1 != w1 or len(set(got)) != len(got) or not vals_ok:
            sub = "duplicate" if len(set(got)) != len(got) else ("images" if g1 != w1 else "values")
            miss, extra = sorted(set(w1) - set(g1))[:4], sorted(set(g1) - set(w1))[:4]
            ctx.fail("oracle", f"periodicgrid.get_localgrid:{sub}:{key}",
                     f"{what}: get_localgrid(center={np.asarray(c).tolist()}, radius={r!r}): {len(got)} (index, translation) pairs, "
                     f"reference {len(want)}; missing {miss}, spurious {extra}", witness=dict(wit, got=got[:60]), snippet=snippet)
        return lg


# ----------------------------------------------------------------------------
# sparse grids, spheres next to faces / edges / corners  (also used by the correspondence)
# ----------------------------------------------------------------------------
def args_sparse(rng, lattice, N=None, d=None, k=None, oned=None):
    """1–3 (or N) points hugging some faces of the cell, and query spheres on the other side of those faces: inside the
    cell (or an integer translate of it), small, holding only images that come from neighbouring cells.
    -> args dict (as periodic_args) with `queries`: list of (centre (d,), radius)."""
    if oned is None:
        oned = rng.random() < 0.2
    d = 1 if oned else (d or rng.choice([1, 2, 2, 3, 3]))
    k = 1 if oned else (k or rng.randint(1, d))
    N = N or rng.choice([1, 1, 2, 3])
    for _ in range(100):
        rv = lattice(rng, d, k, oned)
        A = np.asarray(rv, dtype=float).reshape(k, d)
        b = np.linalg.pinv(A).T
        # moderately anisotropic cells only: the spheres are ~0.15 lattice lengths, the image box stays small
        if len(A) == k and np.all(np.isfinite(b)) and float(np.linalg.norm(A, axis=1).max() * np.linalg.norm(b, axis=1).max()) <= 8.0:
            break
    scale = float(np.linalg.norm(A, axis=1).min())
    smin = 1.0 / float(np.linalg.norm(b, axis=1).max())
    ndir = rng.randint(1, k)
    dirs = rng.sample(range(k), ndir)
    side = {t: rng.choice([0, 1]) for t in dirs}
    fr = np.zeros((N, k))
    for i in range(N):
        for t in range(k):
            if t in dirs and (i == 0 or rng.random() < 0.6):
                u = rng.uniform(0.03, 0.1)
                fr[i, t] = 1 - u if side[t] else u
            else:
                fr[i, t] = rng.uniform(0.3, 0.7)
    # the component off the lattice span (K < dim)
    if k < d:
        Q = np.linalg.svd(A)[2][k:]             # orthonormal basis of the complement
        perp = np.array([[rng.uniform(-0.3, 0.3) for _ in range(d - k)] for _ in range(N)]) @ Q * scale
    else:
        perp = np.zeros((N, d))
    pts = fr @ A + perp
    queries = []
    for _q in range(3):
        i0 = 0 if _q == 0 else rng.randrange(N)
        cf = fr[i0].copy()
        for t in range(k):
            if t in dirs:
                v = rng.uniform(0.02, 0.08)
                cf[t] = v if fr[i0, t] > 0.5 else 1 - v          # the other side of the face the point hugs
            else:
                cf[t] += rng.uniform(-0.05, 0.05)
        jshift = np.array([rng.choice([0, 0, 0, 1, -2]) for _ in range(k)]) if rng.random() < 0.3 else np.zeros(k)
        c = (cf + jshift) @ A + perp[i0] + (np.array([rng.uniform(-0.03, 0.03) for _ in range(d)]) * smin if k < d else 0.0)
        # the nearest image of the point across the face(s)
        jn = np.array([(-1.0 if fr[i0, t] > 0.5 else 1.0) if t in dirs else 0.0 for t in range(k)]) + jshift
        dist = float(np.linalg.norm(pts[i0] + jn @ A - c))
        r = dist * rng.uniform(1.1, 1.7)
        queries.append((np.asarray(c, dtype=float).reshape(d), float(r)))
    w = np.array([rng.choice([1.0, 0.5, rng.uniform(0.1, 2)]) for _ in range(N)])
    return dict(points=pts[:, 0] if oned else pts, weights=w, realvecs=rv, wrap=rng.random() < 0.4, oned=oned, d=d, k=k, spread="sparse",
                dress=[], rtol=1e-11, r3="sparse:" + {1: "face", 2: "edge", 3: "corner"}[ndir], exact=False, queries=queries)


def part_sparse(ctx, G, ck, lattice, mult):
    """Deterministic sweep over every shape triple (N points, dim, K lattice vectors) — N in {1, 2, 3, 5}, all
    pairs of sizes different or equal, sizes 1 and 2 included — with small spheres next to faces / edges / corners."""
    from .c10 import _descr
    rng = ctx.rng
    combos = [(N, d, k, False) for N in (1, 2, 3, 5) for d in (1, 2, 3) for k in range(1, d + 1)] + [(N, 1, 1, True) for N in (1, 2, 3, 5)]
    for rep in range(4 * mult):
        for (N, d, k, oned) in combos:
            with G("periodicgrid.get_localgrid:sparse", f"sparse grid N={N} dim={d} K={k}"):
                args = args_sparse(rng, lattice, N=N, d=d, k=k, oned=oned)
                hist = [f"g = PeriodicGrid({_lit(args['points'])}, {_lit(args['weights'])}, {_lit(np.asarray(args['realvecs']))}, wrap={args['wrap']})"]
                with warnings.catch_warnings():
                    warnings.simplefilter("ignore")
                    g = ck.PG(np.array(args["points"]), np.array(args["weights"]), np.array(args["realvecs"]), wrap=args["wrap"])
                a = _lat(g, d)
                P = np.asarray(g.points, dtype=float).reshape(-1, d)
                for (c, r) in args["queries"]:
                    want, r = r3.brute_np(P, a, c, r)
                    only_nb = bool(want) and all(any(j) for _, j in want)
                    ctx.count(["sparse", N, d, k, oned, args["r3"], len(want), only_nb], nontrivial=bool(want),
                              tag="oracle:r4:" + args["r3"] + (":neighbour-only" if only_nb else (":empty" if not want else ":mixed")))
                    ctx.tagc(f"oracle:r4:shape:N{N}:d{d}:K{k}" + (":flat" if oned else ""))
                    ck.query(g, d, oned, hist, c, r, want, [], "sparse", f"sparse grid (N={N}, dim {d}, {k} lattice vector(s), wrap={args['wrap']}), "
                             f"sphere next to a {args['r3'].split(':')[1]} of the cell ({'only images from neighbouring cells' if only_nb else 'mixed'})")
                    hist = hist + [f"g.get_localgrid({_descr(float(c[0]) if oned else c)}, {r!r})"]


# ----------------------------------------------------------------------------
# (14) dtype / layout of the arrays held by the object
# ----------------------------------------------------------------------------
def part_held(ctx, G, ck, base_args, lattice, mult):
    from .c10 import _descr
    rng = ctx.rng
    for _ in range(50 * mult):
        with G("periodicgrid.get_localgrid:held", "arrays of another dtype / layout held by the grid"):
            args = base_args(rng)
            if args["rtol"] != 1e-11 or args["realvecs"] is None:
                continue
            d, oned, k = args["d"], args["oned"], args["k"]
            p0 = np.asarray(args["points"], dtype=float)
            A0 = np.asarray(args["realvecs"], dtype=float)
            # integral / bool values sit on cell faces of integral cells: value-changing kinds only with a generic lattice
            generic = k == 0 or not np.any(np.abs(A0 * 8 - np.rint(A0 * 8)) < 1e-9)
            pts, kp, tp = dress4(rng, p0, allow_values=generic)
            P0 = np.asarray(pts, dtype=float).reshape(len(pts), -1)
            if k and kp in ("int", "bool", "f32"):
                fr = P0 @ np.linalg.pinv(A0.reshape(k, d))
                if np.any((np.abs(fr - np.rint(fr)) < 1e-6) & P0.any(axis=1)[:, None]) or len({tuple(x) for x in P0.tolist()}) < len(P0):
                    pts, kp, tp = dress4(rng, p0, allow_values=False)
            w, kw, tw = dress4(rng, args["weights"], kinds=["f64", "f32", "int", "bool", "strided", "negstride", "readonly"])
            rv, kr, tr = dress4(rng, A0, kinds=["f64", "strided", "negstride", "readonly", "fortran"]) if A0.size else (A0, "f64", _lit(A0))
            if oned and A0.size:
                rv, kr, tr = dress4(rng, A0, kinds=["f64", "readonly"])
            hist = [f"g = PeriodicGrid({tp}, {tw}, {tr}, wrap={args['wrap']})"]
            pin = np.array(pts, copy=True)
            try:
                with warnings.catch_warnings():
                    warnings.simplefilter("ignore")
                    g = ck.PG(pts, w, rv, wrap=args["wrap"])
            except Exception as e:  # noqa: BLE001
                ctx.fail("oracle", "periodicgrid.__init__:raises:held", f"PeriodicGrid(points [{kp}], weights [{kw}], realvecs [{kr}]) raised {type(e).__name__}: {str(e)[:90]}",
                         witness={"history": hist}, snippet="import numpy as np\nfrom grid.periodicgrid import PeriodicGrid\n" + hist[0] + "\n")
                continue
            if not np.array_equal(pin, pts):
                ctx.fail("oracle", "periodicgrid.__init__:caller-array", f"the constructor modified the caller's points array (kind {kp})", witness={"history": hist})
            a = _lat(g, d)
            scale = float(np.linalg.norm(a, axis=1).min()) if k else 1.0
            b = np.linalg.pinv(a).T if k else np.zeros((0, d))

            def one_query(tag):
                P = np.asarray(g.points, dtype=float).reshape(-1, d)
                x = P[rng.randrange(len(P))]
                c = x + np.array([rng.uniform(-0.4, 0.4) for _ in range(d)]) * scale
                if k and rng.random() < 0.4:
                    c = c + np.array([rng.choice([-2, -1, 1, 3]) for _ in range(k)]) @ a
                r = rng.choice([0.05, 0.3, 0.8, 1.3, 1.7]) * scale
                if k:
                    r = min(r, 10.0 / float(np.linalg.norm(b, axis=1).max()))
                want, r = r3.brute_np(P, a, c, r, scale=scale)
                ctx.count(["held", kp, kw, kr, tag, d, k], nontrivial=True, tag=f"oracle:r4:held:{tag}")
                ck.query(g, d, oned, hist, c, r, want, [], "held", f"arrays held by the grid: points [{kp}], weights [{kw}], realvecs [{kr}], after {tag}")
                hist.append(f"g.get_localgrid({_descr(float(c[0]) if oned else c)}, {r!r})")
            ctx.tagc("oracle:r4:held:points:" + kp)
            ctx.tagc("oracle:r4:held:realvecs:" + kr)
            one_query("constructor")
            # setter with another kind (the kind held changes)
            old = np.asarray(g.points, dtype=float)
            new0 = old + (np.array([rng.choice([-5, -1, 2, 6]) for _ in range(k)]) @ a).reshape(old.shape[1:] if not oned else ()) if k and rng.random() < 0.5 \
                else old + np.array([rng.uniform(-1.5, 1.5) for _ in range(old.size)]).reshape(old.shape)
            new, kn, tn = dress4(rng, new0, allow_values=generic)
            if k and kn in ("int", "bool", "f32"):
                N0 = np.asarray(new, dtype=float).reshape(len(new), -1)
                fr = N0 @ np.linalg.pinv(a)
                if np.any((np.abs(fr - np.rint(fr)) < 1e-6) & N0.any(axis=1)[:, None]) or len({tuple(x) for x in N0.tolist()}) < len(N0):
                    new, kn, tn = dress4(rng, new0, allow_values=False)
            g.points = new
            hist.append(f"g.points = {tn}")
            ctx.tagc("oracle:r4:held:setter:" + kp + "->" + kn)
            if not np.array_equal(np.asarray(g.points, dtype=float), np.asarray(new, dtype=float)):
                ctx.fail("oracle", "periodicgrid.points:held", f"after `g.points = <{kn} array>` on a grid holding {kp} points the grid does not hold the values given "
                         f"(holds {np.asarray(g.points).tolist()}, given {np.asarray(new).tolist()})", witness={"history": hist},
                         snippet="import warnings; warnings.filterwarnings('ignore')\nimport numpy as np\nfrom grid.periodicgrid import PeriodicGrid\n" + "\n".join(hist)
                         + f"\nassert np.array_equal(np.asarray(g.points, dtype=float), np.asarray({tn}, dtype=float)), 'the grid does not hold the points given'\n")
            one_query("points-setter")
            w2, kw2, tw2 = dress4(rng, [rng.uniform(-2, 2) for _ in range(len(w))], kinds=["f64", "f32", "int", "bool", "strided", "negstride", "readonly"])
            g.weights = w2
            hist.append(f"g.weights = {tw2}")
            one_query("weights-setter")
            # selection of such a grid
            n = len(w)
            if n >= 2:
                sl = rng.choice([slice(0, n, 2), slice(None, None, -1), slice(1, None)])
                with warnings.catch_warnings():
                    warnings.simplefilter("ignore")
                    sub = g[sl]
                hist.append(f"g = g[{sl!r}]")
                g_parent, g = g, sub
                if not np.array_equal(np.asarray(sub.points, dtype=float), np.asarray(g_parent.points, dtype=float)[sl]):
                    ctx.fail("oracle", "periodicgrid.__getitem__:held", f"g[{sl}] does not hold the selected points (kinds {kn})", witness={"history": hist},
                             snippet="import warnings; warnings.filterwarnings('ignore')\nimport numpy as np\nfrom grid.periodicgrid import PeriodicGrid\n" + "\n".join(hist[:-1])
                             + f"\nassert np.array_equal(np.asarray(g[{sl!r}].points, dtype=float), np.asarray(g.points, dtype=float)[{sl!r}]), 'the selection does not hold the selected points'\n")
                one_query("getitem")


# ----------------------------------------------------------------------------
# (15) call forms
# ----------------------------------------------------------------------------
CTOR_FORMS = [
    ("positional", lambda PG, p, w, rv, wrap: PG(p, w, rv, wrap), "PeriodicGrid(p, w, rv, {wrap})"),
    ("wrap-keyword", lambda PG, p, w, rv, wrap: PG(p, w, rv, wrap=wrap), "PeriodicGrid(p, w, rv, wrap={wrap})"),
    ("realvecs-keyword", lambda PG, p, w, rv, wrap: PG(p, w, realvecs=rv, wrap=wrap), "PeriodicGrid(p, w, realvecs=rv, wrap={wrap})"),
    ("all-keywords", lambda PG, p, w, rv, wrap: PG(points=p, weights=w, realvecs=rv, wrap=wrap), "PeriodicGrid(points=p, weights=w, realvecs=rv, wrap={wrap})"),
    ("keywords-reordered", lambda PG, p, w, rv, wrap: PG(wrap=wrap, realvecs=rv, weights=w, points=p), "PeriodicGrid(wrap={wrap}, realvecs=rv, weights=w, points=p)"),
]
CTOR_FORMS_NOWRAP = [      # only when wrap is False: the default omitted
    ("wrap-omitted", lambda PG, p, w, rv: PG(p, w, rv), "PeriodicGrid(p, w, rv)"),
    ("wrap-omitted-keyword", lambda PG, p, w, rv: PG(p, w, realvecs=rv), "PeriodicGrid(p, w, realvecs=rv)"),
]
CTOR_FORMS_NOLAT = [       # only without lattice vectors: realvecs omitted / None / the explicit empty array
    ("realvecs-omitted", lambda PG, p, w, wrap: PG(p, w, wrap=wrap), "PeriodicGrid(p, w, wrap={wrap})"),
    ("realvecs-None", lambda PG, p, w, wrap: PG(p, w, None, wrap), "PeriodicGrid(p, w, None, {wrap})"),
    ("realvecs-None-keyword", lambda PG, p, w, wrap: PG(p, w, realvecs=None, wrap=wrap), "PeriodicGrid(p, w, realvecs=None, wrap={wrap})"),
    ("realvecs-empty", lambda PG, p, w, wrap: PG(p, w, np.zeros((0,) + p.shape[1:]), wrap), "PeriodicGrid(p, w, np.zeros((0,) + p.shape[1:]), {wrap})"),
]
QUERY_FORMS = [
    ("positional", lambda g, c, r: g.get_localgrid(c, r), "g.get_localgrid(c, r)"),
    ("keywords", lambda g, c, r: g.get_localgrid(center=c, radius=r), "g.get_localgrid(center=c, radius=r)"),
    ("radius-keyword", lambda g, c, r: g.get_localgrid(c, radius=r), "g.get_localgrid(c, radius=r)"),
    ("keywords-reordered", lambda g, c, r: g.get_localgrid(radius=r, center=c), "g.get_localgrid(radius=r, center=c)"),
]


def part_forms(ctx, G, ck, base_args, mult):
    rng = ctx.rng

    def obs_ctor(g):
        return [np.array(g.points), np.array(g.weights), np.array(g.realvecs), np.array(g.recivecs), np.array(g.spacings), np.array(g.frac_intvls)]

    def obs_lg(lg):
        return [np.array(lg.points), np.array(lg.weights), np.array(lg.indices), np.array(lg.center)]

    def same(x, y):
        return len(x) == len(y) and all(u.shape == v.shape and u.dtype == v.dtype and np.array_equal(u, v) for u, v in zip(x, y))

    for _ in range(30 * mult):
        with G("periodicgrid:call-forms", "call forms"):
            args = base_args(rng)
            d, oned, k = args["d"], args["oned"], args["k"]
            p, w = np.array(args["points"]), np.array(args["weights"])
            rv = None if args["realvecs"] is None else np.array(args["realvecs"])
            wrap = args["wrap"]
            wrapv = rng.choice([wrap, wrap, np.bool_(wrap), int(wrap)])     # a truthy / falsy value of another kind
            prelude = (f"import warnings; warnings.filterwarnings('ignore')\nimport numpy as np\nfrom grid.periodicgrid import PeriodicGrid\n"
                       f"p = {_lit(p)}; w = {_lit(w)}; rv = {'None' if rv is None else _lit(rv)}\n")
            with warnings.catch_warnings():
                warnings.simplefilter("ignore")
                rv_c = np.zeros((0,) + p.shape[1:]) if rv is None else rv
                ref = ck.PG(p.copy(), w.copy(), rv_c.copy(), wrap=bool(wrap))
                forms = [(n, (lambda f=f: f(ck.PG, p.copy(), w.copy(), None if rv is None else rv.copy(), wrapv)), t.format(wrap=repr(wrapv))) for n, f, t in CTOR_FORMS]
                if not wrap:
                    forms += [(n, (lambda f=f: f(ck.PG, p.copy(), w.copy(), None if rv is None else rv.copy())), t) for n, f, t in CTOR_FORMS_NOWRAP]
                if rv is None or rv.size == 0:
                    forms += [(n, (lambda f=f: f(ck.PG, p.copy(), w.copy(), wrapv)), t.format(wrap=repr(wrapv))) for n, f, t in CTOR_FORMS_NOLAT]
                    if not wrap:
                        forms += [("both-omitted", lambda: ck.PG(p.copy(), w.copy()), "PeriodicGrid(p, w)")]
                # one query in every form on every object
                P = np.asarray(ref.points, dtype=float).reshape(-1, d)
                a = _lat(ref, d)
                scale = float(np.linalg.norm(a, axis=1).min()) if k else 1.0
                c = P[rng.randrange(len(P))] + np.array([rng.uniform(-0.4, 0.4) for _ in range(d)]) * scale
                r = rng.choice([0.3, 0.8, 1.3]) * scale
                if k:
                    r = min(r, 8.0 / float(np.linalg.norm(np.linalg.pinv(a).T, axis=1).max()))
                _, r = r3.brute_np(P, a, c, r, scale=scale)
                cobj = float(c[0]) if oned else c
                ctext = repr(float(c[0])) if oned else f"np.array({c.tolist()!r})"
                ref_lg = obs_lg(ref.get_localgrid(cobj, r))
                ref_c = obs_ctor(ref)
                for n, build, text in forms:
                    ctx.count(["form", n, d, k, bool(wrap)], nontrivial=True, tag="oracle:r4:form:ctor:" + n)
                    snip = prelude + f"ref = PeriodicGrid(p.copy(), w.copy(), {'np.zeros((0,) + p.shape[1:])' if rv is None else 'rv.copy()'}, wrap={bool(wrap)})\n" \
                        f"g = {text}\nfor x, y in zip((g.points, g.weights, g.recivecs, g.spacings, g.frac_intvls), (ref.points, ref.weights, ref.recivecs, ref.spacings, ref.frac_intvls)):\n" \
                        "    assert np.array_equal(x, y), 'the call form changes the grid'\n" \
                        f"c = {ctext}; r = {r!r}\n" \
                        "A, B = g.get_localgrid(c, r), ref.get_localgrid(c, r)\nassert np.array_equal(A.indices, B.indices) and np.array_equal(A.points, B.points), 'the call form changes the local grid'\n"
                    try:
                        g = build()
                    except Exception as e:  # noqa: BLE001
                        ctx.fail("oracle", "periodicgrid.__init__:call-form", f"constructor form `{text}` raised {type(e).__name__}: {str(e)[:80]} (the canonical form is accepted)",
                                 witness={"form": text, "points": p.tolist()}, snippet=snip)
                        continue
                    if not same(obs_ctor(g), ref_c):
                        ctx.fail("oracle", "periodicgrid.__init__:call-form", f"constructor form `{text}` gives another grid than `PeriodicGrid(p, w, rv, wrap={bool(wrap)})`",
                                 witness={"form": text, "points": p.tolist(), "realvecs": None if rv is None else rv.tolist()}, snippet=snip)
                        continue
                    for qn, qf, qt in QUERY_FORMS:
                        ctx.tagc("oracle:r4:form:query:" + qn)
                        try:
                            o = obs_lg(qf(g, cobj, r))
                        except Exception as e:  # noqa: BLE001
                            o = [np.array(repr(e))]
                        if not same(o, ref_lg):
                            ctx.fail("oracle", "periodicgrid.get_localgrid:call-form", f"`{qt}` on the grid built by `{text}` differs from `g.get_localgrid(c, r)` on the canonical grid",
                                     witness={"form": text, "query": qt, "center": c.tolist(), "radius": r},
                                     snippet=prelude + f"g = {text}\nc = {ctext}; r = {r!r}\nA = {qt}\nB = g.get_localgrid(c, r)\n"
                                     "assert np.array_equal(A.indices, B.indices) and np.array_equal(A.points, B.points) and np.array_equal(A.weights, B.weights)\n")


# ----------------------------------------------------------------------------
# (16) one argument object used for several requests
# ----------------------------------------------------------------------------
def part_shared(ctx, G, ck, base_args, mult):
    rng = ctx.rng
    for _ in range(30 * mult):
        with G("periodicgrid:shared-arguments", "one array object used for several requests"):
            args = base_args(rng)
            if args["rtol"] != 1e-11 or args["realvecs"] is None or args["k"] == 0:
                continue
            d, oned, k = args["d"], args["oned"], args["k"]
            p0 = np.asarray(args["points"], dtype=float)
            n = len(p0)
            # the caller's arrays are views into larger arrays (padding 99.0 all around)
            if oned:
                bigp = np.full(n + 4, 99.0)
                bigp[2:-2] = p0
                pview = bigp[2:-2]
            else:
                bigp = np.full((n + 2, d + 2), 99.0)
                bigp[1:-1, 1:-1] = p0
                pview = bigp[1:-1, 1:-1]
            bigw = np.full(2 * n + 3, 99.0)
            bigw[1:2 * n + 1:2] = np.asarray(args["weights"], dtype=float)
            wview = bigw[1:2 * n + 1:2]
            rv0 = np.asarray(args["realvecs"], dtype=float)
            bigr = np.full((k + 2, d + 2), 99.0) if not oned else np.full(3, 99.0)
            if oned:
                bigr[1:2] = rv0
                rview = bigr[1:2]
            else:
                bigr[1:-1, 1:-1] = rv0
                rview = bigr[1:-1, 1:-1]
            keep = [bigp.copy(), bigw.copy(), bigr.copy()]
            text = (f"import warnings; warnings.filterwarnings('ignore')\nimport numpy as np\nfrom grid.periodicgrid import PeriodicGrid\n"
                    f"bigp = {_lit(bigp)}; bigw = {_lit(bigw)}; bigr = {_lit(bigr)}\n"
                    + ("p = bigp[2:-2]; rv = bigr[1:2]\n" if oned else "p = bigp[1:-1, 1:-1]; rv = bigr[1:-1, 1:-1]\n") + f"w = bigw[1:{2 * n + 1}:2]\n"
                    "keep = [bigp.copy(), bigw.copy(), bigr.copy()]\n")
            with warnings.catch_warnings():
                warnings.simplefilter("ignore")
                # three grids on the same three array objects; references on pristine copies
                grids = [ck.PG(pview, wview, rview, wrap=wr) for wr in (True, False, True)]
                refs = [ck.PG(p0.copy(), np.array(args["weights"], dtype=float), rv0.copy(), wrap=wr) for wr in (True, False, True)]
            text += "grids = [PeriodicGrid(p, w, rv, wrap=wr) for wr in (True, False, True)]\n" \
                    "refs = [PeriodicGrid(p.copy(), w.copy(), rv.copy(), wrap=wr) for wr in (True, False, True)]\n"
            ctx.count(["shared", d, k, n], nontrivial=True, tag="oracle:r4:shared:three-grids")
            bad = None
            for gi, (g, rf) in enumerate(zip(grids, refs)):
                if not (_near(g.points, rf.points) and _near(g.frac_intvls, rf.frac_intvls) and _near(g.recivecs, rf.recivecs)):
                    bad = f"grid {gi} built on the shared arrays differs from the grid built on pristine copies"
            if not all(np.array_equal(x, y) for x, y in zip(keep, (bigp, bigw, bigr))):
                bad = "the constructor changed the caller's arrays (or the bytes around the views)"
            if bad:
                ctx.fail("oracle", "periodicgrid.__init__:shared-arguments", bad, witness={"points": p0.tolist(), "realvecs": rv0.tolist()},
                         snippet=text + "for g, rf in zip(grids, refs):\n    assert np.allclose(g.points, rf.points, rtol=1e-12, atol=1e-12) and np.allclose(g.frac_intvls, rf.frac_intvls, rtol=1e-12, atol=1e-12)\n"
                         "assert all(np.array_equal(x, y) for x, y in zip(keep, (bigp, bigw, bigr))), 'caller arrays changed'\n")
                continue
            # the same centre object — a view into the points array / the lattice array / a larger array — for several queries on several grids
            a = rv0.reshape(k, d)
            scale = float(np.linalg.norm(a, axis=1).min())
            kind = rng.choice(["row-of-points", "row-of-lattice", "view-in-larger", "view-in-larger"])
            if oned:
                kind = "view-in-larger"
            if kind == "row-of-points":
                i = rng.randrange(n)
                cobj, ctext, holder = pview[i], f"p[{i}]", None
            elif kind == "row-of-lattice":
                i = rng.randrange(k)
                cobj, ctext, holder = rview[i], f"rv[{i}]", None
            else:
                cval = p0.reshape(n, -1)[rng.randrange(n)] + np.array([rng.uniform(-0.4, 0.4) for _ in range(d)]) * scale
                if oned:
                    holder = np.full(3, 99.0)
                    holder[1] = cval[0]
                    cobj, ctext = holder[1:2].reshape(()), "holder[1:2].reshape(())"
                else:
                    holder = np.full(d + 4, 99.0)
                    holder[2:-2] = cval
                    cobj, ctext = holder[2:-2], "holder[2:-2]"
            cval = np.array(cobj, dtype=float, copy=True).reshape(d)
            hkeep = None if holder is None else holder.copy()
            r = rng.choice([0.3, 0.8, 1.3]) * scale
            r = min(r, 8.0 / float(np.linalg.norm(np.linalg.pinv(a).T, axis=1).max()))
            _, r = r3.brute_np(np.asarray(refs[1].points, dtype=float).reshape(-1, d), a, cval, r, scale=scale)
            _, r = r3.brute_np(np.asarray(refs[0].points, dtype=float).reshape(-1, d), a, cval, r, scale=scale)
            text += (f"holder = {_lit(holder)}\n" if holder is not None else "") + f"c = {ctext}; c0 = np.array(c, copy=True); r = {r!r}\n"
            ctx.tagc("oracle:r4:shared:centre:" + kind)
            msg = None
            with warnings.catch_warnings():
                warnings.simplefilter("ignore")
                for rnd in range(2):
                    for gi, (g, rf) in enumerate(zip(grids, refs)):
                        try:
                            A = g.get_localgrid(cobj, r)
                            B = rf.get_localgrid(float(cval[0]) if oned else cval.copy(), r)
                        except Exception as e:  # noqa: BLE001
                            msg = f"query {rnd} on grid {gi} raised {type(e).__name__}: {str(e)[:80]}"
                            break
                        if not (np.array_equal(A.indices, B.indices) and _near(A.points, B.points) and np.array_equal(A.weights, B.weights)):
                            msg = f"query {rnd} on grid {gi} with the shared centre object ({kind}) differs from the same query with a pristine copy of the centre"
                            break
                        if not np.array_equal(np.asarray(cobj, dtype=float).reshape(d), cval):
                            msg = f"query {rnd} on grid {gi} changed the caller's centre array ({kind})"
                            break
                    if msg:
                        break
            if msg is None and not (all(np.array_equal(x, y) for x, y in zip(keep, (bigp, bigw, bigr))) and (holder is None or np.array_equal(holder, hkeep))):
                msg = "the queries changed the caller's arrays (or the bytes around a view)"
            if msg:
                ctx.fail("oracle", "periodicgrid.get_localgrid:shared-arguments", msg, witness={"points": p0.tolist(), "realvecs": rv0.tolist(), "center": cval.tolist(), "radius": r, "kind": kind},
                         snippet=text + "for rnd in range(2):\n    for g, rf in zip(grids, refs):\n        A = g.get_localgrid(c, r); B = rf.get_localgrid(c0.copy() if c0.ndim else float(c0), r)\n"
                         "        assert np.array_equal(A.indices, B.indices) and np.allclose(A.points, B.points, rtol=1e-12, atol=1e-12) and np.array_equal(A.weights, B.weights), 'answer differs from the pristine-copy answer'\n"
                         "        assert np.array_equal(c, c0), 'the centre array was changed'\n"
                         "assert all(np.array_equal(x, y) for x, y in zip(keep, (bigp, bigw, bigr))), 'caller arrays changed'\n"
                         + ("assert np.array_equal(holder, np.array(" + repr(hkeep.tolist()) + ")), 'bytes around the centre view changed'\n" if holder is not None else ""))


# ----------------------------------------------------------------------------
# (17) value kinds of the weights carried into the local grid
# ----------------------------------------------------------------------------
def part_values(ctx, G, ck, base_args, mult):
    rng = ctx.rng
    for _ in range(12 * mult):
        with G("periodicgrid.get_localgrid:weight-kinds", "value kinds of the weights"):
            args = base_args(rng)
            if args["rtol"] != 1e-11:
                continue
            d, oned, k = args["d"], args["oned"], args["k"]
            n = len(args["weights"])
            kind = rng.choice(["complex128", "complex64", "longdouble", "float16"])
            w = (np.array([rng.uniform(-2, 2) for _ in range(n)]) + (1j * np.array([rng.uniform(-2, 2) for _ in range(n)]) if kind.startswith("complex") else 0)).astype(kind)
            with warnings.catch_warnings():
                warnings.simplefilter("ignore")
                g = ck.PG(np.array(args["points"]), w, None if args["realvecs"] is None else np.array(args["realvecs"]), wrap=args["wrap"])
                gref = ck.PG(np.array(args["points"]), np.arange(n, dtype=float), None if args["realvecs"] is None else np.array(args["realvecs"]), wrap=args["wrap"])
                P = np.asarray(g.points, dtype=float).reshape(-1, d)
                c = P[rng.randrange(n)] + np.array([rng.uniform(-0.3, 0.3) for _ in range(d)])
                cobj = float(c[0]) if oned else c
                r = rng.choice([0.5, 1.0, 1.5])
                if k:
                    r = min(r, 8.0 / float(np.linalg.norm(np.linalg.pinv(_lat(g, d)).T, axis=1).max()))
                A, B = g.get_localgrid(cobj, r), gref.get_localgrid(cobj, r)
            ctx.count(["weight-kind", kind, d, k], nontrivial=True, tag="oracle:r4:weights:" + kind)
            if not (np.array_equal(A.indices, B.indices) and np.array_equal(A.points, B.points) and A.weights.dtype == w.dtype
                    and np.array_equal(A.weights, w[np.asarray(A.indices, dtype=int)])):
                ctx.fail("oracle", "periodicgrid.get_localgrid:weight-kinds", f"weights of kind {kind}: the local grid does not carry the parent's weights unchanged "
                         f"(dtype {A.weights.dtype}) or selects other points than with float weights",
                         witness={"points": np.asarray(args["points"]).tolist(), "weights": [complex(x) for x in w.tolist()] if kind.startswith("complex") else [float(x) for x in w],
                                  "center": c.tolist(), "radius": r},
                         snippet=("import warnings; warnings.filterwarnings('ignore')\nimport numpy as np\nfrom grid.periodicgrid import PeriodicGrid\n"
                                  f"p = {_lit(np.asarray(args['points']))}; rv = {'None' if args['realvecs'] is None else _lit(np.asarray(args['realvecs']))}\n"
                                  f"w = np.array({[complex(x) for x in w.tolist()] if kind.startswith('complex') else [float(x) for x in w]!r}).astype(np.{kind})\n"
                                  f"g = PeriodicGrid(p, w, rv, wrap={args['wrap']}); c = {repr(float(c[0])) if oned else 'np.array(' + repr(c.tolist()) + ')'}\nlg = g.get_localgrid(c, {r!r})\n"
                                  "assert lg.weights.dtype == w.dtype and np.array_equal(lg.weights, w[lg.indices])\n"))


# ----------------------------------------------------------------------------
# (18) a call that raises leaves no trace
# ----------------------------------------------------------------------------
def part_raises(ctx, G, ck, base_args, mult):
    from .c10 import _descr
    rng = ctx.rng
    for _ in range(40 * mult):
        with G("periodicgrid:raise-leaves-no-trace", "a call that raises leaves no trace"):
            args = base_args(rng)
            if args["rtol"] != 1e-11:
                continue
            d, oned, k = args["d"], args["oned"], args["k"]
            p, w = np.asarray(args["points"], dtype=float), np.asarray(args["weights"], dtype=float)
            rv = None if args["realvecs"] is None else np.asarray(args["realvecs"], dtype=float)
            n = len(w)
            with warnings.catch_warnings():
                warnings.simplefilter("ignore")
                g = ck.PG(p.copy(), w.copy(), None if rv is None else rv.copy(), wrap=args["wrap"])
                fresh = ck.PG(p.copy(), w.copy(), None if rv is None else rv.copy(), wrap=args["wrap"])
            a = _lat(g, d)
            scale = float(np.linalg.norm(a, axis=1).min()) if k else 1.0
            P = np.asarray(g.points, dtype=float).reshape(-1, d)
            c = P[rng.randrange(n)] + np.array([rng.uniform(-0.4, 0.4) for _ in range(d)]) * scale
            cobj = float(c[0]) if oned else c
            r = rng.choice([0.3, 0.8, 1.3]) * scale
            if k:
                r = min(r, 8.0 / float(np.linalg.norm(np.linalg.pinv(a).T, axis=1).max()))
            hist = [f"g = PeriodicGrid({_lit(p)}, {_lit(w)}, {'None' if rv is None else _lit(rv)}, wrap={args['wrap']})"]
            if rng.random() < 0.5:
                with warnings.catch_warnings():
                    warnings.simplefilter("ignore")
                    g.get_localgrid(cobj, r)
                hist.append(f"g.get_localgrid({_descr(cobj)}, {r!r})")
            # a far-away value of the wrong length: were it used for the intervals, later boxes would be wrong
            far = (np.concatenate([P, P[:1]]) + 7.3 * (a[0] if k else 1.0))
            far = far[:, 0] if oned else far
            bads = [
                ("points-setter:wrong-length", lambda: setattr(g, "points", far), f"g.points = {_lit(far)}"),
                ("points-setter:wrong-ndim", lambda: setattr(g, "points", np.zeros((n, d, 1)) if not oned else np.zeros((n, 1))), "g.points = np.zeros(" + (f"({n}, {d}, 1)" if not oned else f"({n}, 1)") + ")"),
                ("points-setter:list", lambda: setattr(g, "points", (P[:, 0] if oned else P).tolist()), f"g.points = {(P[:, 0] if oned else P).tolist()!r}"),
                ("weights-setter:wrong-length", lambda: setattr(g, "weights", np.ones(n + 1)), f"g.weights = np.ones({n + 1})"),
                ("query:negative-radius", lambda: g.get_localgrid(cobj, -1.0), f"g.get_localgrid({_descr(cobj)}, -1.0)"),
                ("query:nan-radius", lambda: g.get_localgrid(cobj, math.nan), f"g.get_localgrid({_descr(cobj)}, np.nan)"),
                ("query:inf-radius", lambda: g.get_localgrid(cobj, math.inf), f"g.get_localgrid({_descr(cobj)}, np.inf)"),
                ("query:None-radius", lambda: g.get_localgrid(cobj, None), f"g.get_localgrid({_descr(cobj)}, None)"),
                ("query:list-radius", lambda: g.get_localgrid(cobj, [r, r]), f"g.get_localgrid({_descr(cobj)}, [{r!r}, {r!r}])"),
                ("query:centre-shape", lambda: g.get_localgrid(np.zeros(d + 1), r), f"g.get_localgrid(np.zeros({d + 1}), {r!r})"),
                ("query:nan-centre", lambda: g.get_localgrid(math.nan if oned else np.full(d, np.nan), r), f"g.get_localgrid({'np.nan' if oned else f'np.full({d}, np.nan)'}, {r!r})"),
                ("query:inf-centre", lambda: g.get_localgrid(math.inf if oned else np.full(d, np.inf), r), f"g.get_localgrid({'np.inf' if oned else f'np.full({d}, np.inf)'}, {r!r})"),
                ("getitem:out-of-range", lambda: g[n + 3], f"g[{n + 3}]"),
                ("getitem:empty", lambda: g[0:0], "g[0:0]"),
                ("getitem:float", lambda: g[0.5], "g[0.5]"),
            ]
            rng.shuffle(bads)
            for name, f, t in bads[:rng.randint(1, 3)]:
                try:
                    with warnings.catch_warnings():
                        warnings.simplefilter("ignore")
                        f()
                    raised = False
                except Exception:  # noqa: BLE001
                    raised = True
                ctx.count(["raises", name, d, k], nontrivial=True, tag="oracle:r4:raises:" + name + ("" if raised else ":accepted"))
                hist.append(("try:\n    " + t + "\nexcept Exception:\n    pass") if raised else t)
                if not raised:
                    if name.split(":")[0] == "query" and name.split(":")[1] in ("negative-radius", "nan-radius", "inf-radius", "centre-shape"):
                        ctx.fail("oracle", "periodicgrid.get_localgrid:accepts:" + name.split(":")[1], f"`{t}` was accepted", witness={"history": hist})
                    break       # (an accepted call may legitimately change the object)
            else:
                # the object after the rejected calls against a fresh one: attributes, one query, a setter + query, a selection
                msg = None
                with warnings.catch_warnings():
                    warnings.simplefilter("ignore")
                    for attr in ("points", "weights", "frac_intvls", "spacings", "recivecs"):
                        if not np.array_equal(getattr(g, attr), getattr(fresh, attr)):
                            msg = f"attribute `{attr}` differs from a fresh object's"
                    follow = []
                    if msg is None:
                        new = P + (np.array([rng.choice([-5, 2]) for _ in range(k)]) @ a if k else 0.5)
                        new = new[:, 0] if oned else new
                        steps = [("query", lambda o: o.get_localgrid(cobj, r), f"X.get_localgrid({_descr(cobj)}, {r!r})"),
                                 ("setter", lambda o: setattr(o, "points", new.copy()), f"X.points = {_lit(new)}"),
                                 ("query", lambda o: o.get_localgrid(cobj, r), f"X.get_localgrid({_descr(cobj)}, {r!r})")]
                        for sn, sf, st in steps:
                            try:
                                A = sf(g)
                            except Exception as e:  # noqa: BLE001
                                A = repr(type(e))
                            try:
                                B = sf(fresh)
                            except Exception as e:  # noqa: BLE001
                                B = repr(type(e))
                            follow.append(st)
                            eq = (A == B) if isinstance(A, str) or isinstance(B, str) or A is None else \
                                (np.array_equal(A.indices, B.indices) and np.array_equal(A.points, B.points) and np.array_equal(A.weights, B.weights))
                            if not eq:
                                msg = f"after the rejected call(s) `{st.replace('X', 'g')}` answers differently from a fresh object"
                                break
                if msg:
                    body = "\n".join(hist) + "\nfresh = " + hist[0][4:] + "\n"
                    for st in follow:
                        if "get_localgrid" in st:
                            body += f"A = {st.replace('X', 'g')}; B = {st.replace('X', 'fresh')}\nassert np.array_equal(A.indices, B.indices) and np.array_equal(A.points, B.points) and np.array_equal(A.weights, B.weights), 'differs from a fresh object'\n"
                        else:
                            body += st.replace("X", "g") + "; " + st.replace("X", "fresh") + "\n"
                    ctx.fail("oracle", "periodicgrid:raise-leaves-trace", f"{msg} (rejected: {[b for b in hist[1:] if b.startswith('try')][:3]})", witness={"history": hist},
                             snippet="import warnings; warnings.filterwarnings('ignore')\nimport numpy as np\nfrom grid.periodicgrid import PeriodicGrid\n" + body
                             + "for attr in ('points', 'weights', 'frac_intvls'):\n    assert np.array_equal(getattr(g, attr), getattr(fresh, attr)), attr + ' differs from a fresh object'\n")
    # recorded only: a points array of the right shape but a non-numeric dtype is stored before the intervals are computed
    with G("periodicgrid:raise-leaves-no-trace:non-numeric", "non-numeric setter value"):
        with warnings.catch_warnings():
            warnings.simplefilter("ignore")
            g = ck.PG(np.array([[0.25, 0.5], [1.5, 0.25]]), np.ones(2), np.array([[2.0, 0.5], [0.25, 1.0]]))
            try:
                g.points = np.array([[None, 1.0], [2.0, 3.0]], dtype=object)
                ctx.info("a points array of dtype object is accepted by the points setter")
            except Exception as e:  # noqa: BLE001
                kept = g.points.dtype != object
                ctx.info("recorded only (argument of a non-numeric dtype, outside the documented types): `g.points = np.array([[None, 1.0], [2.0, 3.0]], dtype=object)` raises "
                         f"{type(e).__name__} " + ("and leaves the grid unchanged" if kept else "AFTER the base setter stored the array: the grid keeps the rejected points "
                                                  "(frac_intvls are those of the old points)"))


# ----------------------------------------------------------------------------
# (19) ill-conditioned cells
# ----------------------------------------------------------------------------
def part_illcond(ctx, G, ck, mult):
    rng = ctx.rng
    for _ in range(16 * mult):
        with G("periodicgrid.get_localgrid:ill-conditioned", "ill-conditioned cell"):
            theta = rng.choice([1e-2, 1e-2, 1e-3, 1e-4, 1e-6])
            d = rng.choice([2, 3])
            k = rng.randint(2, d)
            Q, _ = np.linalg.qr(np.array([[rng.uniform(-1, 1) for _ in range(d)] for _ in range(d)]))
            a = np.zeros((k, d))
            a[0] = Q[0] * rng.choice([1.0, 0.7, 2.0])
            a[1] = rng.choice([1.0, -1.3]) * (math.cos(theta) * Q[0] + math.sin(theta) * Q[1])
            if k == 3:
                a[2] = Q[2] * rng.choice([1.0, 1.5]) + 0.3 * Q[0]
            n = rng.randint(1, 3)
            fr = np.array([[rng.uniform(0.05, 0.95) for _ in range(k)] for _ in range(n)])
            pts = fr @ a + (np.array([[rng.uniform(-1, 1)] for _ in range(n)]) * Q[2] if k < d else 0.0)
            wrap = rng.random() < 0.4
            hist = [f"g = PeriodicGrid({_lit(pts)}, np.ones({n}), {_lit(a)}, wrap={wrap})"]
            try:
                with warnings.catch_warnings():
                    warnings.simplefilter("ignore")
                    g = ck.PG(pts.copy(), np.ones(n), a.copy(), wrap=wrap)
            except Exception as e:  # noqa: BLE001
                ctx.fail("oracle", "periodicgrid.__init__:raises:ill-conditioned", f"cell with an angle of {theta} rad between two lattice vectors (far from eps): {type(e).__name__}: {str(e)[:80]}",
                         witness={"history": hist}, snippet="import numpy as np\nfrom grid.periodicgrid import PeriodicGrid\n" + hist[0] + "\n")
                continue
            P = np.asarray(g.points, dtype=float).reshape(-1, d)
            b = np.linalg.pinv(a).T
            smin = 1 / float(np.linalg.norm(b, axis=1).max())
            x = P[rng.randrange(n)]
            c = x + np.array([rng.randint(-2, 2) for _ in range(k)]) @ a + np.array([rng.uniform(-0.3, 0.3) for _ in range(d)]) * min(1.0, 5 * smin)
            r = min(rng.choice([0.1, 0.3, 0.6]), rng.choice([3.0, 10.0, 25.0] if k == 2 else [3.0, 6.0, 10.0]) * smin)
            want, amb = r3.exact_images(P, a, c, r, bandbits=36)
            ctx.count(["illcond", theta, d, k, len(want)], nontrivial=True, tag=f"oracle:r4:illcond:{theta:g}")
            ctx.tagc("oracle:r4:illcond:images", len(want))
            ck.query(g, d, False, hist, c, r, want, amb, "ill-conditioned", f"cell with an angle of {theta} rad between two lattice vectors (condition number ~{2 / theta:.0e}), {len(want)} images")


# ----------------------------------------------------------------------------
def oracle_r4(ctx, budget, M, base_args, lattice, G):
    ck = Checker(ctx, M)
    mult = (1 if budget == "small" else 10) * (3 if ctx.thorough else 1)
    with G("periodicgrid.get_localgrid:sparse", "sparse grids next to faces / edges / corners"):
        part_sparse(ctx, G, ck, lattice, mult)
    with G("periodicgrid.get_localgrid:held", "arrays held by the grid"):
        part_held(ctx, G, ck, base_args, lattice, mult)
    with G("periodicgrid:call-forms", "call forms"):
        part_forms(ctx, G, ck, base_args, mult)
    with G("periodicgrid:shared-arguments", "shared argument objects"):
        part_shared(ctx, G, ck, base_args, mult)
    with G("periodicgrid.get_localgrid:weight-kinds", "weight kinds"):
        part_values(ctx, G, ck, base_args, mult)
    with G("periodicgrid:raise-leaves-no-trace", "raising calls"):
        part_raises(ctx, G, ck, base_args, mult)
    with G("periodicgrid.get_localgrid:ill-conditioned", "ill-conditioned cells"):
        part_illcond(ctx, G, ck, mult)

"""C16 — Poisson solvers reproduce Coulomb potentials of Gaussian charges and are linear."""
import importlib
import json
import math
import time

import numpy as np

from ..common import SRC, Ctx, Tokens, close, driver_batch, f2b, fvec, vec

LEVEL = "exploration"
LEVEL_TEXT = (
    "The accuracy clause is about SciPy's solve_bvp / solve_ivp on the radial problems the library poses; no theorem about "
    "this repository can carry it, so it is decided by exploration: Gaussian charge combinations inside the stated "
    "resolution envelope (atomic grids, 2- and 3-centre molecular grids, off-centre Gaussians for l > 0, origin / "
    "large-point / boundary options, robust solver with exact core, with residual, with the second split; initial-value "
    "solver for spherical densities; linearity residuals) against the analytic potential sum c_i erf(sqrt(a_i)|r-R_i|)/|r-R_i|, "
    "which C17 proves to be the Coulomb potential of the normalised s-type Gaussian. What is proved (Lean, over the reals, "
    "about the text regenerated from poisson.py / robust_poisson.py on every run): the posed coefficient lists, right-hand "
    "sides, boundary and initial values; u = rV turns the boundary-value equation into the initial-value equation; the "
    "separated Laplacian with the eigenfunction hypothesis gives the posed radial equation; the boundary values are the "
    "monopole limit q/Y00 resp. 0; posed data are linear in the density and solutions superpose (linearity under "
    "uniqueness, uniqueness proved for l = 0); robust total = core potential + potential of the residual, exact when the "
    "density is the core model; the reference potential solves the posed l = 0 problem exactly. Tie to the code: translator "
    "+ interception of every call the library makes into grid.ode (mesh, right-hand side, coefficients, boundary / initial "
    "data, options) compared with the Lean model through the driver."
)
TECHNIQUE = ("exploration against a Lean-proved analytic reference (C17) + Lean 4 / Mathlib reduction lemmas about the AST-regenerated "
             "posed problems + differential correspondence by intercepting the calls into grid.ode")
GEN = ["poisson", "coulomb"]
LEAN_MODULES = ["GridVerif.Props.C16"]
THEOREMS = [
    "GridVerif.C16.posed_bvp_eq",
    "GridVerif.C16.posed_ivp_eq",
    "GridVerif.C16.bvp_value_eq",
    "GridVerif.C16.u_form_equiv",
    "GridVerif.C16.radial_poisson_of_lm",
    "GridVerif.C16.y00_normalised",
    "GridVerif.C16.boundary_value_spec",
    "GridVerif.C16.boundary_value_origin",
    "GridVerif.C16.boundary_value_higher",
    "GridVerif.C16.initial_value_spec",
    "GridVerif.C16.posed_linear",
    "GridVerif.C16.linear_combination_solves",
    "GridVerif.C16.linear_in_density",
    "GridVerif.C16.bvp_unique_monopole",
    "GridVerif.C16.bvp_solution_example",
    "GridVerif.C16.robust_fold",
    "GridVerif.C16.core_term_is_c17_density",
    "GridVerif.C16.robust_split",
    "GridVerif.C16.zero_solves_zero",
    "GridVerif.C16.robust_exact_core",
    "GridVerif.C16.robust_vs_plain",
    "GridVerif.C16.s_reference",
    "GridVerif.C16.problems_count",
    "GridVerif.C16.call_shapes",
]

# ----------------------------------------------------------------------------------------------
# thresholds and envelope (see RULE)
# ----------------------------------------------------------------------------------------------
ATOL_UNIT = 1e-2     # tests/test_poisson.py: assert_allclose(actual, desired, atol=1e-2) for a unit charge (bvp and ivp)
LINEAR_ATOL_UNIT = 1e-4   # solve_bvp default tol 1e-6 on u = rV, evaluated at r >= 0.02: 1e-6 / 0.02 = 5e-5 per unit charge, rounded up
EXACT_CORE_ATOL = 1e-6   # robust solver on its own core model: only the numerical solve of a zero residual remains (bvp tol 1e-6; observed 1e-10)

RULE = (
    "oracle (the decision): max |V_numeric - sum c_i erf(sqrt(a_i) d_i)/d_i| over 200 random points (directions uniform, distance "
    "from a random centre log-uniform in [0.02, 0.5 r_last]) must be <= 1e-2 * sum|c_i| -- the accuracy the library's tests "
    "assert for a unit charge (tests/test_poisson.py: assert_allclose(actual, desired, atol=1e-2), bvp and ivp; "
    "tests/test_robust_poisson.py asserts 1 % / 5 % relative L2 error, weaker); linearity residual "
    "|V[a r1 + b r2] - a V[r1] - b V[r2]| <= 1e-4 * (Q12 + |a| Q1 + |b| Q2), Q = sum|c_i| (the solver's default tol 1e-6 on u = rV seen "
    "at r >= 0.02; observed <= 4e-7; all observed values are written to the evidence); robust solver on its own core model <= 1e-6 (zero residual, bvp tol 1e-6; observed 1e-10). "
    "Resolution envelope, determined empirically on the pinned tree (largest error observed inside it, thorough tier: 3.6e-3, 0.17 of its threshold): radial grids "
    "G1 = GaussLegendre(n in 60..100) o BeckeRTransform(rmin 1e-5, R in 1..2) [tests' grid] and G2 = Trapezoidal(n in 60..120) o "
    "BeckeRTransform(rmin 1e-6, R, trim_inf=True) [tests' grid, first point = rmin], InverseRTransform of it as the transform, one "
    "angular degree in 11..17 (thorough: ..23); exponents 0.4 <= a <= 6 (r_last^2 a >= 40: density negligible at the last radial "
    "point); spherical case: centres on the atom, include_origin True (G1, G2) or False (G2 only: with G1 the first radial point is "
    "~1e-3 and the forced u(r_1)=0 costs r_1 V(0)/r, 2e-2..2.5e-1 near the nucleus -- the documented caveat of include_origin=False), "
    "remove_large_pts in {10..25, 1e6} and None on G1 (on G2 the last point is 1e16 and must be removed); l > 0 case: Gaussians displaced by d <= 0.5 with a d <= 2, remove_large_pts in 10..25 "
    "(the upper boundary value 0 of the dipole component costs about d r / r_last^3), include_origin False on G2 in the quick tier "
    "(with the origin in the mesh solve_bvp needs ~2e4 nodes / 20-40 s for every non-zero l >= 1 component: thorough tier only); "
    "molecular grids: 2-3 atoms 1.5..3 bohr apart, Becke weights order 3, Gaussians on the atoms, G2, include_origin False, "
    "remove_large_pts 10; outside the envelope (default remove_large_pts=1e6 with an l > 0 density on G1) solve_bvp stops with "
    "'didn't converge' -- an exception, not a wrong value. Initial-value solver: spherical densities, r_interval = (max r, min r) as in the "
    "tests, on GaussLegendre(80..150) o BeckeRTransform(0.01, 1.5) with angular degree <= 5 or on Trapezoidal(400..800) o "
    "LinearFiniteRTransform(1e-3, 50..100) with degree 7..11 (the tests' kind of grid), points at distance >= 0.05; on the Becke grid "
    "with degree >= 9 the answer is destroyed by amplified rounding noise (listed finding poisson.solve_poisson_ivp:high-l, replayed on "
    "every run). Robust solver: H or C centre on G1, density = core "
    "model (+ 0..2 smooth Gaussians 0.4 <= a <= 3), split2 False/True. "
    "correspondence (the posed problems): every call the library makes to solve_ode_bvp / solve_ode_ivp is intercepted (harness "
    "process only) on random atomic / molecular grids (radial 6..25 points, degrees 3..13, with/without r = 0, options include_origin x "
    "remove_large_pts {None, inside the mesh, 1e6} x boundary {None, float}); mesh, number and order of problems, boundary "
    "conditions / initial data, coefficient functions and right-hand side at mesh and random radii (incl. r = 0), solver options, "
    "the back-substitution (u/r, mask at r = 0) and the sum over (l, m), the per-atom slices w_A rho and the sum over atoms, the "
    "robust residual / core density / total are compared with the Lean model (driver). Non-trivial = a case with at least 4 radial "
    "problems (l_max//2 >= 1) and a non-zero density"
)
TRUSTED_BASE = [
    "Lean 4.33 kernel, Mathlib; axioms propext, Classical.choice, Quot.sound only (audited per theorem)",
    "C17 (GridVerif.C17.s_solves_poisson, s_far, s_closed_form_is_coulomb_integral): erf(sqrt(a) r)/r is the Coulomb potential of (a/pi)^{3/2} e^{-a r^2}",
    "translator harness/translate/poisson.py (AST fragments -> scalar Lean definitions); validated at Float against the intercepted callables on every run",
    "hand model Model/Poisson.lean (mesh options, (l,m) sequence, sums, slices, robust folds), tied by correspondence",
    "the separated form of the Laplacian in spherical coordinates and the eigenfunction property of Y_lm are definitions / named hypotheses, not theorems",
    "scipy.special.erf as the numerical value of the reference; SciPy solve_bvp / solve_ivp, CubicSpline, nnls are exercised, not modelled",
]
ASSUMPTIONS = [
    "the accuracy clause is an exploration result inside the stated envelope, not a theorem; thresholds are the ones the library's tests assert",
    "linearity of the numerical answer is checked as a residual; the theorem needs uniqueness of the solver's answer (proved for the exact l = 0 problem only)",
    "radial_component_splines, atomgrid.integrate, generate_real_spherical_harmonics and coulomb_potential enter the correspondence as inputs (C05/C08/C09/C17 are their properties)",
    "IEEE rounding not modelled: equality over the reals in the lemmas, rtol 1e-12 in the correspondence",
    "type checks of the options (TypeError) and shape validation are outside the model",
]

RTOL = 1e-12


# ----------------------------------------------------------------------------------------------
# self-contained case runner (also the body of every replay snippet)
# ----------------------------------------------------------------------------------------------
RUN_SRC = r'''
import warnings; warnings.filterwarnings('ignore')
import json, numpy as np
from scipy.special import erf

def _grid_parts(g):
    from grid import onedgrid, rtransform
    from grid.atomgrid import AtomGrid
    oned = getattr(onedgrid, g['oned'])(g['n'])
    if g['tf'] == 'Becke':
        tf = rtransform.BeckeRTransform(g['rmin'], R=g['R'], trim_inf=g.get('trim', False))
    else:
        tf = rtransform.LinearFiniteRTransform(g['rmin'], g['R'])
    radial = tf.transform_1d_grid(oned)
    return radial, tf, rtransform.InverseRTransform(tf), AtomGrid

def _rho(pts, gauss):
    out = np.zeros(len(pts))
    for c, a, R in gauss:
        out += c * (a / np.pi) ** 1.5 * np.exp(-a * np.sum((pts - np.asarray(R)) ** 2, axis=1))
    return out

def _ref(pts, gauss):
    """sum c erf(sqrt(a) d)/d  (2 sqrt(a/pi) at d = 0): the potential C17 proves."""
    out = np.zeros(len(pts))
    for c, a, R in gauss:
        d = np.linalg.norm(pts - np.asarray(R), axis=1)
        with np.errstate(divide='ignore', invalid='ignore'):
            v = np.where(d > 0, erf(np.sqrt(a) * d) / d, 2.0 * np.sqrt(a / np.pi))
        out += c * v
    return out

def _points(spec, centers, r_last):
    rng = np.random.default_rng(spec['pseed'])
    k = spec.get('npts', 200)
    p = rng.normal(size=(k, 3))
    p /= np.linalg.norm(p, axis=1)[:, None]
    rad = np.exp(rng.uniform(np.log(spec.get('rlo', 0.02)), np.log(0.5 * r_last), size=k))
    c = np.asarray(centers)[rng.integers(0, len(centers), size=k)]
    return c + p * rad[:, None]

def run(spec):
    """-> (observed, threshold, detail)"""
    import grid
    from grid.molgrid import MolGrid
    from grid.becke import BeckeWeights
    from grid.poisson import solve_poisson_bvp, solve_poisson_ivp
    from grid.robust_poisson import solve_poisson_robust
    np.random.seed(spec.get('npseed', 0))          # solve_ode_bvp draws its initial guess from the global state
    radial, tf, inv, AtomGrid = _grid_parts(spec['grid'])
    centers = [np.asarray(c, dtype=float) for c in spec['atoms']]
    atgrids = [AtomGrid(radial, degrees=[spec['grid']['deg']], center=c) for c in centers]
    if len(atgrids) == 1:
        mg = atgrids[0]
    else:
        mg = MolGrid(np.array([1] * len(centers)), atgrids, BeckeWeights(order=3), store=True)
    kw = dict(spec.get('options', {}))
    rl = kw.get('remove_large_pts', 1e6)
    r_last = float(np.max(radial.points)) if rl is None else min(float(np.max(radial.points)), rl)
    r_last = float(np.max(radial.points[radial.points <= r_last]))
    r_last = min(r_last, spec.get('rcap', 40.0))
    pts = _points(spec, centers, r_last)
    kind = spec['kind']
    def solve(gauss):
        vals = _rho(mg.points, gauss)
        if kind == 'ivp':
            return solve_poisson_ivp(mg, vals, inv, r_interval=(float(np.max(radial.points)), float(np.min(radial.points))))
        return solve_poisson_bvp(mg, vals, inv, **kw)
    if kind in ('bvp', 'ivp'):
        g = spec['gauss']
        err = float(np.max(np.abs(solve(g)(pts) - _ref(pts, g))))
        return err, spec['atol_unit'] * sum(abs(c) for c, _, _ in g), 'max abs error vs analytic potential'
    if kind == 'linear':
        g1, g2, a, b = spec['gauss'], spec['gauss2'], spec['a'], spec['b']
        g12 = [(a * c, al, R) for c, al, R in g1] + [(b * c, al, R) for c, al, R in g2]
        v12, v1, v2 = solve(g12)(pts), solve(g1)(pts), solve(g2)(pts)
        res = float(np.max(np.abs(v12 - a * v1 - b * v2)))
        q = lambda g: sum(abs(c) for c, _, _ in g)
        return res, spec['linear_atol_unit'] * (q(g12) + abs(a) * q(g1) + abs(b) * q(g2)), 'linearity residual'
    if kind == 'robust':
        with open(grid.__path__[0] + '/data/atomic_gauss_params.json') as f:
            table = json.load(f)
        core = []
        for sym, c in zip(spec['symbols'], centers):
            core += [(ck, ak, c) for ck, ak in zip(table[sym]['coeffs_s'], table[sym]['alphas_s'])]
        g = core + [tuple(x) for x in spec['gauss']]
        rho = _rho(mg.points, g)      # tabulated once; a caller keeps using this array
        V = solve_poisson_robust(mg, rho, inv, np.array(spec['atnums']), np.array(centers),
                                 split2=spec.get('split2', False), **kw)
        err = float(np.max(np.abs(V(pts) - _ref(pts, g))))
        # the same tabulated density solved again (other split option): must still be the potential of rho
        V2 = solve_poisson_robust(mg, rho, inv, np.array(spec['atnums']), np.array(centers),
                                  split2=not spec.get('split2', False), **kw)
        err = max(err, float(np.max(np.abs(V2(pts) - _ref(pts, g)))))
        if not spec['gauss']:
            return err, spec['exact_core_atol'], 'robust solver on its own core model vs analytic core potential'
        return err, spec['atol_unit'] * sum(abs(c) for c, _, _ in g), 'robust solver vs analytic potential'
    raise ValueError(kind)
'''
_ns: dict = {}
exec(RUN_SRC, _ns)
_run = _ns["run"]


def _snippet(spec) -> str:
    return (RUN_SRC + f"\nspec = json.loads({json.dumps(json.dumps(spec))})\n"
            "obs, thr, what = run(spec)\n"
            "assert obs <= thr, f'{what}: {obs:.3e} > {thr:.3e}'\n")


# ----------------------------------------------------------------------------------------------
# interception of the calls into grid.ode (harness process only; /repo is not modified)
# ----------------------------------------------------------------------------------------------
def _dummy_spline(i):
    return lambda r, i=i: np.sin(0.7 * i + 1.3 * np.asarray(r, dtype=float)) + 0.2 * i


class Intercept:
    """Replace poisson.solve_ode_bvp / solve_ode_ivp by recorders that return known functions, and wrap the
    per-atom solvers to see the slices they get."""

    def __init__(self):
        self.P = importlib.import_module("grid.poisson")
        self.calls = []       # per solve_ode_* call
        self.atoms = []       # per _solve_poisson_*_atomgrid call: dict(grid, vals, first_call, interp)

    def __enter__(self):
        P = self.P
        self.saved = {k: getattr(P, k) for k in ("solve_ode_bvp", "solve_ode_ivp", "_solve_poisson_bvp_atomgrid", "_solve_poisson_ivp_atomgrid")}

        def fake_bvp(x, fx, coeffs, bd_cond, transform=None, **kw):
            i = len(self.calls) - self.atoms[-1]["first_call"]
            self.calls.append(dict(kind="bvp", x=np.array(x, copy=True), fx=fx, coeffs=list(coeffs), data=list(bd_cond), transform=transform, kw=dict(kw)))
            return _dummy_spline(i)

        def fake_ivp(x_span, fx, coeffs, y0, transform=None, **kw):
            i = len(self.calls) - self.atoms[-1]["first_call"]
            self.calls.append(dict(kind="ivp", x=tuple(x_span), fx=fx, coeffs=list(coeffs), data=list(y0), transform=transform, kw=dict(kw)))
            return _dummy_spline(i)

        def wrap(name):
            orig = self.saved[name]

            def w(atomgrid, func_vals, *a, **k):
                rec = dict(grid=atomgrid, vals=np.array(func_vals, copy=True), first_call=len(self.calls))
                self.atoms.append(rec)
                rec["interp"] = orig(atomgrid, func_vals, *a, **k)
                rec["ncalls"] = len(self.calls) - rec["first_call"]
                return rec["interp"]
            return w

        P.solve_ode_bvp = fake_bvp
        P.solve_ode_ivp = fake_ivp
        P._solve_poisson_bvp_atomgrid = wrap("_solve_poisson_bvp_atomgrid")
        P._solve_poisson_ivp_atomgrid = wrap("_solve_poisson_ivp_atomgrid")
        return self

    def __exit__(self, *a):
        for k, v in self.saved.items():
            setattr(self.P, k, v)


def _tok(line):
    t = Tokens(line)
    tag = t.tok()
    return tag, t


def _feq(a, b, rtol=RTOL, scale=None):
    return close(float(a), float(b), rtol=rtol, scale=scale)


def _small_grid(ctx: Ctx, center=None, with_origin=None):
    og = importlib.import_module("grid.onedgrid")
    rt = importlib.import_module("grid.rtransform")
    ag = importlib.import_module("grid.atomgrid")
    n = ctx.rng.randrange(6, 26)
    rmin = ctx.rng.choice([0.0, 1e-6, 1e-3]) if with_origin is None else (0.0 if with_origin else 1e-4)
    oned = og.Trapezoidal(n) if (rmin == 0.0 or ctx.rng.random() < 0.5) else og.GaussLegendre(n)
    tf = rt.BeckeRTransform(rmin, R=ctx.rng.uniform(0.8, 2.0), trim_inf=True)
    radial = tf.transform_1d_grid(oned)
    nsec = ctx.rng.choice([1, 1, 2])
    degs = [ctx.rng.choice([3, 5, 7, 9, 11, 13]) for _ in range(nsec)]
    if nsec == 1:
        g = ag.AtomGrid(radial, degrees=degs, center=center)
    else:
        g = ag.AtomGrid.from_pruned(radial, 1.0, r_sectors=[float(np.median(radial.points))], d_sectors=degs, center=center)
    return g, tf, rt.InverseRTransform(tf)


def _density(ctx: Ctx, pts, centers):
    k = ctx.rng.randrange(1, 4)
    out = np.zeros(len(pts))
    for _ in range(k):
        c = ctx.rng.choice([1.0, -0.5, 0.7, 2.0])
        a = 10 ** ctx.rng.uniform(-0.5, 0.8)
        R = np.asarray(ctx.rng.choice(centers)) + np.array([ctx.rng.uniform(-0.4, 0.4) for _ in range(3)]) * ctx.rng.choice([0, 1])
        out += c * (a / np.pi) ** 1.5 * np.exp(-a * np.sum((pts - R) ** 2, axis=1))
    if ctx.rng.random() < 0.08:
        out[:] = 0.0
    return out


def _check_atom(ctx: Ctx, kind, rec, calls, opts, y00_lib, consts, key):
    """Compare what one per-atom solver posed with the model."""
    utils = importlib.import_module("grid.utils")
    g, vals = rec["grid"], rec["vals"]
    lmax = int(g.l_max)
    integral = float(g.integrate(vals))
    lines = [f"C16.boundary {f2b(integral)} {f2b(y00_lib)}"]
    ans = driver_batch(lines)[0]
    tag, t = _tok(ans)
    bm, bi = t.flt(), t.flt()
    if kind == "bvp":
        B = opts["boundary"] if opts.get("boundary") is not None else bm
        seq = driver_batch([f"C16.bvpseq {lmax} {f2b(B)}"])[0]
    else:
        r0, r1 = opts["r_interval"]
        seq = driver_batch([f"C16.ivpseq {lmax} {f2b(bi)} {f2b(r0)}"])[0]
    tag, t = _tok(seq)
    nprob = t.nat()
    if nprob != len(calls):
        ctx.fail("corr", f"{key}:count", f"{kind}: library posed {len(calls)} radial problems, model {nprob} (l_max={lmax})",
                 witness={"l_max": lmax, "impl": len(calls), "model": nprob})
        return
    probs = []
    for _ in range(nprob):
        l, m = t.nat(), int(t.tok())
        if kind == "bvp":
            k = t.nat()
            data = [(t.nat(), t.nat(), t.flt()) for _ in range(k)]
        else:
            data = t.fvec()
        probs.append((l, m, data))
    # mesh
    if kind == "bvp":
        rl = opts.get("remove_large_pts", 1e6)
        line = f"C16.radpts {int(bool(opts.get('include_origin', True)))} {int(rl is not None)} {f2b(rl if rl is not None else 0.0)} {fvec(g.rgrid.points)}"
        tag, t = _tok(driver_batch([line])[0])
        mesh = t.fvec()
        for c in calls[:1] + calls[-1:]:
            if len(mesh) != len(c["x"]) or any(f2b(a) != f2b(b) for a, b in zip(mesh, c["x"])):
                ctx.fail("corr", f"{key}:mesh", f"radial mesh handed to solve_ode_bvp differs from the model (include_origin={opts.get('include_origin', True)}, remove_large_pts={rl})",
                         witness={"impl": c["x"][:5], "model": mesh[:5], "len_impl": len(c["x"]), "len_model": len(mesh), "opts": {k: v for k, v in opts.items()}})
                return
    else:
        for c in calls[:1]:
            if tuple(float(v) for v in c["x"]) != tuple(float(v) for v in opts["r_interval"]):
                ctx.fail("corr", f"{key}:interval", "r_interval handed to solve_ode_ivp differs", witness={"impl": c["x"], "want": opts["r_interval"]})
    # problems: data, coefficients, rhs at sample radii
    splines = g.radial_component_splines(vals)
    pick = sorted(set([0, 1, 2, 3, len(calls) - 1] + [ctx.rng.randrange(len(calls)) for _ in range(3)]))
    pick = [i for i in pick if 0 <= i < len(calls)]
    rs_pool = [float(x) for x in (calls[0]["x"] if kind == "bvp" else g.rgrid.points)]
    lines, meta = [], []
    for i in pick:
        c = calls[i]
        l, m, data = probs[i]
        # boundary / initial data
        impl = [(int(e), int(d), float(v)) for e, d, v in c["data"]] if kind == "bvp" else [float(v) for v in c["data"]]
        ok = len(impl) == len(data) and all(
            (a[0] == b[0] and a[1] == b[1] and _feq(a[2], b[2], rtol=1e-14)) if kind == "bvp" else _feq(a, b, rtol=1e-14)
            for a, b in zip(impl, data))
        if not ok:
            ctx.fail("corr", f"{key}:{'bd_cond' if kind == 'bvp' else 'initial'}",
                     f"{kind} problem #{i} (l={l}): {'boundary conditions' if kind == 'bvp' else 'initial data'} {impl}, model {data}",
                     witness={"i": i, "l": l, "m": m, "impl": impl, "model": data, "integral": integral, "y00": y00_lib})
        if len(c["coeffs"]) != 3:
            ctx.fail("corr", f"{key}:coeffs", f"{kind} problem #{i}: {len(c['coeffs'])} coefficients", witness={"i": i})
            continue
        rs = [rs_pool[0], rs_pool[-1], ctx.rng.choice(rs_pool), 10 ** ctx.rng.uniform(-3, 1.5)]
        if kind == "bvp":
            rs.append(0.0)
        for r in rs:
            arr = np.array([r], dtype=float)
            with np.errstate(all="ignore"):
                cv = [float(np.asarray(a(arr.copy())).reshape(-1)[0]) if callable(a) else float(a) for a in c["coeffs"]]
                fv = float(np.asarray(c["fx"](arr.copy())).reshape(-1)[0])
                rho = float(splines[i](r))
            lines.append(f"C16.{kind} {l} {f2b(r)} {f2b(rho)}")
            meta.append((i, l, r, rho, cv, fv))
    out = driver_batch(lines)
    for (i, l, r, rho, cv, fv), ans in zip(meta, out):
        tag, t = _tok(ans)
        mc = t.fvec()
        mf = t.flt()
        ctx.count([kind, "problem", lmax, i, r], nontrivial=(lmax // 2 >= 1 and integral != 0.0), tag=f"{kind}:problem:l={l}" + (":r=0" if r == 0.0 else ""))
        if not (len(mc) == 3 and all(_feq(a, b) for a, b in zip(cv, mc))):
            ctx.fail("corr", f"{key}:coeffs", f"{kind} problem #{i} (l={l}) coefficients at r={r}: implementation {cv}, model {mc}",
                     witness={"i": i, "l": l, "r": r, "impl": cv, "model": mc})
        if not _feq(fv, mf):
            ctx.fail("corr", f"{key}:rhs", f"{kind} problem #{i} (l={l}) right-hand side at r={r}: implementation {fv}, model {mf} (rho_lm={rho})",
                     witness={"i": i, "l": l, "r": r, "rho": rho, "impl": fv, "model": mf})
    # options handed to the ode layer
    kw = calls[0]["kw"]
    if opts.get("ode_params") is None:
        if kind == "bvp":
            want = {"tol": consts["tol"], "max_nodes": consts["max_nodes"], "no_derivatives": consts["no_deriv"]}
        else:
            want = {"method": consts["method"], "rtol": consts["rtol"], "atol": consts["atol"], "no_derivatives": True}
        if kw != want:
            ctx.fail("corr", f"{key}:options", f"{kind}: options handed to the ode layer {kw}, model {want}", witness={"impl": kw, "model": want})
    if calls[0]["transform"] is not opts["transform"]:
        ctx.fail("corr", f"{key}:transform", "the transform handed to the ode layer is not the caller's")
    # back-substitution and sum over (l, m)
    pts = g.center + np.array([[ctx.rng.gauss(0, 1) for _ in range(3)] for _ in range(4)]) * 10 ** ctx.rng.uniform(-2, 0.5)
    pts = np.vstack([pts, g.center[None, :]])
    with np.errstate(all="ignore"):
        got = rec["interp"](pts)
    sph = g.convert_cartesian_to_spherical(pts)
    ylm = utils.generate_real_spherical_harmonics(lmax // 2, sph[:, 1], sph[:, 2])
    lines = []
    for j in range(len(pts)):
        us = [float(_dummy_spline(i)(sph[j, 0])) for i in range(len(calls))]
        lines.append(f"C16.pot {f2b(sph[j, 0])} {fvec(us)} {fvec(ylm[:, j])}")
    for j, ans in enumerate(driver_batch(lines)):
        tag, t = _tok(ans)
        vb, vi = t.flt(), t.flt()
        model = vb if kind == "bvp" else vi
        r = float(sph[j, 0])
        scale = float(np.sum(np.abs(ylm[:, j])) * (1.0 + len(calls) * 0.2) / (r if (kind == "bvp" and r > 0) else 1.0))
        ctx.count([kind, "value", lmax, r], nontrivial=(lmax // 2 >= 1), tag=f"{kind}:value" + (":r=0" if r == 0.0 else ""))
        if not _feq(got[j], model, rtol=1e-11, scale=scale):
            ctx.fail("corr", f"{key}:value", f"{kind}: interpolant at distance {r} from the centre is {float(got[j])}, model {model} (known radial functions)",
                     witness={"r": r, "impl": float(got[j]), "model": model, "l_max": lmax})


def _consts():
    tag, t = _tok(driver_batch(["C16.consts"])[0])
    c = {"tol": t.flt(), "max_nodes": t.nat(), "no_deriv": bool(t.nat()), "remove_large": t.flt(), "include_origin": bool(t.nat()),
         "method": t.tok(), "rtol": t.flt(), "atol": t.flt(), "r0": t.flt(), "r1": t.flt(), "split2": bool(t.nat())}
    return c


def corr(ctx: Ctx):
    import inspect

    P = importlib.import_module("grid.poisson")
    RP = importlib.import_module("grid.robust_poisson")
    utils = importlib.import_module("grid.utils")
    mgm = importlib.import_module("grid.molgrid")
    becke = importlib.import_module("grid.becke")
    cb = importlib.import_module("grid.coulomb")
    consts = _consts()
    # signature defaults
    sb = inspect.signature(P.solve_poisson_bvp).parameters
    sa = inspect.signature(P._solve_poisson_bvp_atomgrid).parameters
    si = inspect.signature(P._solve_poisson_ivp_atomgrid).parameters
    ctx.count(["defaults"], nontrivial=False, tag="defaults")
    for nm, par in (("solve_poisson_bvp", sb), ("_solve_poisson_bvp_atomgrid", sa)):
        if par["remove_large_pts"].default != consts["remove_large"] or par["include_origin"].default is not consts["include_origin"] or par["boundary"].default is not None:
            ctx.fail("corr", "poisson.solve_poisson_bvp:defaults", f"{nm}: defaults differ from the generated ones",
                     witness={"impl": [repr(par[k].default) for k in ("boundary", "include_origin", "remove_large_pts")], "model": consts})
    if tuple(si["r_interval"].default) != (consts["r0"], consts["r1"]) or tuple(inspect.signature(P.solve_poisson_ivp).parameters["r_interval"].default) != (consts["r0"], consts["r1"]):
        ctx.fail("corr", "poisson.solve_poisson_ivp:defaults", "r_interval default differs", witness={"impl": si["r_interval"].default, "model": [consts["r0"], consts["r1"]]})
    if inspect.signature(RP.solve_poisson_robust).parameters["split2"].default is not consts["split2"]:
        ctx.fail("corr", "robust_poisson.solve_poisson_robust:defaults", "split2 default differs")
    y00_lib = float(utils.generate_real_spherical_harmonics(0, np.array([0.1]), np.array([0.1]))[0, 0])
    tag, t = _tok(driver_batch(["C16.y00"])[0])
    y00_m = t.flt()
    ctx.count(["y00"], nontrivial=False, tag="y00")
    if not _feq(y00_lib, y00_m, rtol=1e-15):
        ctx.fail("corr", "poisson:y00", f"generate_real_spherical_harmonics(0,...)[0,0] = {y00_lib}, model 1/(2 sqrt(pi)) = {y00_m}")

    ncase = ctx.n(36, 500)
    for case in range(ncase):
        natom = ctx.rng.choice([1, 1, 1, 2, 3])
        kind = "bvp" if ctx.rng.random() < 0.65 else "ivp"
        centers = [np.zeros(3)] if natom == 1 and ctx.rng.random() < 0.5 else [np.array([ctx.rng.uniform(-1.5, 1.5) for _ in range(3)]) + 2.5 * k for k in range(natom)]
        tf = inv = None
        grids = []
        g0, tf, inv = _small_grid(ctx, center=centers[0], with_origin=(False if kind == "ivp" else None))
        grids.append(g0)
        ag = importlib.import_module("grid.atomgrid")
        for c in centers[1:]:
            grids.append(ag.AtomGrid(g0.rgrid, degrees=[int(g0.l_max)], center=c))
        if natom == 1:
            mg = grids[0]
            weights, indices = np.ones(mg.size), np.array([0, mg.size])
        else:
            mg = mgm.MolGrid(np.array([1] * natom), grids, becke.BeckeWeights(order=3), store=True)
            weights, indices = mg.aim_weights, mg.indices
        vals = _density(ctx, mg.points, centers)
        opts = {"transform": inv}
        with Intercept() as ic:
            try:
                with np.errstate(all="ignore"):
                    if kind == "bvp":
                        pts_r = g0.rgrid.points
                        opts["include_origin"] = ctx.rng.random() < 0.6
                        opts["remove_large_pts"] = ctx.rng.choice([None, 1e6, float(np.sort(pts_r)[len(pts_r) * 2 // 3]), float(pts_r[-1])])
                        opts["boundary"] = None if ctx.rng.random() < 0.7 else ctx.rng.uniform(-2, 2)
                        V = P.solve_poisson_bvp(mg, vals, inv, boundary=opts["boundary"], include_origin=opts["include_origin"],
                                                remove_large_pts=opts["remove_large_pts"])
                    else:
                        rmax, rmin = float(np.max(g0.rgrid.points)), float(np.min(g0.rgrid.points))
                        opts["r_interval"] = (min(rmax, 50.0), rmin) if ctx.rng.random() < 0.9 else (rmin, rmax)
                        V = P.solve_poisson_ivp(mg, vals, inv, r_interval=opts["r_interval"])
                impl_tag = "ok"
            except ValueError:
                impl_tag = "value-error"
        key = f"poisson.solve_poisson_{kind}:" + ("atomic" if natom == 1 else "molecular")
        if kind == "ivp":
            ans = driver_batch([f"C16.interval {f2b(opts['r_interval'][0])} {f2b(opts['r_interval'][1])}"])[0]
            mtag = ans.split()[0]
            ctx.count([kind, "interval", opts["r_interval"]], nontrivial=False, tag=f"ivp:interval:{mtag}")
            if mtag != impl_tag:
                ctx.fail("corr", key + ":interval", f"r_interval={opts['r_interval']}: implementation {impl_tag}, model {mtag}")
            if impl_tag != "ok":
                continue
        elif impl_tag != "ok":
            ctx.fail("corr", key + ":raise", "solve_poisson_bvp raised ValueError on a valid input", witness={"opts": {k: repr(v) for k, v in opts.items()}})
            continue
        if len(ic.atoms) != natom:
            ctx.fail("corr", key + ":atoms", f"{len(ic.atoms)} per-atom solves for {natom} atoms")
            continue
        # slices  w_A rho
        tag, t = _tok(driver_batch([f"C16.slices {fvec(vals)} {fvec(weights)} {vec([int(i) for i in indices])}"])[0])
        ctx.count([kind, "slices", natom, len(vals)], nontrivial=natom > 1, tag=f"{kind}:slices:natom={natom}")
        if tag != "ok" or t.nat() != natom:
            ctx.fail("corr", key + ":slices", f"model answered {tag} for the per-atom slices")
            continue
        for a in range(natom):
            ms = t.fvec()
            iv = ic.atoms[a]["vals"]
            if len(ms) != len(iv) or any(f2b(x) != f2b(y) for x, y in zip(ms, iv)):
                ctx.fail("corr", key + ":slices", f"density handed to the solver of atom {a} differs from w_A*rho cut at molgrid.indices",
                         witness={"atom": a, "len_impl": len(iv), "len_model": len(ms), "impl": iv[:4], "model": ms[:4]})
        for a in range(natom):
            rec = ic.atoms[a]
            _check_atom(ctx, kind, rec, ic.calls[rec["first_call"]:rec["first_call"] + rec["ncalls"]], opts, y00_lib, consts, key)
        # sum over atoms
        pts = np.array([[ctx.rng.uniform(-3, 3) for _ in range(3)] for _ in range(3)])
        with np.errstate(all="ignore"):
            tot = V(pts)
            per = [rec["interp"](pts) for rec in ic.atoms]
        out = driver_batch([f"C16.molsum {fvec([p[j] for p in per])}" for j in range(len(pts))])
        for j, ans in enumerate(out):
            tag, t = _tok(ans)
            ctx.count([kind, "molsum", natom, j, case], nontrivial=natom > 1, tag=f"{kind}:molsum:natom={natom}")
            if tag != "ok" or not _feq(t.flt(), tot[j], rtol=1e-15, scale=sum(abs(float(p[j])) for p in per)):
                ctx.fail("corr", key + ":sum", f"molecular potential is not the sum of the atomic interpolants in order", witness={"impl": float(tot[j]), "parts": [float(p[j]) for p in per]})

    # ---- robust solver: residual, core density, total --------------------------------------------
    nrob = ctx.n(8, 80)
    saved = {k: getattr(RP, k) for k in ("solve_poisson_bvp", "_fit_residual_gaussians")}
    for case in range(nrob):
        natom = ctx.rng.choice([1, 1, 2])
        atnums = [ctx.rng.choice([1, 6, 7, 8, 17]) for _ in range(natom)]
        centers = [np.array([ctx.rng.uniform(-1, 1) for _ in range(3)]) + 2.0 * k for k in range(natom)]
        g0, tf, inv = _small_grid(ctx, center=centers[0])
        ag = importlib.import_module("grid.atomgrid")
        grids = [g0] + [ag.AtomGrid(g0.rgrid, degrees=[int(g0.l_max)], center=c) for c in centers[1:]]
        mg = grids[0] if natom == 1 else mgm.MolGrid(np.array(atnums), grids, becke.BeckeWeights(order=3), store=True)
        vals = _density(ctx, mg.points, centers) + 0.3
        split2 = ctx.rng.random() < 0.5
        seen = {}

        def fake_solve(molgrid, residual, transform, **kw):
            seen["args"] = (molgrid, np.array(residual, copy=True), transform, dict(kw))
            return lambda p: np.sin(np.sum(np.asarray(p), axis=1))

        def fit_wrap(grid_pts, residual, atc, alphas_basis):
            seen["fit_in"] = np.array(residual, copy=True)
            out = saved["_fit_residual_gaussians"](grid_pts, residual, atc, alphas_basis)
            seen["fit_out"] = out
            return out

        RP.solve_poisson_bvp = fake_solve
        RP._fit_residual_gaussians = fit_wrap
        try:
            kw = {"remove_large_pts": 10.0} if ctx.rng.random() < 0.5 else {}
            V = RP.solve_poisson_robust(mg, vals, inv, np.array(atnums), np.array(centers), split2=split2, **kw)
        finally:
            for k, v in saved.items():
                setattr(RP, k, v)
        key = "robust_poisson.solve_poisson_robust:" + ("split2" if split2 else "split1")
        params = [cb.load_atomic_gaussian_params(int(z)) for z in atnums]
        after1 = seen["fit_in"] if split2 else seen["args"][1]
        if seen["args"][0] is not mg or seen["args"][2] is not inv or seen["args"][3] != kw:
            ctx.fail("corr", key + ":call", "solve_poisson_bvp is not called with the caller's grid / transform / options", witness={"kw": seen["args"][3]})
        if split2 and (len(seen["args"][1]) != len(vals) or any(f2b(a) != f2b(b) for a, b in zip(seen["args"][1], seen["fit_out"][3]))):
            ctx.fail("corr", key + ":call", "with split2 the array handed to solve_poisson_bvp is not the residual left by the fit")
        js = sorted({0, len(vals) - 1} | {ctx.rng.randrange(len(vals)) for _ in range(6)})
        lines, meta = [], []
        for j in js:
            cores = []
            for (cs, als), c in zip(params, centers):
                rsq = float(np.sum((mg.points[j] - c) ** 2))
                lib = float(RP._build_core_density(mg.points[j:j + 1], c, cs, als)[0])
                cores.append(lib)
                lines.append(f"C16.core {f2b(rsq)} {fvec(cs)} {fvec(als)}")
                meta.append(("core", j, lib))
            lines.append(f"C16.residual {f2b(vals[j])} {fvec(cores)}")
            meta.append(("res", j, float(after1[j])))
        for (what, j, impl), ans in zip(meta, driver_batch(lines)):
            tag, t = _tok(ans)
            m = t.flt()
            ctx.count(["robust", what, case, j], nontrivial=True, tag=f"robust:{what}")
            if not _feq(impl, m, rtol=1e-12 if what == "core" else 1e-15, scale=max(abs(impl), abs(float(vals[j])))):
                ctx.fail("corr", key + (":core-density" if what == "core" else ":residual"),
                         f"{'_build_core_density' if what == 'core' else 'residual after split 1'} at grid point {j}: implementation {impl}, model {m}",
                         witness={"point": j, "impl": impl, "model": m, "atnums": atnums})
        pts = np.array([[ctx.rng.uniform(-3, 3) for _ in range(3)] for _ in range(4)])
        tot = V(pts)
        pots = [cb.coulomb_potential(pts, centers_s=np.tile(c, (len(cs), 1)), coeffs_s=cs, alphas_s=als, normalized=True) for (cs, als), c in zip(params, centers)]
        vb = np.zeros(len(pts))
        if split2 and len(seen["fit_out"][0]) > 0:
            fc, fa, fcen, _ = seen["fit_out"]
            vb = cb.coulomb_potential(pts, centers_s=fcen, coeffs_s=fc, alphas_s=fa, normalized=True)
        vr = np.sin(np.sum(pts, axis=1))
        out = driver_batch([f"C16.total {f2b(vb[j])} {f2b(vr[j])} {fvec([p[j] for p in pots])}" for j in range(len(pts))])
        for j, ans in enumerate(out):
            tag, t = _tok(ans)
            m = t.flt()
            ctx.count(["robust", "total", case, j], nontrivial=True, tag="robust:total" + (":split2" if split2 else ""))
            if not _feq(tot[j], m, rtol=1e-14):
                ctx.fail("corr", key + ":total", f"total_potential = {float(tot[j])}, model v_core + v_bonding + v_residual = {m}",
                         witness={"impl": float(tot[j]), "model": m, "v_core_parts": [float(p[j]) for p in pots], "v_bonding": float(vb[j]), "v_residual": float(vr[j])})


# ----------------------------------------------------------------------------------------------
# oracle: the decision
# ----------------------------------------------------------------------------------------------
def _g1(ctx, deg=None, n=None):
    return {"oned": "GaussLegendre", "n": n or ctx.rng.randrange(60, 101), "tf": "Becke", "rmin": 1e-5, "R": round(ctx.rng.uniform(1.0, 2.0), 3),
            "deg": deg or ctx.rng.choice([11, 13, 15, 17])}


def _g2(ctx, deg=None, n=None):
    return {"oned": "Trapezoidal", "n": n or ctx.rng.randrange(60, 121), "tf": "Becke", "rmin": 1e-6, "R": round(ctx.rng.uniform(1.0, 2.0), 3), "trim": True,
            "deg": deg or ctx.rng.choice([11, 13, 15, 17])}


def _alpha(ctx, lo=0.4, hi=6.0):
    return round(math.exp(ctx.rng.uniform(math.log(lo), math.log(hi))), 4)


def _centred(ctx, center, k=None):
    k = k or ctx.rng.randrange(1, 4)
    return [(round(ctx.rng.choice([1, -1]) * ctx.rng.uniform(0.3, 2.0), 3) if i else round(ctx.rng.uniform(0.5, 2.0), 3), _alpha(ctx), list(center)) for i in range(k)]


def _offcentre(ctx, center, k=None):
    out = []
    for _ in range(k or ctx.rng.randrange(1, 3)):
        a = _alpha(ctx, 0.4, 4.0)
        d = min(0.5, 2.0 / a) * ctx.rng.uniform(0.3, 1.0)
        v = np.array([ctx.rng.gauss(0, 1) for _ in range(3)])
        v *= d / np.linalg.norm(v)
        out.append((round(ctx.rng.uniform(0.4, 1.5), 3), a, [round(float(x), 4) for x in (np.asarray(center) + v)]))
    return out


def _molecule(ctx, natom):
    dist = ctx.rng.uniform(1.5, 3.0)
    base = [[0.0, 0.0, 0.0], [dist, 0.0, 0.0], [0.3 * dist, 0.85 * dist, 0.2]]
    return [[round(x, 4) for x in c] for c in base[:natom]]


def _cases(ctx: Ctx, budget: str):
    """-> list of (key, spec)"""
    big = ctx.thorough or budget == "large"
    cases = []
    base = {"atol_unit": ATOL_UNIT, "exact_core_atol": EXACT_CORE_ATOL, "linear_atol_unit": LINEAR_ATOL_UNIT}

    def add(key, **spec):
        spec = {**base, **spec, "pseed": ctx.rng.randrange(10**6), "npseed": ctx.rng.randrange(10**6)}
        cases.append((key, spec))

    Z = [0.0, 0.0, 0.0]
    rep = 12 if big else 1
    for _ in range(rep):
        # spherical, default options (origin added, remove_large_pts=1e6) -- tests' first parameter sets
        add("poisson.solve_poisson_bvp:atomic", kind="bvp", grid=_g1(ctx), atoms=[Z], gauss=_centred(ctx, Z),
            options=ctx.rng.choice([{}, {}, {"remove_large_pts": None}, {"remove_large_pts": round(ctx.rng.uniform(10, 25), 2)}]))
        c = [round(ctx.rng.uniform(-1, 1), 3) for _ in range(3)]
        add("poisson.solve_poisson_bvp:atomic", kind="bvp", grid=_g2(ctx), atoms=[c], gauss=_centred(ctx, c),
            options={"include_origin": ctx.rng.choice([True, False]), "remove_large_pts": ctx.rng.choice([1e6, round(ctx.rng.uniform(10, 25), 2)])})
        # l > 0: off-centre Gaussians on an atomic grid
        add("poisson.solve_poisson_bvp:atomic-offcentre", kind="bvp", grid=_g2(ctx), atoms=[Z], gauss=_offcentre(ctx, Z),
            options={"include_origin": False, "remove_large_pts": round(ctx.rng.uniform(10, 25), 2)})
        # molecular
        for natom in (2, 3):
            at = _molecule(ctx, natom)
            g = [(round(ctx.rng.choice([1, 1, -1]) * ctx.rng.uniform(0.4, 1.2), 3) if i else 1.0, _alpha(ctx, 0.5, 3.0), at[i]) for i in range(natom)]
            add(f"poisson.solve_poisson_bvp:molecular-{natom}", kind="bvp", grid=_g2(ctx, deg=ctx.rng.choice([13, 15, 17])), atoms=at, gauss=g,
                options={"include_origin": False, "remove_large_pts": 10.0})
        # initial value solver, spherical
        if ctx.rng.random() < 0.5:
            gi = {"oned": "GaussLegendre", "n": ctx.rng.randrange(80, 151), "tf": "Becke", "rmin": 0.01, "R": 1.5, "deg": ctx.rng.choice([3, 5])}
        else:
            gi = {"oned": "Trapezoidal", "n": ctx.rng.randrange(400, 801), "tf": "Linear", "rmin": 1e-3, "R": round(ctx.rng.uniform(50, 100), 2), "deg": ctx.rng.choice([7, 9, 11])}
        add("poisson.solve_poisson_ivp", kind="ivp", grid=gi, atoms=[Z], gauss=_centred(ctx, Z, k=ctx.rng.randrange(1, 3)), rlo=0.05)
        # linearity (3 solves)
        add("poisson.solve_poisson_bvp:linearity", kind="linear", grid=_g1(ctx, deg=11), atoms=[Z], gauss=_centred(ctx, Z, 1), gauss2=_centred(ctx, Z, 2),
            a=round(ctx.rng.uniform(-2, 2), 3), b=round(ctx.rng.uniform(0.5, 3), 3), options={"remove_large_pts": 10.0})
        # robust
        sym, zn = ctx.rng.choice([("H", 1), ("C", 6)])
        add("robust_poisson.solve_poisson_robust:exact-core", kind="robust", grid=_g1(ctx, deg=11), atoms=[Z], symbols=[sym], atnums=[zn], gauss=[],
            split2=False, options={"remove_large_pts": 10.0})
        add("robust_poisson.solve_poisson_robust:residual", kind="robust", grid=_g1(ctx, deg=11), atoms=[Z], symbols=["H"], atnums=[1],
            gauss=[(round(ctx.rng.uniform(0.3, 1.0), 3), _alpha(ctx, 0.4, 3.0), Z)], split2=False, options={"remove_large_pts": 10.0})
        add("robust_poisson.solve_poisson_robust:split2", kind="robust", grid=_g1(ctx, deg=11), atoms=[Z], symbols=["H"], atnums=[1],
            gauss=[(round(ctx.rng.uniform(0.3, 1.0), 3), _alpha(ctx, 0.4, 3.0), Z)], split2=True, options={"remove_large_pts": 10.0})
    # replay of the listed finding (deterministic input): rounding-size l >= 3 components blown up by the inward integration
    cases.append(("poisson.solve_poisson_ivp:high-l", {**base, "kind": "ivp", "grid": {"oned": "GaussLegendre", "n": 80, "tf": "Becke", "rmin": 0.01, "R": 1.5, "deg": 11},
                                                        "atoms": [Z], "gauss": [(1.0, 0.3, Z)], "rlo": 0.05, "pseed": 1, "npseed": 0}))
    if big:
        # origin in the mesh with a non-zero l >= 1 component (slow: ~30 s each)
        for _ in range(2):
            add("poisson.solve_poisson_bvp:atomic-offcentre-origin", kind="bvp", grid=_g1(ctx, deg=11), atoms=[Z], gauss=_offcentre(ctx, Z, 1),
                options={"include_origin": True, "remove_large_pts": round(ctx.rng.uniform(10, 25), 2)})
    return cases


def oracle(ctx: Ctx, budget: str):
    obs = ctx.extra.setdefault("oracle_observed", [])
    t_all = time.time()
    for key, spec in _cases(ctx, budget):
        t0 = time.time()
        try:
            got, thr, what = _run(spec)
        except Exception as e:  # the library raised inside the envelope
            ctx.fail("oracle", key, f"{type(e).__name__} inside the envelope: {str(e)[:160]}", witness=spec, snippet=_snippet(spec))
            obs.append({"key": key, "error": type(e).__name__, "wall_s": round(time.time() - t0, 2)})
            continue
        obs.append({"key": key, "observed": got, "threshold": thr, "wall_s": round(time.time() - t0, 2)})
        ctx.tagc("oracle:" + key)
        if not (got <= thr):
            ctx.fail("oracle", key, f"{what}: {got:.3e} exceeds {thr:.3e}", witness={**spec, "observed": got, "threshold": thr}, snippet=_snippet(spec))
    ctx.extra["oracle_wall_s"] = round(time.time() - t_all, 1)

"""C16 — Poisson solvers reproduce Coulomb potentials of Gaussian charges and are linear."""
import importlib
import json
import math
import time

import numpy as np

from ..common import SRC, Ctx, Tokens, close, driver_batch, f2b, fvec, vec

LEVEL = "exploration"
LEVEL_TEXT = (
    "The accuracy clause is about SciPy's solve_bvp / solve_ivp on the radial problems the library poses; no theorem about "
    "this repository can carry it, so it is decided by exploration: Gaussian charge combinations inside the stated "
    "resolution envelope (atomic grids, 2- and 3-centre molecular grids, off-centre Gaussians for l > 0 -- also with the centre exactly on a "
    "radial shell --, origin / large-point / boundary options, robust solver with exact core, with residual, with the second split and a "
    "non-default exponent basis; initial-value solver for spherical densities; linearity residuals) against the analytic potential "
    "sum c_i erf(sqrt(a_i)|r-R_i|)/|r-R_i|, which C17 proves to be the Coulomb potential of the normalised s-type Gaussian; interpolate_laplacian "
    "against the closed-form Laplacian of h_l(x) e^{-a x^2} (l = 0, 1, 2, off-centre) on atomic grids and, on molecular grids, against the sum of "
    "the one-atom interpolants of w_A f; and by invariance scenarios (the answer is a function of the mathematical input only: reused tabulated "
    "arrays, dicts, grid objects and callables in several orders, dtype / container kind of densities and points, every keyword with a default and "
    "a non-default value, positional vs keyword calls, AtomGrid vs one-atom MolGrid, atom order, thresholds). What is proved (Lean, over the reals, "
    "about the text regenerated from poisson.py / robust_poisson.py on every run): the posed coefficient lists, right-hand "
    "sides, boundary and initial values; u = rV turns the boundary-value equation into the initial-value equation; the "
    "separated Laplacian with the eigenfunction hypothesis gives the posed radial equation; the boundary values are the "
    "monopole limit q/Y00 resp. 0; posed data are linear in the density and solutions superpose (linearity under "
    "uniqueness; uniqueness of the exact posed problem is proved for every l: l = 0 by integration, l >= 1 by the maximum principle); "
    "the generated interpolate_laplacian (clamp, derivative orders 2/1/0, factors 2/r and 1/r^2, the degrees array l(l+1) x (2l+1) in the "
    "solvers' (l, m) order, first + second - third) equals the sum over components of the separated Laplacian for r >= cutoff and its value at "
    "r = cutoff below, and equals -4 pi sum rho_lm Y_lm when the components solve the posed radial problems; in the molecular fan-out the term "
    "of atom i uses the grid and the slice of atom i (Python closure rules recorded by the translator); robust total = core potential + "
    "potential of the residual, exact when the density is the core model; the reference potential solves the posed l = 0 problem exactly. "
    "Round 3: robust_poisson.py is regenerated statement by statement (strict walker: an added / removed / reordered statement is an unsupported shape): "
    "_build_core_density is sum c_k rho_s(alpha_k, |p - c|) with C17's density; what _fit_residual_gaussians subtracts is exactly the density of the Gaussians it returns "
    "(for every answer of nnls), each basis function being C17's density, so total = core + bonding + residual potential is exact for an exact solve (robust_split2); the guards "
    "accept exactly 1-D densities of the grid's length, non-empty positive 1-D bases, (N, 3) points, and the default basis passes them; for poisson.py the type guards, the domain "
    "guard, the mesh rule (a point equal to remove_large_pts stays), the 1e-300 and r == 0 windows, the r_interval guard and default, the i_spline bookkeeping, the harmonic degree, "
    "the AtomGrid wrap and the agreement of the public and per-atom defaults are theorems about the regenerated text. "
    "Tie to the code: translator + interception of every call the library makes into grid.ode (mesh, right-hand side, coefficients, boundary / "
    "initial data, options) and evaluation of interpolate_laplacian on random atomic / molecular grids, compared with the Lean model through the driver."
)
TECHNIQUE = ("exploration against a Lean-proved analytic reference (C17) + Lean 4 / Mathlib reduction lemmas about the AST-regenerated "
             "posed problems + differential correspondence by intercepting the calls into grid.ode")
GEN = ["poisson", "poisson_robust", "coulomb"]
LEAN_MODULES = ["GridVerif.Props.C16", "GridVerif.Props.C16.Laplacian", "GridVerif.Props.C16.Robust", "GridVerif.Props.C16.Options"]
THEOREMS = [
    "GridVerif.C16.posed_bvp_eq",
    "GridVerif.C16.posed_ivp_eq",
    "GridVerif.C16.bvp_value_eq",
    "GridVerif.C16.u_form_equiv",
    "GridVerif.C16.radial_poisson_of_lm",
    "GridVerif.C16.y00_normalised",
    "GridVerif.C16.boundary_value_spec",
    "GridVerif.C16.boundary_value_origin",
    "GridVerif.C16.boundary_value_higher",
    "GridVerif.C16.initial_value_spec",
    "GridVerif.C16.posed_linear",
    "GridVerif.C16.linear_combination_solves",
    "GridVerif.C16.linear_in_density",
    "GridVerif.C16.bvp_unique_monopole",
    "GridVerif.C16.bvp_unique_higher",
    "GridVerif.C16.bvp_solution_example",
    "GridVerif.C16.robust_fold",
    "GridVerif.C16.core_term_is_c17_density",
    "GridVerif.C16.robust_split",
    "GridVerif.C16.zero_solves_zero",
    "GridVerif.C16.robust_exact_core",
    "GridVerif.C16.robust_vs_plain",
    "GridVerif.C16.s_reference",
    "GridVerif.C16.problems_count",
    "GridVerif.C16.call_shapes",
    "GridVerif.C16.lap_gen_eq",
    "GridVerif.C16.laplacianAt_eq",
    "GridVerif.C16.laplacian_expansion",
    "GridVerif.C16.lap_degrees_spec",
    "GridVerif.C16.laplacian_expansion_code",
    "GridVerif.C16.laplacian_of_potential",
    "GridVerif.C16.lap_fanout_eq",
    "GridVerif.C16.lap_molecular_slice_full",
    "GridVerif.zero_of_second_deriv_eq_pos_mul",
    # round 3: robust_poisson.py statement by statement (Props/C16/Robust.lean)
    "GridVerif.C16.robust_gen2_eq",
    "GridVerif.C16.robust_structure",
    "GridVerif.C16.core_step_eq",
    "GridVerif.C16.core_density_eq",
    "GridVerif.C16.core_density_is_c17",
    "GridVerif.C16.fit_basis_is_c17",
    "GridVerif.C16.fit_atom_conserves",
    "GridVerif.C16.fit_conserves",
    "GridVerif.C16.fit_mask_drops_zeros",
    "GridVerif.C16.robust_split2",
    "GridVerif.C16.total_eq",
    "GridVerif.C16.robust_guards",
    "GridVerif.C16.default_basis_admissible",
    # round 3: options, guards, thresholds, bookkeeping of poisson.py (Props/C16/Options.lean)
    "GridVerif.C16.options_gen_eq",
    "GridVerif.C16.options_structure",
    "GridVerif.C16.public_defaults_agree",
    "GridVerif.C16.type_guards_spec",
    "GridVerif.C16.bvp_domain_guard",
    "GridVerif.C16.rad_points_mem_iff",
    "GridVerif.C16.bvp_value_window",
    "GridVerif.C16.coeff0_origin_window",
    "GridVerif.C16.ivp_interval_spec",
    "GridVerif.C16.spline_index_position",
    "GridVerif.C16.harm_rows_match",
    "GridVerif.C16.mol_atomgrid_route",
]

# ----------------------------------------------------------------------------------------------
# thresholds and envelope (see RULE)
# ----------------------------------------------------------------------------------------------
ATOL_UNIT = 1e-2     # tests/test_poisson.py: assert_allclose(actual, desired, atol=1e-2) for a unit charge (bvp and ivp)
LINEAR_ATOL_UNIT = 1e-4   # solve_bvp default tol 1e-6 on u = rV, evaluated at r >= 0.02: 1e-6 / 0.02 = 5e-5 per unit charge, rounded up
LAP_RTOL = 5e-2          # interpolate_laplacian vs closed form, relative to (4l+6) a max|f|; observed <= 4.1e-3 over 60 grids x 4 shapes (spline second derivative)
SANITY_ATOL_UNIT = 5e-2  # invariance scenario on a coarse molecular grid (outside the envelope): only a sanity check that the fresh reference is a potential
EXACT_CORE_ATOL = 1e-6   # robust solver on its own core model: only the numerical solve of a zero residual remains (bvp tol 1e-6; observed 1e-10)

RULE = (
    "oracle (the decision): max |V_numeric - sum c_i erf(sqrt(a_i) d_i)/d_i| over 200 random points (directions uniform, distance "
    "from a random centre log-uniform in [0.02, 0.5 r_last]) must be <= 1e-2 * sum|c_i| -- the accuracy the library's tests "
    "assert for a unit charge (tests/test_poisson.py: assert_allclose(actual, desired, atol=1e-2), bvp and ivp; "
    "tests/test_robust_poisson.py asserts 1 % / 5 % relative L2 error, weaker); linearity residual "
    "|V[a r1 + b r2] - a V[r1] - b V[r2]| <= 1e-4 * (Q12 + |a| Q1 + |b| Q2), Q = sum|c_i| (the solver's default tol 1e-6 on u = rV seen "
    "at r >= 0.02; observed <= 4e-7; all observed values are written to the evidence); robust solver on its own core model <= 1e-6 (zero residual, bvp tol 1e-6; observed 1e-10). "
    "Resolution envelope, determined empirically on the pinned tree (largest error observed inside it, thorough tier: 3.6e-3, 0.17 of its threshold): radial grids "
    "G1 = GaussLegendre(n in 60..100) o BeckeRTransform(rmin 1e-5, R in 1..2) [tests' grid] and G2 = Trapezoidal(n in 60..120) o "
    "BeckeRTransform(rmin 1e-6, R, trim_inf=True) [tests' grid, first point = rmin], InverseRTransform of it as the transform, one "
    "angular degree in 11..17 (thorough: ..23); exponents 0.4 <= a <= 6 (r_last^2 a >= 40: density negligible at the last radial "
    "point); spherical case: centres on the atom, include_origin True (G1, G2) or False (G2 only: with G1 the first radial point is "
    "~1e-3 and the forced u(r_1)=0 costs r_1 V(0)/r, 2e-2..2.5e-1 near the nucleus -- the documented caveat of include_origin=False), "
    "remove_large_pts in {10..25, 1e6} and None on G1 (on G2 the last point is 1e16 and must be removed); l > 0 case: Gaussians displaced by d <= 0.5 with a d <= 2, remove_large_pts in 10..25 "
    "(the upper boundary value 0 of the dipole component costs about d r / r_last^3), include_origin False on G2 in the quick tier "
    "(with the origin in the mesh solve_bvp needs ~2e4 nodes / 20-40 s for every non-zero l >= 1 component: thorough tier only); "
    "molecular grids: 2-3 atoms 1.5..3 bohr apart, Becke weights order 3, Gaussians on the atoms, G2, include_origin False, "
    "remove_large_pts 10; outside the envelope (default remove_large_pts=1e6 with an l > 0 density on G1) solve_bvp stops with "
    "'didn't converge' -- an exception, not a wrong value. Initial-value solver: spherical densities, r_interval = (max r, min r) as in the "
    "tests, on GaussLegendre(80..150) o BeckeRTransform(0.01, 1.5) with angular degree <= 5 or on Trapezoidal(400..800) o "
    "LinearFiniteRTransform(1e-3, 50..100) with degree 7..11 (the tests' kind of grid), points at distance >= 0.05; on the Becke grid "
    "with degree >= 9 the answer is destroyed by amplified rounding noise (listed finding poisson.solve_poisson_ivp:high-l, replayed on "
    "every run). Robust solver: H or C centre on G1, density = core "
    "model (+ 0..2 smooth Gaussians 0.4 <= a <= 3), split2 False/True. "
    "interpolate_laplacian (atomic grids G1 / G2, f = h_l(x - c) e^{-a|x - c|^2}, h_l = 1, x, x^2 - y^2, or an s-Gaussian displaced by d <= 0.5; 150 points at distance "
    "0.05 .. 3/sqrt(a), and 12 points inside a cutoff in 0.05..0.4 against the closed form at r = cutoff): max error <= 5e-2 * (4l+6) a max|f| "
    "(observed <= 4.1e-3 over 60 grids x 4 shapes; the spline's second derivative limits it); molecular grids (2-3 atoms, atomic grids of equal and of different "
    "sizes): |L_mol - sum_A L_A[(w_A f)|_A]| <= 1e-10 relative (observed 0), no closeness to the analytic Laplacian is asserted there (w_A f is not band-limited at "
    "the grids' degree). Invariance scenarios (keys poisson:state:func_vals / :grid / :molgrid, poisson:options, poisson:dtype, poisson:extreme; grids "
    "Trapezoidal(140..170) o LinearFiniteRTransform(1e-3, 18..24) degree 3/5 -- both solvers fast and accurate --, a coarse molecular G2 grid, G1 with degree 25 "
    "(thorough: 35..53)): every answer on reused objects equals the answer on freshly built objects (same NumPy seed) to 1e-10, caller arrays / dicts unchanged "
    "bit for bit, dtype / container variants within 1e-4 * Q of the float64 answer, a boundary value B + dB shifts the l = 0 answer by dB Y00 (r - lo)/((hi - lo) r) "
    "to 1e-6 with hi = remove_large_pts = a radial point, int boundary / remove_large_pts / include_origin raise TypeError, MolGrid(store=False) raises ValueError, "
    "and the fresh answers themselves are within 1e-2 * Q of the analytic potential (5e-2 on the coarse molecular grid). "
    "correspondence (the posed problems): every call the library makes to solve_ode_bvp / solve_ode_ivp is intercepted (harness "
    "process only) on random atomic / molecular grids (radial 6..25 points, degrees 3..13, with/without r = 0, options include_origin x "
    "remove_large_pts {None, inside the mesh, 1e6} x boundary {None, float}); mesh, number and order of problems, boundary "
    "conditions / initial data, coefficient functions and right-hand side at mesh and random radii (incl. r = 0), solver options, "
    "the back-substitution (u/r, mask at r = 0) and the sum over (l, m), the per-atom slices w_A rho and the sum over atoms, the "
    "robust residual / core density / total are compared with the Lean model (driver); interpolate_laplacian(grid, f)(points, cutoff) on random atomic and 2-3-atom "
    "molecular grids (equal / different atomic sizes, AtomGrid vs one-atom MolGrid route, store=False rejected) at random points, at a centre, inside / exactly at / just above "
    "the cutoff, cutoffs {default, 1e-6, 1e-3, 0.5, 1e-8, 2^-10}, batch vs single point, caller's points unchanged: the model gets rho_lm, rho_lm', rho_lm'' from "
    "radial_component_splines at the model's clamped radius and Y_lm from generate_real_spherical_harmonics, rtol 1e-12 of the largest term. "
    "Round 3 (AGENT_ROUND3 classes 7-13), envelopes measured on the pinned tree and written next to the cases: [7] coefficient functions at r in {0, -0, 5e-324, 1e-300, 1e-12, 1e-10/1.01, 1e-10, 1.01e-10, 1e-8}, "
    "interpolants at 1e-300 x {1/1.01, 1, 1.01, 1e-2, 1e2} from a centre at the origin, remove_large_pts = radial point x {1, 1.01, 1/1.01, 100, 1/100}, radial points {1e4, 1e6/1.01, 1e6, 1.01e6, 1e8} under the default, "
    "first radial point {0, -0, 5e-324, 1e-300, 1e-10}, domain[0] in {-1 .. -5e-324, -0, 0, 5e-324 ..}, r_interval equal / 1 % apart / default; oracle: first radial point {0, 1e-300, 1e-12, 0.99e-10, 1e-10, 1.01e-10, 1e-8} "
    "(ValueError accepted below 1e-11), r_interval x {0.99, 1.01, 1e-2, 1e2} of (1000, 1e-5) on GaussLegendre(120..160) o Becke(1e-6, 1.5) degree 3 and default == (1000, 1e-5) given, boundary shift dB Y00/hi with "
    "hi = largest point <= remove_large_pts x {1, 1.01, 1/1.01}, interpolate_laplacian at 1e-6 x {0.01, 0.5, 1/1.01} (= value at radius 1e-6) and x {1.01, 100} (= unclamped); [8] |V[a rho] - a V| <= max(1e-2 |a| Q, floor): "
    "bvp floor 1e-8 for a in {1e-300, 1e-50, 1e-12..1e-6} (observed 3e-10), ivp floor 1e-4 (observed 1.5e-5: for |a| <= 1e-9 the ivp answer is up to 1e6 x too large relative to a Q, inside its absolute tolerance), ivp |a| up to 1e8 "
    "(thorough 1e100) relative 1e-2 (observed 3e-4), L[2^k f] = 2^k L[f] to 1e-12 for k in {-900, -166, .., 900}; translation of grid, density and points by (+-2^10..14, 0, +-2^7..11) and (+-2^17|20, +-2^17|20, ..): solvers within "
    "1e-4 Q of the untranslated answer (observed bvp 8e-11, ivp 6.5e-5) and 1e-2 Q of the analytic one, Laplacian 1e-5 relative, molecular bvp 1e-4 Q; [9] arrays returned by the callables overwritten by the caller, density / atnums "
    "buffers reused after the solve: later evaluations unchanged to 1e-10 (the closure of solve_poisson_robust keeps views of the rows of atcoords: reported, replayed only when listed); [10] cutoffs 0.3 / 0.1 and include_origin "
    "True / False alternating on one object; [11] first call on a fresh grid object with non-default options == the same call on a used object; [12] centre off the origin with a rotated frame (rotate seed): points on radial "
    "shells along +-z, +-x, y, the Cartesian origin, the centre itself (finite); grids with 2..5 radial points in the correspondence; [13] additivity off-centre / molecular (bvp, bound 1e-4 per unit charge, observed 3e-7), "
    "ivp additivity 5e-4 per unit charge (observed 8.3e-5: its accuracy level), molecular amplitude homogeneity 1e-5..1e3 (observed <= 0.1 of the bound), robust split2=True on 2-atom molecules with remove_large_pts in 40..100 or 1e6, "
    "include_origin=False and the basis [0.3, 1, 3, 9, 27] (observed <= 0.55 of the threshold; remove_large_pts 25: up to 1.5, 10: up to 11 -- outside; with the DEFAULT 20-exponent basis 0.04 .. 2.0 and "
    "RuntimeError from scipy's nnls in ~10 % of random molecules -- outside, reported), robust split2 with the density inside core model + basis: exact to 1e-6 (observed 2e-9). "
    "Round 4 (AGENT_ROUND4 classes 14-20): [19] the returned potentials at 8-10 log-spaced distances in 1e-12 .. 1e-6 (molecular: 1e-9 .. 1e-6) from every atomic centre, random directions and along the axes, off-origin "
    "and rotated atomic grids, 2-3-atom molecular grids, bvp and robust (both splits): within 1e-2 Q of the analytic potential and within 1e-3 Q of the value at 1e-5 in the same direction (pristine: include_origin=True flat to "
    "1e-11, <= 3e-3 of the tolerance, 4e-2 at 1e-12; include_origin=False carries the documented r_1 V(0)/r, which is added to the tolerance -- molecular cases use a first radial point of 1e-10 and distances 1e-9 .. 1e-6 (1e-11: 'didn't converge' for 7 % of random molecules); molecular grids with the origin in "
    "the mesh are accurate but take 25..440 s; the initial-value solver is off by 7..60 x at 1e-5 and ~1/r below -- documented difficulty at the origin, not asserted); interpolate_laplacian with an explicit cutoff in 1e-10..1e-7 and "
    "points log-spaced over 1e-12..1e-6 on both sides of it; [14] radial points / weights held by the grid as read-only, strided and negative-stride views, centre as int64 / float32 / read-only / strided, atcoords as list / float32 / "
    "Fortran / read-only / negative-stride / row of a larger array, atnums as list / int32 / float64 / uint8, aim_weights of a one-atom MolGrid as int64 / bool / float32 / read-only / strided; [15] omitted vs None vs explicit "
    "defaults for every option, alphas_basis given with split2=False, positional vs keyword; [16] densities as views into larger caller arrays used for several solves (bytes around unchanged), the module's default basis object "
    "passed explicitly, the grid's own points as evaluation points; [17] complex densities: ivp and interpolate_laplacian are linear over C (asserted), bvp discards the imaginary part with a ComplexWarning (reported, not asserted); "
    "[18] eleven kinds of rejected calls leave no trace on the grid object; [20] 1 and 2 evaluation points, molecular grids of unequal atomic sizes, heteronuclear core models of different lengths (exact). "
    "The failing-input search after a broken obligation is ordered (first replicate of every kind, cheapest first) and capped at 200 s / 3 concrete failures. Non-trivial = a case with at least 4 radial "
    "problems (l_max//2 >= 1) and a non-zero density"
)
TRUSTED_BASE = [
    "Lean 4.33 kernel, Mathlib; axioms propext, Classical.choice, Quot.sound only (audited per theorem)",
    "C17 (GridVerif.C17.s_solves_poisson, s_far, s_closed_form_is_coulomb_integral): erf(sqrt(a) r)/r is the Coulomb potential of (a/pi)^{3/2} e^{-a r^2}",
    "translator harness/translate/poisson.py (AST fragments -> scalar Lean definitions, incl. interpolate_laplacian: clamp, derivative orders, einsum shapes, degrees "
    "comprehension, closure binding of the per-atom lambda); validated at Float against the intercepted callables / the real interpolate_laplacian on every run",
    "translator harness/translate/poisson_robust.py (robust_poisson.py statement by statement: numeric text -> scalar definitions, guards -> decidable predicates, plumbing -> records pinned by "
    "robust_structure) and hand model Model/PoissonRobust.lean (row sums, strict zip, mask selection, matrix-vector product, accumulators, geomspace, isinstance table); scipy.optimize.nnls enters as a recorded answer",
    "hand model Model/Poisson.lean (mesh options, (l,m) sequence, sums, slices, robust folds, the three contractions of laplacianAt), tied by correspondence",
    "the separated form of the Laplacian in spherical coordinates and the eigenfunction property of Y_lm are definitions / named hypotheses, not theorems",
    "scipy.special.erf as the numerical value of the reference; SciPy solve_bvp / solve_ivp, CubicSpline, nnls are exercised, not modelled",
]
ASSUMPTIONS = [
    "the accuracy clause is an exploration result inside the stated envelope, not a theorem; thresholds are the ones the library's tests assert",
    "linearity of the numerical answer is checked as a residual; the theorem needs uniqueness of the solver's answer (proved for the exact posed problem of every l: bvp_unique_monopole, bvp_unique_higher; an assumption for the numerical solver)",
    "the invariance scenarios fix NumPy's global seed before every solve (solve_ode_bvp draws its initial guess from it); without that two solves of the same input differ by ~1e-13",
    "points closer than ~1e-15 to an atomic centre are indistinguishable from r = 0 in the transformed radial variable; the boundary-value interpolant returns 0 there (documented u(0) = 0 assumption): only finiteness is asserted below 1e-7",
    "radial_component_splines, atomgrid.integrate, generate_real_spherical_harmonics and coulomb_potential enter the correspondence as inputs (C05/C08/C09/C17 are their properties)",
    "IEEE rounding not modelled: equality over the reals in the lemmas, rtol 1e-12 in the correspondence",
    "type checks of the options (TypeError) and shape validation are outside the model",
]

RTOL = 1e-12


# ----------------------------------------------------------------------------------------------
# self-contained case runner (also the body of every replay snippet)
# ----------------------------------------------------------------------------------------------
RUN_SRC = r'''
import warnings; warnings.filterwarnings('ignore')
import json, numpy as np
from scipy.special import erf

def _grid_parts(g):
    from grid import onedgrid, rtransform
    from grid.atomgrid import AtomGrid
    oned = getattr(onedgrid, g['oned'])(g['n'])
    if g['tf'] == 'Becke':
        tf = rtransform.BeckeRTransform(g['rmin'], R=g['R'], trim_inf=g.get('trim', False))
    else:
        tf = rtransform.LinearFiniteRTransform(g['rmin'], g['R'])
    radial = tf.transform_1d_grid(oned)
    return radial, tf, rtransform.InverseRTransform(tf), AtomGrid

def _rho(pts, gauss):
    out = np.zeros(len(pts))
    for c, a, R in gauss:
        out += c * (a / np.pi) ** 1.5 * np.exp(-a * np.sum((pts - np.asarray(R)) ** 2, axis=1))
    return out

def _ref(pts, gauss):
    """sum c erf(sqrt(a) d)/d  (2 sqrt(a/pi) at d = 0): the potential C17 proves."""
    out = np.zeros(len(pts))
    for c, a, R in gauss:
        d = np.linalg.norm(pts - np.asarray(R), axis=1)
        with np.errstate(divide='ignore', invalid='ignore'):
            v = np.where(d > 0, erf(np.sqrt(a) * d) / d, 2.0 * np.sqrt(a / np.pi))
        out += c * v
    return out

def _points(spec, centers, r_last):
    rng = np.random.default_rng(spec['pseed'])
    k = spec.get('npts', 200)
    p = rng.normal(size=(k, 3))
    p /= np.linalg.norm(p, axis=1)[:, None]
    rad = np.exp(rng.uniform(np.log(spec.get('rlo', 0.02)), np.log(0.5 * r_last), size=k))
    c = np.asarray(centers)[rng.integers(0, len(centers), size=k)]
    return c + p * rad[:, None]

def run(spec):
    """-> (observed, threshold, detail)"""
    try:
        return _run_inner(spec)
    except RuntimeError as e:
        # scipy.optimize.nnls gives up ('Maximum number of iterations reached', its default budget is 3 x number of exponents) inside the greedy fit of the second
        # split for ~5-10 % of random two-atom molecules, with the default and with compact bases alike (pinned tree; witness in the round-4 report): no answer is
        # returned, so there is nothing to compare -- recorded as an observation for the lead, not asserted (any other exception propagates)
        if 'Maximum number of iterations' in str(e) and spec.get('kind') in ('robust', 'near') and (spec.get('split2') or spec.get('kind') == 'robust'):
            return 0.0, 1.0, 'scipy nnls stopped with "Maximum number of iterations reached" inside the second split: no answer returned (observation, not asserted)'
        raise
    except ValueError as e:
        # amplitude homogeneity: solve_ode_bvp gives up ('didn't converge', absolute tolerance of solve_bvp) for large amplitudes -- DESIGN 8.3 records |a| >= 1e4 for
        # spherical densities; with l > 0 components it already happens at |a| Q ~ 400 (a = 290, c = 1.398 on Trapezoidal(62) o Becke(1e-6, 1.959), degree 11, pinned tree).
        # A rejection, not a wrong value: accepted for |a| >= 100 only
        if spec.get('kind') == 'homog' and abs(spec.get('a', 0.0)) >= 100.0 and "didn't converge" in str(e):
            return 0.0, 1.0, "solve_ode_bvp stopped with 'didn't converge' at a large amplitude (documented rejection, not a value)"
        raise


def _run_inner(spec):
    import grid
    from grid.molgrid import MolGrid
    from grid.becke import BeckeWeights
    from grid.poisson import solve_poisson_bvp, solve_poisson_ivp
    from grid.robust_poisson import solve_poisson_robust
    np.random.seed(spec.get('npseed', 0))          # solve_ode_bvp draws its initial guess from the global state
    radial, tf, inv, AtomGrid = _grid_parts(spec['grid'])
    centers = [np.asarray(c, dtype=float) for c in spec['atoms']]
    atgrids = [AtomGrid(radial, degrees=[spec['grid']['deg']], center=c, rotate=spec['grid'].get('rotate', 0)) for c in centers]   # rotate != 0: a randomly rotated angular frame per shell
    if len(atgrids) == 1:
        mg = atgrids[0]
    else:
        mg = MolGrid(np.array([1] * len(centers)), atgrids, BeckeWeights(order=3), store=True)
    kw = dict(spec.get('options', {}))
    rl = kw.get('remove_large_pts', 1e6)
    r_last = float(np.max(radial.points)) if rl is None else min(float(np.max(radial.points)), rl)
    r_last = float(np.max(radial.points[radial.points <= r_last]))
    r_last = min(r_last, spec.get('rcap', 40.0))
    pts = _points(spec, centers, r_last)
    kind = spec['kind']
    def solve(gauss):
        vals = _rho(mg.points, gauss)
        if kind == 'ivp' or spec.get('ivp'):
            return solve_poisson_ivp(mg, vals, inv, r_interval=(float(spec.get('r0', np.max(radial.points))), float(spec.get('r1', np.min(radial.points)))))
        return solve_poisson_bvp(mg, vals, inv, **kw)
    if kind in ('bvp', 'ivp'):
        g = spec['gauss']
        err = float(np.max(np.abs(solve(g)(pts) - _ref(pts, g))))
        return err, spec['atol_unit'] * sum(abs(c) for c, _, _ in g), 'max abs error vs analytic potential'
    if kind == 'linear':
        g1, g2, a, b = spec['gauss'], spec['gauss2'], spec['a'], spec['b']
        g12 = [(a * c, al, R) for c, al, R in g1] + [(b * c, al, R) for c, al, R in g2]
        v12, v1, v2 = solve(g12)(pts), solve(g1)(pts), solve(g2)(pts)
        res = float(np.max(np.abs(v12 - a * v1 - b * v2)))
        q = lambda g: sum(abs(c) for c, _, _ in g)
        return res, spec['linear_atol_unit'] * (q(g12) + abs(a) * q(g1) + abs(b) * q(g2)), 'linearity residual'
    if kind == 'homog':
        # linearity in the amplitude alone: V[a rho] = a V[rho] for amplitudes many orders of magnitude away from one
        # (weak response / difference densities, other units); independent of the discretisation error
        g1, a = spec['gauss'], spec['a']
        ga = [(a * c, al, R) for c, al, R in g1]
        v1, va = solve(g1)(pts), solve(ga)(pts)
        res = float(np.max(np.abs(va - a * v1)))
        # and the scaled density against the analytic potential, relative to its own charge
        err = float(np.max(np.abs(va - _ref(pts, ga))))
        q = sum(abs(c) for c, _, _ in g1)
        return max(res / (spec['linear_atol_unit'] * 2 * abs(a) * q), err / (spec['atol_unit'] * abs(a) * q)), 1.0, \
            'amplitude homogeneity |V[a rho] - a V[rho]| and |V[a rho] - analytic|, each in units of its tolerance'
    if kind == 'robust':
        with open(grid.__path__[0] + '/data/atomic_gauss_params.json') as f:
            table = json.load(f)
        core = []
        for sym, c in zip(spec['symbols'], centers):
            core += [(ck, ak, c) for ck, ak in zip(table[sym]['coeffs_s'], table[sym]['alphas_s'])]
        g = core + [tuple(x) for x in spec['gauss']]
        rho = _rho(mg.points, g)      # tabulated once; a caller keeps using this array
        ab = None if spec.get('alphas_basis') is None else np.array(spec['alphas_basis'])
        V = solve_poisson_robust(mg, rho, inv, np.array(spec['atnums']), np.array(centers),
                                 split2=spec.get('split2', False), alphas_basis=ab, **kw)
        err = float(np.max(np.abs(V(pts) - _ref(pts, g))))
        if spec.get('exact_fit'):
            # density = core model + members of the split-2 basis: the fit is exact, only the numerical solve of a ~zero residual remains; the same array
            # solved again without the second split is an ordinary smooth residual (accuracy threshold)
            V2 = solve_poisson_robust(mg, rho, inv, np.array(spec['atnums']), np.array(centers), split2=False, **kw)
            err2 = float(np.max(np.abs(V2(pts) - _ref(pts, g))))
            return max(err / spec['exact_core_atol'], err2 / (spec['atol_unit'] * sum(abs(c) for c, _, _ in g))), 1.0, \
                'robust solver, split2 with the density inside core model + basis: |V - analytic| / 1e-6, and split1 on the same array / accuracy threshold'
        if spec.get('vs_plain'):
            # "agrees with the plain solver on smooth densities": same grid, same tabulated density, same options; both are
            # accurate to ~5e-4 here, so their difference is held to 0.3 of the accuracy threshold
            Vp = solve_poisson_bvp(mg, rho, inv, **kw)
            err = max(err, float(np.max(np.abs(V(pts) - Vp(pts)))) / 0.3)
        else:
            # the same tabulated density solved again (other split option): must still be the potential of rho
            V2 = solve_poisson_robust(mg, rho, inv, np.array(spec['atnums']), np.array(centers),
                                      split2=not spec.get('split2', False), alphas_basis=ab, **kw)
            err = max(err, float(np.max(np.abs(V2(pts) - _ref(pts, g)))))
        if not spec['gauss']:
            return err, spec['exact_core_atol'], 'robust solver on its own core model vs analytic core potential'
        return err, spec['atol_unit'] * sum(abs(c) for c, _, _ in g), 'robust solver vs analytic potential'
    if kind == 'diffuse':
        # "an option left unset means the documented default on every route": densities with a diffuse component (exponent 0.01 .. 0.04, reaching 20-40 bohr) on a grid
        # that resolves it, every range option (remove_large_pts, include_origin, boundary, r_interval) LEFT AT ITS DEFAULT and also given explicitly with the documented
        # default value; bvp / ivp / robust (both splits) against the analytic potential, robust against the plain solver with the same options, defaults vs explicit
        g = [tuple(x) for x in spec['gauss']]
        with open(grid.__path__[0] + '/data/atomic_gauss_params.json') as f:
            table = json.load(f)
        gr = [(ck, ak, centers[0]) for ck, ak in zip(table['H']['coeffs_s'], table['H']['alphas_s'])] + g
        q, qr = sum(abs(c) for c, _, _ in g), sum(abs(c) for c, _, _ in gr)
        rho, rhor = _rho(mg.points, g), _rho(mg.points, gr)
        pts = _points({**spec, 'rlo': 0.01}, centers, 80.0)
        explicit = {'boundary': None, 'include_origin': True, 'remove_large_pts': 1e6, 'ode_params': None}
        worst, where = 0.0, ''

        def upd(label, err, tol):
            nonlocal worst, where
            if not (err / tol <= worst):
                worst, where = err / tol, f'{label}: {err:.3e} vs {tol:.3e}'

        np.random.seed(spec.get('npseed', 0))
        vp = solve_poisson_bvp(mg, rho, inv)(pts)
        np.random.seed(spec.get('npseed', 0))
        vpe = solve_poisson_bvp(mg, rho, inv, **explicit)(pts)
        # (against the analytic potential these diffuse densities are NOT inside the accuracy envelope of G1: 0.02 .. 25 x the threshold over 15 random grids on the pinned tree;
        #  the consistency clauses below do not depend on the resolution: robust split 1 vs plain observed <= 1.6e-4 Q -> held to 5e-4 Q, split 2 up to 1e-3 Q -> held to 1e-2 Q)
        upd('bvp, defaults vs the documented defaults given explicitly', float(np.max(np.abs(vp - vpe))), 1e-10 * q)
        np.random.seed(spec.get('npseed', 0))
        vpr = solve_poisson_bvp(mg, rhor, inv)(pts)
        for s2 in spec['splits']:
            ab = np.array(spec['alphas_basis']) if s2 else None
            np.random.seed(spec.get('npseed', 0))
            vr = solve_poisson_robust(mg, rhor, inv, np.array([1]), np.array(centers), split2=s2, alphas_basis=ab)(pts)
            np.random.seed(spec.get('npseed', 0))
            vre = solve_poisson_robust(mg, rhor, inv, np.array([1]), np.array(centers), split2=s2, alphas_basis=ab, **explicit)(pts)
            upd(f'robust split2={s2}, no bvp option given, vs the plain solver with no option given', float(np.max(np.abs(vr - vpr))), (spec['atol_unit'] if s2 else 5 * spec['linear_atol_unit']) * qr)      # split 1: observed <= 1.6e-4 Q on grids that resolve the diffuse part poorly (<= 1e-5 Q otherwise)
            upd(f'robust split2={s2}: no option given vs the documented defaults given explicitly', float(np.max(np.abs(vr - vre))), spec['linear_atol_unit'] * qr)
        if spec.get('ivp'):
            far = pts[np.linalg.norm(pts - centers[0], axis=1) >= 0.05]
            vi = solve_poisson_ivp(mg, rho, inv)(far)
            vie = solve_poisson_ivp(mg, rho, inv, r_interval=(1000, 1e-5), ode_params=None)(far)
            upd('ivp, r_interval left at its default, vs analytic (distance >= 0.05)', float(np.max(np.abs(vi - _ref(far, g)))), spec['atol_unit'] * q)
            upd('ivp, default vs r_interval=(1000, 1e-5) given', float(np.max(np.abs(vi - vie))), 1e-12 * q)
        return worst, 1.0, 'diffuse density, range options unset vs documented defaults, in units of the tolerances; worst: ' + where
    if kind == 'near':
        # round 4, class 19: evaluation points at distances 1e-12 .. 1e-6 from every atomic centre (log-spaced; random directions and along the axes),
        # where the interpolant divides the spline of u = r V by r and the harmonics get the angles of a tiny vector.  Against the analytic potential and
        # for continuity with the value at 1e-5 in the same direction.  With include_origin=False the documented cost of the forced u(r_1) = 0
        # (r_1 V(0) / r, see RULE) is part of the tolerance: + 2 r_1 Vmax / d, Vmax = sum |c_i| 2 sqrt(a_i / pi).
        g = [tuple(x) for x in spec['gauss']]
        if spec.get('route') == 'robust':
            with open(grid.__path__[0] + '/data/atomic_gauss_params.json') as f:
                table = json.load(f)
            core = []
            for sym, c in zip(spec['symbols'], centers):
                core += [(ck, ak, c) for ck, ak in zip(table[sym]['coeffs_s'], table[sym]['alphas_s'])]
            g = core + g
            V = solve_poisson_robust(mg, _rho(mg.points, g), inv, np.array(spec['atnums']), np.array(centers), split2=spec.get('split2', False),
                                     alphas_basis=None if spec.get('alphas_basis') is None else np.array(spec['alphas_basis']), **kw)
        else:
            V = solve_poisson_bvp(mg, _rho(mg.points, g), inv, **kw)
        rng = np.random.default_rng(spec['pseed'])
        lo, hi, k = spec['dlo'], spec['dhi'], spec.get('ndist', 10)
        q = sum(abs(c) for c, _, _ in g)
        vmax = sum(abs(c) * 2.0 * np.sqrt(a / np.pi) for c, a, _ in g)
        r1 = 0.0 if kw.get('include_origin', True) else float(np.min(radial.points))
        worst, where = 0.0, None
        for c in centers:
            d = np.exp(rng.uniform(np.log(lo), np.log(hi), size=k))
            d[0], d[-1] = lo, hi
            u = rng.normal(size=(k, 3))
            u /= np.linalg.norm(u, axis=1)[:, None]
            ax = np.eye(3)[rng.integers(0, 3, size=k)] * rng.choice([-1.0, 1.0], size=k)[:, None]
            for dirs in (u, ax):
                p, pref = c + dirs * d[:, None], c + dirs * 1e-5
                dd = np.linalg.norm(p - c, axis=1)          # the distance actually realised in double precision
                v, vref = V(p), V(pref)
                tol = spec['atol_unit'] * q + 2.0 * r1 * vmax / dd
                e1 = np.abs(v - _ref(p, g)) / tol
                e2 = np.abs(v - vref) / (0.1 * spec['atol_unit'] * q + 2.0 * r1 * vmax / dd)
                e = np.where(np.isfinite(v), np.maximum(e1, e2), np.inf)
                j = int(np.argmax(e))
                if e[j] > worst:
                    worst, where = float(e[j]), (c.tolist(), float(dd[j]), float(v[j]), float(vref[j]))
        return worst, 1.0, f'potential at distances {lo:g} .. {hi:g} from the atomic centres vs analytic (1e-2 Q) and vs its value at 1e-5 in the same direction (1e-3 Q), in units of the tolerance; worst at (centre, distance, value, value at 1e-5) = {where}'
    if kind == 'laplacian':
        # f = h_l(x - c) exp(-a |x - c|^2), h_l a solid harmonic of degree l:  Laplacian f = h_l (4 a^2 d^2 - (4 l + 6) a) exp(-a d^2)
        from grid.poisson import interpolate_laplacian
        a, shape = spec['a'], spec['shape']
        c = np.asarray(spec['center'], dtype=float)
        l, h = {'s': (0, lambda q: np.ones(len(q))), 'off': (0, lambda q: np.ones(len(q))), 'p': (1, lambda q: q[:, 0]),
                'd': (2, lambda q: q[:, 0] ** 2 - q[:, 1] ** 2)}[shape]
        f = lambda p: h(p - c) * np.exp(-a * np.sum((p - c) ** 2, axis=1))
        lap = lambda p: h(p - c) * (4 * a * a * np.sum((p - c) ** 2, axis=1) - (4 * l + 6) * a) * np.exp(-a * np.sum((p - c) ** 2, axis=1))
        scale = (4 * l + 6) * a * [1.0, 1.0 / np.sqrt(2 * a), 1.0 / a][l]
        rng = np.random.default_rng(spec['pseed'])
        k = spec.get('npts', 150)
        p = rng.normal(size=(k, 3))
        p /= np.linalg.norm(p, axis=1)[:, None]
        ctr = np.asarray(centers)[rng.integers(0, len(centers), size=k)]
        p = ctr + p * np.exp(rng.uniform(np.log(0.05), np.log(3.0 / np.sqrt(a)), size=k))[:, None]
        vals = f(mg.points)
        L = interpolate_laplacian(mg, vals)
        err = float(np.max(np.abs(L(p) - lap(p)))) / scale
        err = max(err, float(np.max(np.abs(L(p[::-1].copy(), 1e-6) - lap(p[::-1])))) / scale)      # again, explicit default cutoff, reversed order
        # documented clamp: a point closer to the atom than `cutoff` is evaluated at radius `cutoff` (same direction)
        if len(centers) == 1 and spec.get('cut'):
            cut = spec['cut']
            u = rng.normal(size=(12, 3))
            u /= np.linalg.norm(u, axis=1)[:, None]
            t = np.array([0.5, 1e-3, 0.999, 0.1, 1.0, 1e-6] * 2)
            inside, on = centers[0] + u * (t * cut)[:, None], centers[0] + u * cut
            err = max(err, float(np.max(np.abs(L(inside, cut) - lap(on)))) / scale)
        if len(centers) == 1 and spec.get('near_default'):
            # both sides of the DEFAULT cutoff 1e-6 (factors 1.01 and 100): a point inside it is evaluated at radius 1e-6 in its own
            # direction, a point outside it is not clamped (same value as with an explicit, much smaller cutoff).  Near the centre the
            # terms 2 rho'/r and l(l+1) rho/r^2 are individually ~1/r, so the comparison is between two evaluations of the library
            # (relative to the largest of them), not with the closed form.
            u = rng.normal(size=(6, 3))
            u /= np.linalg.norm(u, axis=1)[:, None]
            c0 = centers[0]
            on = L(c0 + u * 1e-6, 1e-6)
            # at 1e-6 from the centre the value is dominated by the amplified rounding noise of the l > 0 components (1e4 on a rotated degree-17 grid, true
            # value -6a): the comparison is relative to the largest of the six values; the direction of c0 + t u differs from u by ~1e-8 (rounding): observed <= 7e-8
            far = max(float(np.max(np.abs(on))), scale)
            for t in (0.01, 1.0 / 1.01, 0.5):
                err = max(err, spec['lap_rtol'] * float(np.max(np.abs(L(c0 + u * (t * 1e-6)) - on)) / far) / 1e-5)
            for t in (1.01, 100.0):
                out = c0 + u * (t * 1e-6)
                ref_out = L(out, 1e-12)
                err = max(err, spec['lap_rtol'] * float(np.max(np.abs(L(out) - ref_out) / np.maximum(np.abs(ref_out), scale))) / 1e-9)
            # round 4: an explicit cutoff between 1e-10 and 1e-7, evaluation points log-spaced over 1e-12 .. 1e-6 on both sides of it
            cut2 = spec.get('cut2')
            if cut2:
                on2 = L(c0 + u * cut2, cut2)
                far2 = max(float(np.max(np.abs(on2))), scale)
                for dist in np.exp(rng.uniform(np.log(1e-12), np.log(1e-6), size=8)):
                    if dist < cut2 / 1.001:
                        # the direction of fl(c0 + dist u) - c0 differs from u by eps |c0| / dist (rounding of the Cartesian coordinates), and near the centre the value is
                        # dominated by direction-dependent amplified noise: the allowed relative deviation carries that term
                        tol_in = 1e-4 + 20 * 2.2e-16 * max(1.0, float(np.max(np.abs(c0)))) / min(dist, cut2)
                        err = max(err, spec['lap_rtol'] * float(np.max(np.abs(L(c0 + u * dist, cut2) - on2)) / far2) / tol_in)
                    elif dist > cut2 * 1.001:
                        out = c0 + u * dist
                        ref_out = L(out, 1e-13)
                        err = max(err, spec['lap_rtol'] * float(np.max(np.abs(L(out, cut2) - ref_out) / np.maximum(np.abs(ref_out), scale))) / 1e-9)
        return err, spec['lap_rtol'], 'interpolate_laplacian vs closed form (and points inside the cutoff vs the closed form at r = cutoff), max error / ((4l+6) a max|f|)'
    if kind == 'laplacian-mol':
        # structural clause: the molecular Laplacian is the sum over atoms A of the one-atom Laplacian interpolants of
        # (w_A f) restricted to the points of atom A, each built here from atom A's own grid and slice
        from grid.poisson import interpolate_laplacian
        ags = [AtomGrid(radial, degrees=[d], center=c) for d, c in zip(spec['degs'], centers)]
        mol = MolGrid(np.array([1] * len(centers)), ags, BeckeWeights(order=3), store=True)
        f = _rho(mol.points, spec['gauss'])
        snap = f.copy()
        L = interpolate_laplacian(mol, f)
        rng = np.random.default_rng(spec['pseed'])
        k = spec.get('npts', 60)
        p = rng.normal(size=(k, 3))
        p /= np.linalg.norm(p, axis=1)[:, None]
        p = np.asarray(centers)[rng.integers(0, len(centers), size=k)] + p * np.exp(rng.uniform(np.log(1e-3), np.log(3.0), size=k))[:, None]
        p[0] = centers[0]
        fw = snap * mol.aim_weights
        worst = 0.0
        for cut in spec.get('cuts', [None, 1e-3]):
            got = L(p) if cut is None else L(p, cut)
            parts = [interpolate_laplacian(AtomGrid(radial, degrees=[d], center=c), fw[mol.indices[i]:mol.indices[i + 1]].copy())(p, 1e-6 if cut is None else cut)
                     for i, (d, c) in enumerate(zip(spec['degs'], centers))]
            scale = np.maximum(1.0, np.sum(np.abs(parts), axis=0))
            worst = max(worst, float(np.max(np.abs(got - np.sum(parts, axis=0)) / scale)))
        if not np.array_equal(f, snap):
            worst = float('inf')
        return worst, 1e-10, 'molecular interpolate_laplacian vs sum over atoms of the one-atom interpolants of w_A f on atom A\'s grid and slice (relative)'
    raise ValueError(kind)
'''
_ns: dict = {}
exec(RUN_SRC, _ns)
_run = _ns["run"]


def _snippet(spec) -> str:
    return (RUN_SRC + f"\nspec = json.loads({json.dumps(json.dumps(spec))})\n"
            "obs, thr, what = run(spec)\n"
            "assert obs <= thr, f'{what}: {obs:.3e} > {thr:.3e}'\n")


# ----------------------------------------------------------------------------------------------
# invariance scenarios (state between calls, object identity, dtype / container, options, order, thresholds):
# the answer is a function of the mathematical input only.  Self-contained source (replay snippets).
# ----------------------------------------------------------------------------------------------
INV_SRC = RUN_SRC + r'''
# (body of INV_SRC; appended to RUN_SRC)  -- invariance scenarios: the answer is a function of the inputs only
class _Inv:
    def __init__(self, spec):
        from grid.poisson import solve_poisson_bvp, solve_poisson_ivp, interpolate_laplacian
        from grid.robust_poisson import solve_poisson_robust
        self.bvp, self.ivp, self.robust, self.lap = solve_poisson_bvp, solve_poisson_ivp, solve_poisson_robust, interpolate_laplacian
        self.spec, self.out = spec, []
        self.radial, self.tf, self.inv, self.AtomGrid = _grid_parts(spec['grid'])
        self.rmax, self.rmin = float(np.max(self.radial.points)), float(np.min(self.radial.points))
        self.rng = np.random.default_rng(spec['seed'])
        self.Q = 1.0

    def grid(self, center=(0.0, 0.0, 0.0), deg=None, radial=None):
        return self.AtomGrid(radial if radial is not None else self.radial, degrees=[deg or self.spec['grid']['deg']], center=np.array(center, dtype=float))

    def mol(self, centers, deg=None, store=True):
        from grid.molgrid import MolGrid
        from grid.becke import BeckeWeights
        return MolGrid(np.array([1] * len(centers)), [self.grid(c, deg) for c in centers], BeckeWeights(order=3), store=store)

    def chk(self, label, obs, thr):
        self.out.append((label, float(obs), float(thr)))

    def same(self, label, a, b, rtol=1e-10):
        a, b = np.asarray(a, dtype=float), np.asarray(b, dtype=float)
        if a.shape != b.shape or not np.all(np.isfinite(a)):
            self.chk(label + ' [shape/finite]', 1.0, 0.0)
        else:
            self.chk(label, np.max(np.abs(a - b)) if a.size else 0.0, rtol * max(1.0, float(np.max(np.abs(b))) if b.size else 1.0))

    def unchanged(self, label, arr, snap):
        self.chk(label + ' [caller array modified]', 0.0 if (np.array_equal(np.asarray(arr), snap) and np.asarray(arr).dtype == snap.dtype) else 1.0, 0.5)

    def raises(self, label, exc, fn):
        try:
            fn()
            got = 'no exception'
        except exc:
            got = None
        except Exception as e:
            got = type(e).__name__
        self.chk(label + (' [%s]' % got if got else ''), 0.0 if got is None else 1.0, 0.5)

    def solve(self, kind, g, rho, **kw):
        np.random.seed(7)      # solve_ode_bvp draws its initial guess from the global state: same seed, same answer
        if kind == 'bvp':
            kw.setdefault('remove_large_pts', 10.0)
            return self.bvp(g, rho, self.inv, **kw)
        if kind == 'ivp':
            kw.setdefault('r_interval', (self.rmax, self.rmin))
            return self.ivp(g, rho, self.inv, **kw)
        if kind == 'robust':
            kw.setdefault('remove_large_pts', 10.0)
            return self.robust(g, rho, self.inv, np.array(self.spec.get('atnums', [1])), np.array(self.spec.get('atoms', [[0.0, 0.0, 0.0]]), dtype=float), **kw)
        raise ValueError(kind)

    def points(self, centers, k=40, rlo=0.05):
        return _points({'pseed': int(self.rng.integers(10**6)), 'npts': k, 'rlo': rlo}, [np.asarray(c, dtype=float) for c in centers], min(self.rmax, 10.0))


def _core(sym, center):
    import grid
    with open(grid.__path__[0] + '/data/atomic_gauss_params.json') as f:
        table = json.load(f)
    return [(ck, ak, list(center)) for ck, ak in zip(table[sym]['coeffs_s'], table[sym]['alphas_s'])]


def inv_funcvals(I):
    """one tabulated array reused across solvers in different orders; linear combinations reuse rho1, rho2"""
    sp = I.spec
    Z = [0.0, 0.0, 0.0]
    g = I.grid(Z)
    g1, g2 = _core('H', Z) + [tuple(x) for x in sp['gauss']], [tuple(x) for x in sp['gauss2']]
    a, b = sp['a'], sp['b']
    r1, r2 = _rho(g.points, g1), _rho(g.points, g2)
    r12 = a * r1 + b * r2
    snaps = [r1.copy(), r2.copy(), r12.copy()]
    pts = I.points([Z])
    psnap = pts.copy()
    fresh = {}

    def F(kind, which):           # fresh grid, fresh array
        if (kind, which) not in fresh:
            fresh[(kind, which)] = I.solve(kind, I.grid(Z), snaps[which].copy())(pts.copy())
        return fresh[(kind, which)]

    arrs = [r1, r2, r12]
    seq = [('robust', 0), ('bvp', 0), ('ivp', 0), ('robust', 0), ('bvp', 1), ('bvp', 2), ('ivp', 2), ('bvp', 0), ('robust', 0)]
    if sp.get('perm'):
        seq = [seq[i] for i in sp['perm']]
    got = {}
    for step, (kind, which) in enumerate(seq):
        v = I.solve(kind, g, arrs[which])(pts)
        for w in range(3):
            I.unchanged(f'step {step} {kind}(rho{w + 1}): rho{w + 1}', arrs[w], snaps[w])
        I.unchanged(f'step {step} {kind}: points', pts, psnap)
        I.same(f'step {step}: {kind} on the reused array/grid vs fresh array and grid', v, F(kind, which))
        got[(kind, which)] = v
    gl = [g1, g2, [(a * c, al, R) for c, al, R in g1] + [(b * c, al, R) for c, al, R in g2]]
    q = [sum(abs(c) for c, _, _ in x) for x in gl]
    for (kind, which), v in got.items():
        if True:
            I.chk(f'{kind}(rho{which + 1}) vs analytic potential', np.max(np.abs(v - _ref(pts, gl[which]))), sp['atol_unit'] * q[which])
    I.chk('linearity on the reused arrays', np.max(np.abs(got[('bvp', 2)] - a * got[('bvp', 0)] - b * got[('bvp', 1)])),
          sp['linear_atol_unit'] * (q[2] + abs(a) * q[0] + abs(b) * q[1]))


def inv_params(I):
    """the same ode_params dict reused; non-default tol / max_nodes / method; keyword vs positional"""
    sp = I.spec
    Z = [0.0, 0.0, 0.0]
    g = I.grid(Z)
    gs = [tuple(x) for x in sp['gauss']]
    rho = _rho(g.points, gs)
    q = sum(abs(c) for c, _, _ in gs)
    pts = I.points([Z])
    ref = _ref(pts, gs)
    for kind, d in (('bvp', dict(sp['bvp_params'])), ('ivp', dict(sp['ivp_params']))):
        items = list(d.items())
        v1 = I.solve(kind, g, rho, ode_params=d)(pts)
        I.chk(f'{kind}: caller ode_params after the first call [{list(d.items())!r}]', 0.0 if list(d.items()) == items else 1.0, 0.5)
        v2 = I.solve(kind, g, rho, ode_params=d)(pts)
        I.chk(f'{kind}: caller ode_params after the second call [{list(d.items())!r}]', 0.0 if list(d.items()) == items else 1.0, 0.5)
        v3 = I.solve(kind, I.grid(Z), rho.copy(), ode_params=dict(items))(pts)
        I.same(f'{kind}: second call with the same dict object vs first', v2, v1)
        I.same(f'{kind}: reused dict vs fresh dict', v1, v3)
        I.chk(f'{kind}: ode_params={dict(items)!r} vs analytic potential', np.max(np.abs(v1 - ref)), sp['atol_unit'] * q)
        vd = I.solve(kind, g, rho)(pts)            # defaults after a call with non-default options
        vdf = I.solve(kind, I.grid(Z), rho.copy(), ode_params=None)(pts)
        I.same(f'{kind}: default options after a call with explicit options vs fresh', vd, vdf)
        if kind == 'bvp' and d.get('tol', 1e-6) != 1e-6:
            I.chk('bvp: a different tol gives a (slightly) different answer -- the option is used', 0.0 if np.max(np.abs(v1 - vd)) > 0 else 1.0, 0.5)
    # positional vs keyword
    B = float(g.integrate(rho) * 2.0 * np.sqrt(np.pi))
    np.random.seed(7)
    vp = I.bvp(g, rho, I.inv, B, True, 10.0, None)(pts)
    vk = I.solve('bvp', g, rho, boundary=B, include_origin=True, remove_large_pts=10.0, ode_params=None)(pts)
    I.same('bvp: positional vs keyword arguments', vp, vk)
    I.same('bvp: boundary = integral / Y00 given explicitly vs default', vk, I.solve('bvp', g, rho)(pts), rtol=1e-11)
    np.random.seed(7)
    vp = I.ivp(g, rho, I.inv, (I.rmax, I.rmin), None)(pts)
    I.same('ivp: positional vs keyword arguments', vp, vdf)
    # a wrong boundary value shifts the l = 0 answer by (B' - B) Y00 u_h(r)/r, u_h the solution of u'' = 0, u(lo) = 0, u(hi) = 1
    dB = sp['dB']
    # remove_large_pts exactly equal to a radial point: "removes any points larger than", so that point stays the upper end
    allp = np.sort(I.radial.points)
    rl = float(allp[np.argmin(np.abs(allp - 10.0))])
    for io in (True, False):
        mesh = allp[allp <= rl]
        lo, hi = (0.0 if io else float(mesh[0])), float(mesh[-1])
        v0 = I.solve('bvp', g, rho, boundary=B, include_origin=io, remove_large_pts=rl)(pts)
        v1 = I.solve('bvp', g, rho, boundary=B + dB, include_origin=io, remove_large_pts=rl)(pts)
        r = np.linalg.norm(pts, axis=1)
        sel = (r > lo) & (r < hi)
        shift = dB / (2.0 * np.sqrt(np.pi)) * (r - lo) / (hi - lo) / r
        I.chk(f'bvp: boundary + {dB} shifts the potential by dB*Y00*(r-lo)/((hi-lo) r), hi = remove_large_pts = radial point {rl!r}, include_origin={io}',
              np.max(np.abs((v1 - v0 - shift)[sel])), 1e-6 * (abs(dB) + 2 * q))
    for bad in (1, np.int64(2)):
        I.raises(f'bvp: boundary={bad!r} ({type(bad).__name__})', TypeError, lambda: I.solve('bvp', g, rho, boundary=bad))
    I.raises('bvp: remove_large_pts=10 (int)', TypeError, lambda: I.solve('bvp', g, rho, remove_large_pts=10))
    I.raises('bvp: include_origin=1 (int)', TypeError, lambda: I.solve('bvp', g, rho, include_origin=1))
    vf = I.solve('bvp', g, rho, boundary=B, remove_large_pts=10.0)(pts)
    I.same('bvp: boundary / remove_large_pts as np.float64 vs float', I.solve('bvp', g, rho, boundary=np.float64(B), remove_large_pts=np.float64(10.0))(pts), vf)
    vt = I.solve('ivp', g, rho)(pts)
    for ri in ([I.rmax, I.rmin], np.array([I.rmax, I.rmin])):
        I.same(f'ivp: r_interval as {type(ri).__name__} vs tuple', I.solve('ivp', g, rho, r_interval=ri)(pts), vt)
    I.raises('ivp: r_interval increasing', ValueError, lambda: I.solve('ivp', g, rho, r_interval=(I.rmin, I.rmax)))


def _inv_grid_common(I, label, mk, centers, kinds, opts, with_other_size):
    sp = I.spec
    ga, gb = [tuple(x) for x in sp['gauss']], [tuple(x) for x in sp['gauss2']]
    g = mk()
    gA = [(c, al, centers[0]) for c, al, _ in ga]
    gB = [(c, al, centers[-1]) for c, al, _ in gb]
    rA, rB = _rho(g.points, gA), _rho(g.points, gB)
    sA, sB = rA.copy(), rB.copy()
    pts, pts2 = I.points(centers), I.points(centers, k=7)
    fresh = {}
    for kind in kinds:
        o = opts if kind == 'bvp' else {}
        VA = I.solve(kind, g, rA, **o)
        I.unchanged(f'{label} {kind}: func_vals after the solve', rA, sA)
        a1 = VA(pts)
        go = mk(sp['other_deg'])                               # same radial size, other degree
        I.solve(kind, go, _rho(go.points, gB), **o)(pts2)
        if with_other_size:
            r2, _, _, _ = _grid_parts({**sp['grid'], 'n': sp['grid']['n'] + sp['dn']})
            gs_ = mk(None, r2)                                  # same degree, other radial size
            I.solve(kind, gs_, _rho(gs_.points, gB), **o)(pts2)
        VB = I.solve(kind, g, rB, **o)
        b1 = VB(pts)
        VA2 = I.solve(kind, g, rA, **o)
        I.unchanged(f'{label} {kind}: first func_vals after three solves', rA, sA)
        I.unchanged(f'{label} {kind}: second func_vals after its solve', rB, sB)
        fa = I.solve(kind, mk(), sA.copy(), **o)(pts)
        fb = I.solve(kind, mk(), sB.copy(), **o)(pts)
        fresh[kind] = fa
        I.same(f'{label} {kind}: first solve on the grid object vs fresh grid', a1, fa)
        I.same(f'{label} {kind}: second density on the same grid object (other grids solved in between) vs fresh grid', b1, fb)
        I.same(f'{label} {kind}: first density again on the same grid object vs fresh grid', VA2(pts), fa)
        # callables: interleaved, repeated, other point sets in between
        VA(pts); VB(pts2); x2 = VA(pts2); x3 = VB(pts); x4 = VA(pts)
        I.same(f'{label} {kind}: callable evaluated again after other evaluations', x4, a1)
        I.same(f'{label} {kind}: callable of the second solve evaluated after the first one', x3, b1)
        I.same(f'{label} {kind}: callable on a second point set vs one point at a time', x2, np.array([VA(pts2[j:j + 1])[0] for j in range(len(pts2))]), rtol=1e-12)
        I.chk(f'{label} {kind}: vs analytic potential', np.max(np.abs(a1 - _ref(pts, gA))), sp['atol_unit'] * sum(abs(c) for c, _, _ in gA))
        I.chk(f'{label} {kind}: second density on the same grid object vs analytic potential', np.max(np.abs(b1 - _ref(pts, gB))), sp['atol_unit'] * sum(abs(c) for c, _, _ in gB))
    return g, sA.copy(), gA, pts, pts2, fresh


def inv_grid(I):
    """one AtomGrid object solved several times, another grid (other degree / other size) in between; callables keep no state;
    AtomGrid vs the equivalent one-atom MolGrid"""
    Z = [0.0, 0.0, 0.0]
    mk = lambda d=None, radial=None: I.grid(Z, d, radial)
    g, rA, gA, pts, pts2, fresh = _inv_grid_common(I, 'AtomGrid', mk, [Z], ('bvp', 'ivp'), {}, True)
    m1 = I.mol([Z])
    I.same('AtomGrid vs one-atom MolGrid (bvp)', I.solve('bvp', m1, rA.copy())(pts), fresh['bvp'], rtol=1e-9)
    I.same('AtomGrid vs one-atom MolGrid (ivp)', I.solve('ivp', m1, rA.copy())(pts), fresh['ivp'], rtol=1e-9)
    Lm, La = I.lap(m1, rA.copy()), I.lap(mk(), rA.copy())
    l1 = La(pts)
    I.same('AtomGrid vs one-atom MolGrid (interpolate_laplacian)', Lm(pts), l1, rtol=1e-9)
    La(pts2, 0.3)
    I.lap(mk(I.spec['other_deg']), np.ones(mk(I.spec['other_deg']).size))(pts2)
    I.same('interpolate_laplacian: callable evaluated again (other points, cutoff and grid in between)', La(pts), l1)
    I.same('interpolate_laplacian: default cut_off vs 1e-6 given', La(pts, 1e-6), l1)


def inv_mol(I):
    """one MolGrid object solved several times; store=False rejected; atoms in another order"""
    sp = I.spec
    centers = sp['atoms2']
    opts = {'include_origin': False}
    mk = lambda d=None, radial=None: I.mol(centers, d)
    g, rA, gA, pts, pts2, fresh = _inv_grid_common(I, 'MolGrid', mk, centers, ('bvp',), opts, False)
    I.raises('bvp: MolGrid(store=False)', ValueError, lambda: I.solve('bvp', I.mol(centers, store=False), rA, **opts))
    I.raises('ivp: MolGrid(store=False)', ValueError, lambda: I.ivp(I.mol(centers, store=False), rA, I.inv, r_interval=(10.0, 0.01)))
    I.raises('interpolate_laplacian: MolGrid(store=False)', ValueError, lambda: I.lap(I.mol(centers, store=False), rA))
    I.raises('robust: MolGrid(store=False)', ValueError, lambda: I.robust(I.mol(centers, store=False), rA, I.inv, np.array([1] * len(centers)), np.array(centers, dtype=float), remove_large_pts=10.0, include_origin=False))
    rev = [list(c) for c in centers[::-1]]
    gr = I.mol(rev)
    vr = I.solve('bvp', gr, _rho(gr.points, gA), **opts)(pts)
    I.chk('MolGrid bvp: atoms listed in reversed order give the same potential', np.max(np.abs(vr - fresh['bvp'])), sp['linear_atol_unit'] * 3 * sum(abs(c) for c, _, _ in gA))


def inv_dtype(I):
    """container kind / dtype of func_vals and of the evaluation points"""
    sp = I.spec
    Z = [0.0, 0.0, 0.0]
    g = I.grid(Z)
    gs = _core('H', Z) + [tuple(x) for x in sp['gauss']]
    q = sum(abs(c) for c, _, _ in gs)
    rho = np.round(_rho(g.points, gs) * 2.0 ** 14) / 2.0 ** 14     # multiples of 2^-14 below 2^3: exact in float32
    assert np.array_equal(rho.astype(np.float32).astype(np.float64), rho)
    pts = np.round(I.points([Z]) * 256.0) / 256.0                  # exact in float32
    pts = pts[np.linalg.norm(pts, axis=1) > 0.04]
    tol = sp['linear_atol_unit'] * q
    big = np.zeros(2 * len(rho)); big[::2] = rho
    ro = rho.copy(); ro.setflags(write=False)
    variants = {'float32': rho.astype(np.float32), 'read-only': ro, 'non-contiguous view big[::2]': big[::2], 'list': [float(x) for x in rho],
                'float64 Fortran-ordered copy': np.asfortranarray(rho), 'longdouble': rho.astype(np.longdouble)}
    for kind in ('bvp', 'ivp', 'robust', 'lap'):
        def run(arr, p=pts):
            if kind == 'lap':
                return I.lap(I.grid(Z), arr)(p)
            return I.solve(kind, I.grid(Z), arr)(p)
        ref = run(rho.copy())
        if kind != 'lap':
            I.chk(f'{kind}: float64 reference vs analytic potential (density rounded to 2^-14)', np.max(np.abs(ref - _ref(pts, gs))), sp['atol_unit'] * q)
        sc = tol if kind != 'lap' else 1e-6 * max(1.0, float(np.max(np.abs(ref))))
        for name, arr in variants.items():
            if kind == 'ivp' and name not in ('float32', 'read-only', 'list'):
                continue
            snap = np.array(arr, copy=True) if not isinstance(arr, list) else None
            try:
                v = run(arr)
            except TypeError:
                if name == 'list':
                    continue             # a clean rejection of a Python list is acceptable
                I.chk(f'{kind}: func_vals as {name} raised TypeError', 1.0, 0.5)
                continue
            except Exception as e:
                I.chk(f'{kind}: func_vals as {name} raised {type(e).__name__}: {str(e)[:80]}', 1.0, 0.5)
                continue
            I.chk(f'{kind}: func_vals as {name} vs float64 array', np.max(np.abs(np.asarray(v, dtype=float) - ref)), sc)
            if snap is not None:
                I.unchanged(f'{kind}: func_vals as {name}', arr, snap)
        # integer-valued density
        ri = np.round(rho * 8.0)
        try:
            vi = run(ri.astype(np.int64))
            I.chk(f'{kind}: integer-valued density as int64 vs float64', np.max(np.abs(vi - run(ri.copy()))), sc * 8)
        except Exception as e:
            I.chk(f'{kind}: integer-valued density as int64 raised {type(e).__name__}: {str(e)[:80]}', 1.0, 0.5)
        # evaluation points
        V = (lambda p: I.lap(I.grid(Z), rho.copy())(p)) if kind == 'lap' else I.solve(kind, I.grid(Z), rho.copy())
        bigp = np.zeros((2 * len(pts), 3)); bigp[::2] = pts
        rp = pts.copy(); rp.setflags(write=False)
        for name, p in {'float32': pts.astype(np.float32), 'read-only': rp, 'non-contiguous': bigp[::2], 'Fortran-ordered': np.asfortranarray(pts), 'int64 (integer coordinates)': None}.items():
            if p is None:
                p = np.array([[1, 0, 0], [0, -2, 1], [3, 1, -1]], dtype=np.int64)
                want = V(p.astype(float))
            else:
                want = ref
            snap = np.array(p, copy=True)
            try:
                v = V(p)
            except Exception as e:
                I.chk(f'{kind}: points as {name} raised {type(e).__name__}: {str(e)[:80]}', 1.0, 0.5)
                continue
            I.chk(f'{kind}: points as {name} vs float64', np.max(np.abs(np.asarray(v, dtype=float) - want)), sc)
            I.unchanged(f'{kind}: points as {name}', p, snap)
        one = V(pts[3:4])
        I.chk(f'{kind}: a single point of shape (1, 3)', abs(float(one[0]) - ref[3]) if np.shape(one) == (1,) else 1.0, sc)
        perm = I.rng.permutation(len(pts))
        idx = np.concatenate([perm, perm[:5], perm[::-1]])
        I.same(f'{kind}: points shuffled / repeated / reversed give the same values point by point', V(pts[idx]), ref[idx], rtol=1e-11)


def inv_extreme(I):
    """thresholds and end points"""
    sp = I.spec
    Z = [0.0, 0.0, 0.0]
    g = I.grid(Z)
    gs = [tuple(x) for x in sp['gauss']]
    q = sum(abs(c) for c, _, _ in gs)
    rho = _rho(g.points, gs)
    d = np.array(sp['dir'], dtype=float)
    d /= np.linalg.norm(d)
    mesh = np.sort(I.radial.points)
    rl = sp['remove_large_pts']
    r_last = float(mesh[mesh <= rl][-1]) if rl is not None else float(mesh[-1])
    for io in (True, False):
        V = I.solve('bvp', g, rho, include_origin=io, remove_large_pts=rl)
        lo = 0.0 if io else float(mesh[0])
        radii = [1e-7, 1e-5, 1e-3, float(mesh[1]), float(mesh[len(mesh) // 2]), 0.999999 * r_last, r_last] if io else [0.5, float(mesh[len(mesh) // 2]), 0.999999 * r_last, r_last]
        pts = np.array([r * d for r in radii])
        I.chk(f'bvp include_origin={io} remove_large_pts={rl}: radii {radii} (next to 0, on radial shells, next to / at the last mesh point) vs analytic',
              np.max(np.abs(V(pts) - _ref(pts, gs))), sp['atol_unit'] * q)
        v0 = V(np.array([[0.0, 0.0, 0.0], 1e-301 * d, 1e-299 * d, 1e-200 * d]))
        I.chk(f'bvp include_origin={io}: finite values at r = 0, 1e-301, 1e-299, 1e-200 [{v0!r}]', 0.0 if np.all(np.isfinite(v0)) else 1.0, 0.5)
    # a radial grid that already contains r = 0: include_origin must not add a second origin; both settings pose the same problem
    r0, tf0, inv0, AG = _grid_parts(sp['grid0'])
    g0 = AG(r0, degrees=[sp['grid0']['deg']], center=np.zeros(3))
    rho0 = _rho(g0.points, gs[:1])
    p0 = _points({'pseed': sp['seed'], 'npts': 30}, [np.zeros(3)], 10.0)
    vs = []
    for io in (True, False):
        np.random.seed(7)
        vs.append(I.bvp(g0, rho0, inv0, include_origin=io, remove_large_pts=10.0)(p0))
        I.chk(f'bvp on a radial grid with a point at r = 0, include_origin={io} vs analytic', np.max(np.abs(vs[-1] - _ref(p0, gs[:1]))), sp['atol_unit'] * abs(gs[0][0]))
    I.same('bvp on a radial grid with a point at r = 0: include_origin True vs False', vs[0], vs[1])


# ---- round 3 (AGENT_ROUND3 classes 7-13) --------------------------------------------------------------------------------------
def _shift_gauss(gs, c):
    return [(a, al, [float(x) for x in (np.asarray(R, dtype=float) + c)]) for a, al, R in gs]


def inv_translate(I):
    """class 8: centres / coordinates far from the origin (exactly representable shifts 2^k): every answer is translation invariant"""
    sp = I.spec
    Z = [0.0, 0.0, 0.0]
    gs = [tuple(x) for x in sp['gauss']]
    q = sum(abs(c) for c, _, _ in gs)
    pts0 = np.round(I.points([Z], k=30) * 2.0 ** 20) / 2.0 ** 20       # multiples of 2^-20: pts0 + shift is exact for shifts up to 2^32

    def at(shift, kind):
        c = np.array(shift, dtype=float)
        g = I.grid([float(x) for x in c])
        gg = _shift_gauss(gs, c)
        if kind == 'robust':
            gg = _shift_gauss(_core('H', Z), c) + gg
        rho = _rho(g.points, gg)
        p = pts0 + c
        if kind == 'lap':
            return I.lap(g, rho)(p), gg, p
        if kind == 'robust':
            np.random.seed(7)
            return I.robust(g, rho, I.inv, np.array([1]), np.array([c]), remove_large_pts=10.0)(p), gg, p
        return I.solve(kind, g, rho)(p), gg, p

    for kind in ('bvp', 'ivp', 'robust', 'lap'):
        v0, g0, p0 = at(Z, kind)
        qq = sum(abs(c) for c, _, _ in g0)
        if kind != 'lap':
            I.chk(f'{kind} at the origin vs analytic potential', np.max(np.abs(v0 - _ref(p0, g0))), sp['atol_unit'] * qq)
        for shift in sp['shifts']:
            v, gg, p = at(shift, kind)
            if kind == 'lap':
                # the grid forms the angles of its own points from rounded Cartesian coordinates: relative angle error eps |centre| / r_first (2e-7 at 2^20 with r_first = 1e-3) enters
                # the l > 0 components and is amplified by the spline's second derivative: observed <= 1.7e-8 up to 2^17, 1.2e-5 at 2^20 (measured on the pinned tree)
                tol = 1e-5 if max(abs(x) for x in shift) <= 2.0 ** 17 else 3e-4
                I.chk(f'interpolate_laplacian: grid, density and points translated by {shift} vs untranslated (relative {tol:g})', np.max(np.abs(v - v0)), tol * max(1.0, float(np.max(np.abs(v0)))))
            else:
                # the initial-value answers move by up to 2.2e-4 per unit charge under ANY perturbation of the input (observed for shifts 2^10 .. 2^20 alike): that is
                # its accuracy level (3e-4 relative, adaptive steps), so it is held to 5e-4 like the ivp additivity; bvp / robust: observed <= 8e-11
                I.chk(f'{kind}: grid, density and points translated by {shift} vs untranslated', np.max(np.abs(v - v0)), (5e-4 if kind == 'ivp' else sp['linear_atol_unit']) * qq)
                I.chk(f'{kind}: translated by {shift} vs analytic potential', np.max(np.abs(v - _ref(p, gg))), sp['atol_unit'] * qq)
    # molecular grid far from the origin
    Im = _Inv({**sp, 'grid': sp['grid_mol']})
    cm = [np.array(c, dtype=float) for c in sp['atoms2']]
    gm = [(1.0, sp['gauss'][0][1], list(cm[0])), (0.6, sp['gauss'][-1][1], list(cm[-1]))]
    pm = np.round(_points({'pseed': sp['seed'], 'npts': 25, 'rlo': 0.05}, cm, 8.0) * 2.0 ** 20) / 2.0 ** 20
    ref = None
    for shift in [Z] + [list(x) for x in sp['shifts'][:1]]:
        c = np.array(shift, dtype=float)
        g = Im.mol([list(x + c) for x in cm])
        gg = _shift_gauss(gm, c)
        v = Im.solve('bvp', g, _rho(g.points, gg), include_origin=False)(pm + c)
        if ref is None:
            ref = v
            I.chk('molecular bvp at the origin vs analytic potential (coarse grid)', np.max(np.abs(v - _ref(pm, gm))), 5e-2 * 1.6)
        else:
            I.chk(f'molecular bvp: grid, density and points translated by {shift} vs untranslated', np.max(np.abs(v - ref)), sp['linear_atol_unit'] * 1.6)


def inv_scale(I):
    """class 8: data of extreme but legal magnitude.  The solvers carry absolute tolerances (DESIGN 8.3): for tiny amplitudes the answer is held
    to the absolute floor measured on the pinned tree, for large ones (initial-value solver) to the relative accuracy; interpolate_laplacian
    is linear to rounding for every power-of-two scale that does not underflow"""
    sp = I.spec
    Z = [0.0, 0.0, 0.0]
    g = I.grid(Z)
    gs = [tuple(x) for x in sp['gauss']]
    q = sum(abs(c) for c, _, _ in gs)
    rho = _rho(g.points, gs)
    pts = I.points([Z], k=30)
    ref = _ref(pts, gs)
    for kind, floor, amps in (('bvp', sp['bvp_floor'], sp['bvp_amps']), ('ivp', sp['ivp_floor'], sp['ivp_amps'])):
        for a in amps:
            try:
                v = I.solve(kind, g, a * rho)(pts)
            except ValueError as e:
                if kind == 'bvp' and abs(a) >= 1e4 and "didn't converge" in str(e):
                    continue        # documented rejection for large amplitudes (absolute tolerance of solve_bvp), not a wrong value
                I.chk(f'{kind}: amplitude {a:g} raised ValueError: {str(e)[:60]}', 1.0, 0.5)
                continue
            I.chk(f'{kind}: density scaled by {a:g}: |V - a V_analytic| within max(1e-2 |a| Q, absolute floor {floor:g}) and finite',
                  np.max(np.abs(v - a * ref)) if np.all(np.isfinite(v)) else float('inf'), max(sp['atol_unit'] * abs(a) * q, floor))
    L1 = I.lap(g, rho)(pts)
    for k in sp['lap_pows']:
        a = 2.0 ** k
        La = I.lap(I.grid(Z), a * rho)(pts)
        I.chk(f'interpolate_laplacian: density scaled by 2^{k}: L[a f] = a L[f] to rounding', np.max(np.abs(La / a - L1)), 1e-12 * max(1.0, float(np.max(np.abs(L1)))))


def inv_special(I):
    """classes 9-12: arrays handed out by the callables and edited by the caller; the caller's buffers reused after the solve; two option
    values alternating on one object; first call on a fresh object with non-default options; evaluation points coinciding with special
    points (the centre, the Cartesian origin, radial shells, the polar axis, the phi = 0 / pi half planes) under a shifted, rotated frame"""
    sp = I.spec
    c = np.array(sp['center'], dtype=float)
    rot = sp['rotate']
    mk = lambda: I.AtomGrid(I.radial, degrees=[I.spec['grid']['deg']], center=c.copy(), rotate=rot)
    gs = [(a, al, [float(x) for x in c]) for a, al, _ in sp['gauss']]
    gr = _core('H', c) + gs
    q, qr = sum(abs(a) for a, _, _ in gs), sum(abs(a) for a, _, _ in gr)
    g = mk()
    rho, rhor = _rho(g.points, gs), _rho(g.points, gr)
    pts = I.points([c], k=20)
    atc, atn = np.array([c]), np.array([1])

    def build(kind, grid, dens, **kw):
        if kind == 'lap':
            return I.lap(grid, dens)
        if kind == 'robust':
            np.random.seed(7)
            return I.robust(grid, dens, I.inv, atn, atc, remove_large_pts=10.0, **kw)
        return I.solve(kind, grid, dens, **kw)

    # -- class 12: special points -------------------------------------------------------------------------------------------
    shells = np.sort(I.radial.points)
    rs = [float(shells[np.argmin(np.abs(shells - x))]) for x in (0.1, 0.5, 2.0)]
    ez, ex, ey = np.eye(3)[2], np.eye(3)[0], np.eye(3)[1]
    special = [c + r * d for r in rs for d in (ez, -ez, ex, -ex, ey)] + [np.zeros(3), c * 0.5]
    special = np.array([p for p in special if np.linalg.norm(p - c) >= 0.05])
    a0 = sp['gauss'][0][1]
    for kind, dens, gg, qq in (('bvp', rho, gs, q), ('ivp', rho, gs, q), ('robust', rhor, gr, qr)):
        V = build(kind, g, dens)
        I.chk(f'{kind}, centre {list(c)}, rotate={rot}: points on radial shells along +-z (poles), +-x (phi = 0, pi), y, the Cartesian origin, the half-way point vs analytic',
              np.max(np.abs(V(special) - _ref(special, gg))), sp['atol_unit'] * qq)
        v0 = V(np.array([c, c + 1e-9 * ez, c - 1e-12 * ex]))
        I.chk(f'{kind}: finite at the centre itself and 1e-9 / 1e-12 away from it [{v0!r}]', 0.0 if np.all(np.isfinite(v0)) else 1.0, 0.5)
        # -- class 9: the array handed out is the caller's -----------------------------------------------------------------
        out = V(pts)
        snap = out.copy()
        out[:] = 777.0
        out2 = V(pts)
        I.same(f'{kind}: callable evaluated again after the caller overwrote the array it was handed', out2, snap)
        out2 *= 0.0
        I.same(f'{kind}: third evaluation after the second array was zeroed', V(pts), snap)
        # -- class 9: the caller reuses its own buffers after the solve --------------------------------------------------
        dens2, p2 = dens.copy(), pts.copy()
        an2 = atn.copy()
        V2 = build(kind, g, dens2) if kind != 'robust' else (np.random.seed(7), I.robust(g, dens2, I.inv, an2, atc, remove_large_pts=10.0))[1]
        dens2[:] = -1.0
        an2[:] = 8
        v = V2(p2)
        p2[:] = 0.0
        I.same(f'{kind}: callable after the caller reused its density / atnums buffers vs before', v, snap)
    L = build('lap', g, rho)
    lap = lambda p: (4 * a0 * a0 * np.sum((p - c) ** 2, axis=1) - 6 * a0) * np.exp(-a0 * np.sum((p - c) ** 2, axis=1))
    if len(sp['gauss']) == 1:
        I.chk(f'interpolate_laplacian, centre {list(c)}, rotate={rot}: shells along +-z, +-x, y, origin, half-way point vs closed form',
              np.max(np.abs(L(special) - sp['gauss'][0][0] * (a0 / np.pi) ** 1.5 * lap(special))), 5e-2 * 6 * a0 * sp['gauss'][0][0] * (a0 / np.pi) ** 1.5)
    l1 = L(pts)
    snap = l1.copy()
    l1[:] = 0.0
    I.same('interpolate_laplacian: evaluated again after the caller zeroed the returned array', L(pts), snap)
    # -- class 10: two option values alternating on one object ----------------------------------------------------------------------
    pin = c + (pts - c) * (0.2 / np.linalg.norm(pts - c, axis=1))[:, None]      # all at distance 0.2: inside a cutoff of 0.3, outside 0.1
    a1, b1, a2, b2 = L(pin, 0.3), L(pin, 0.1), L(pin, 0.3), L(pin, 0.1)
    I.same('interpolate_laplacian: cutoff 0.3 / 0.1 alternating on one callable (first vs third)', a2, a1, rtol=1e-13)
    I.same('interpolate_laplacian: cutoff 0.3 / 0.1 alternating on one callable (second vs fourth)', b2, b1, rtol=1e-13)
    I.chk('interpolate_laplacian: the two cutoffs give different values at distance 0.2 (the option is used)', 0.0 if np.max(np.abs(a1 - b1)) > 0 else 1.0, 0.5)
    vt, vf, vt2 = (I.solve('bvp', g, rho, include_origin=io)(pts) for io in (True, False, True))
    I.same('bvp: include_origin True / False / True on one grid object (first vs third)', vt2, vt)
    I.same('bvp: include_origin False on the used grid object vs on a fresh one', vf, I.solve('bvp', mk(), rho.copy(), include_origin=False)(pts))
    # -- class 11: first call on a fresh object with a non-default option ------------------------------------------------------------
    used = mk()
    I.solve('bvp', used, rho)(pts)
    I.solve('ivp', used, rho)(pts)
    I.lap(used, rho)(pts)
    B = float(g.integrate(rho) * 2.0 * np.sqrt(np.pi)) * 1.01
    firsts = (('bvp', dict(include_origin=False, remove_large_pts=None, boundary=B)), ('bvp', dict(ode_params={'tol': 1e-8}, remove_large_pts=float(shells[-3]))),
              ('ivp', dict(ode_params={'method': 'RK45', 'rtol': 1e-9})), ('robust', dict(split2=True, alphas_basis=[0.3, 1.0, 3.0, 9.0])))
    for kind, kw in firsts:
        dens = rhor if kind == 'robust' else rho
        fresh = build(kind, mk(), dens.copy(), **kw)(pts)
        again = build(kind, used, dens, **kw)(pts)
        I.same(f'{kind}: first call ever on a fresh grid object with {kw!r} vs the same call on a grid object used before with the defaults', fresh, again)
    I.same('interpolate_laplacian: first evaluation with cut_off=0.3 on a fresh callable vs on a used one', I.lap(mk(), rho.copy())(pin, 0.3), a1)
    # -- documented rejections of the robust solver (docstring "Raises"; guards carried by the translator) ------------------------------------
    Vr = build('robust', g, rhor)
    I.raises('robust: density_vals one value short', ValueError, lambda: build('robust', g, rhor[:-1]))
    I.raises('robust: density_vals of shape (N, 1)', ValueError, lambda: build('robust', g, rhor[:, None]))
    I.raises('robust: alphas_basis containing 0', ValueError, lambda: build('robust', g, rhor, split2=True, alphas_basis=[1.0, 0.0]))
    I.raises('robust: alphas_basis containing a negative exponent', ValueError, lambda: build('robust', g, rhor, split2=True, alphas_basis=[1.0, -2.0]))
    I.raises('robust: empty alphas_basis', ValueError, lambda: build('robust', g, rhor, split2=True, alphas_basis=[]))
    I.raises('robust: two-dimensional alphas_basis', ValueError, lambda: build('robust', g, rhor, split2=True, alphas_basis=[[1.0, 2.0]]))
    I.raises('robust: evaluation points of shape (M, 2)', ValueError, lambda: Vr(pts[:, :2]))
    I.raises('robust: one evaluation point of shape (3,)', ValueError, lambda: Vr(pts[0]))
    I.raises('robust: atnums / atcoords of different lengths', ValueError, lambda: I.robust(g, rhor, I.inv, np.array([1, 1]), atc, remove_large_pts=10.0))
    # -- the closure of the robust solver keeps *views* of the caller's atcoords (observation, replayed when it is a listed finding)
    if sp.get('atcoords_view'):
        ac = np.array([c])
        np.random.seed(7)
        V = I.robust(g, rhor, I.inv, atn, ac, remove_large_pts=10.0)
        before = V(pts)
        ac += 1.0
        I.chk('robust: potential callable after the caller shifted its atcoords array in place by 1 bohr vs before', np.max(np.abs(V(pts) - before)), 1e-10)


def inv_threshold(I):
    """class 7: inputs next to the hard-coded thresholds of poisson.py"""
    sp = I.spec
    Z = [0.0, 0.0, 0.0]
    gs = [tuple(x) for x in sp['gauss']]
    q = sum(abs(c) for c, _, _ in gs)
    from grid import onedgrid, rtransform
    p0 = _points({'pseed': sp['seed'], 'npts': 30}, [np.zeros(3)], 10.0)
    # first radial point next to 0 / next to the 1e-10 of the r == 0 replacement, with and without the added origin
    for rmin in sp['rmins']:
        tf = rtransform.BeckeRTransform(rmin, R=sp['R'], trim_inf=True)
        rad = tf.transform_1d_grid(onedgrid.Trapezoidal(sp['n0']))
        g0 = I.AtomGrid(rad, degrees=[5], center=np.zeros(3))
        rho0 = _rho(g0.points, gs)
        for io in (True, False):
            np.random.seed(7)
            try:
                v = I.bvp(g0, rho0, rtransform.InverseRTransform(tf), include_origin=io, remove_large_pts=10.0)(p0)
            except ValueError as e:
                # a first radial point that the transformed variable cannot tell from 0 (or solve_bvp giving up): a rejection, not a value
                # envelope measured on the pinned tree (8 grids x 10 first points): include_origin=True with a first point in (0, 1e-9) -- two mesh nodes the
                # solver cannot separate -- and any first point below 1e-11 stop with 'x must be strictly increasing' / 'didn't converge'; all other combinations are accurate
                lim = 1e-9 if io else 1e-11
                I.chk(f'bvp, first radial point {rmin:g}, include_origin={io}: ValueError only for a first point in (0, {lim:g}) [{str(e)[:50]}]', 0.0 if 0 < rmin < lim else 1.0, 0.5)
                continue
            I.chk(f'bvp, first radial point {rmin:g} (next to 0 / 1e-10), include_origin={io} vs analytic', np.max(np.abs(v - _ref(p0, gs))), sp['atol_unit'] * q)
    # r_interval next to its defaults (1000, 1e-5)
    tf = rtransform.BeckeRTransform(1e-6, R=1.5)
    rad = tf.transform_1d_grid(onedgrid.GaussLegendre(sp['n_ivp']))
    gi = I.AtomGrid(rad, degrees=[3], center=np.zeros(3))
    rhoi = _rho(gi.points, gs)
    pi_ = _points({'pseed': sp['seed'] + 1, 'npts': 30, 'rlo': 0.05}, [np.zeros(3)], 10.0)
    inv = rtransform.InverseRTransform(tf)
    vd = I.ivp(gi, rhoi, inv)(pi_)
    I.chk('ivp with the default r_interval vs analytic', np.max(np.abs(vd - _ref(pi_, gs))), sp['atol_unit'] * q)
    I.same('ivp: default r_interval vs r_interval=(1000, 1e-5) given', I.ivp(gi, rhoi, inv, r_interval=(1000, 1e-5))(pi_), vd, rtol=1e-13)
    for ri in sp['intervals']:
        I.chk(f'ivp, r_interval={tuple(ri)} (next to the defaults) vs analytic', np.max(np.abs(I.ivp(gi, rhoi, inv, r_interval=tuple(ri))(pi_) - _ref(pi_, gs))), sp['atol_unit'] * q)
    I.raises('ivp: r_interval (1e-5, 1000) rejected', ValueError, lambda: I.ivp(gi, rhoi, inv, r_interval=(1e-5, 1000)))
    # remove_large_pts next to a radial point: "removes any points larger than": the point itself stays
    g = I.grid(Z)
    rho = _rho(g.points, gs)
    pts = I.points([Z])
    allp = np.sort(I.radial.points)
    k = int(np.argmin(np.abs(allp - 10.0)))
    B = float(g.integrate(rho) * 2.0 * np.sqrt(np.pi))
    dB = sp['dB']
    r = np.linalg.norm(pts, axis=1)
    for f in (1.0, 1.01, 1.0 / 1.01):
        rl = float(allp[k]) * f
        hi = float(allp[allp <= rl][-1])
        v0 = I.solve('bvp', g, rho, boundary=B, remove_large_pts=rl)(pts)
        v1 = I.solve('bvp', g, rho, boundary=B + dB, remove_large_pts=rl)(pts)
        sel = (r > 0) & (r < hi)
        shift = dB / (2.0 * np.sqrt(np.pi)) / hi
        I.chk(f'bvp: remove_large_pts = {f:.4f} x radial point {allp[k]!r}: boundary + {dB} shifts the potential by dB*Y00/hi with hi = {hi!r} (largest point <= remove_large_pts)',
              np.max(np.abs((v1 - v0 - shift)[sel])), 1e-6 * (abs(dB) + 2 * q))
    # evaluation points next to the 1e-300 mask of the back-substitution: finite, and the same on both sides
    V = I.solve('bvp', g, rho)
    d = np.array([0.6, 0.0, 0.8])
    tiny = np.array([t * d for t in (1e-300 / 1.01, 1.01e-300, 1e-302, 1e-298, 5e-324, 2.3e-308)])
    vt = V(tiny)
    I.chk(f'bvp: finite at distances 1e-300/1.01, 1.01e-300, 1e-302, 1e-298, 5e-324, 2.3e-308 from the centre [{vt!r}]', 0.0 if np.all(np.isfinite(vt)) else 1.0, 0.5)


# ---- round 4 (AGENT_ROUND4 classes 14-18, 20) -----------------------------------------------------------------------------------
def inv_inner(I):
    """class 14: dtype / container kind of the arrays held by the grid objects handed to the solvers and of atnums / atcoords; class 15: documented argument
    combinations (omitted / None / explicit default, an ignored alternative given as well); class 16: one argument object used for several requests, views into
    larger caller arrays (bytes around the view unchanged), the grid's own arrays used as arguments; class 17: complex densities where the route is linear;
    class 18: calls that raise leave no trace on the objects they were given; class 20: point arrays of 1 and 2 rows, atoms with unequal grids"""
    import warnings as _w
    from grid.basegrid import OneDGrid
    from grid.molgrid import MolGrid
    from grid.becke import BeckeWeights
    from grid import rtransform
    sp = I.spec
    c = np.array(sp['center'], dtype=float)            # multiples of 1/4: exact in float32 and as integers x 1/4
    gs = [(a, al, [float(x) for x in c]) for a, al, _ in sp['gauss']]
    gr = _core('H', c) + gs
    q, qr = sum(abs(a) for a, _, _ in gs), sum(abs(a) for a, _, _ in gr)
    deg = I.spec['grid']['deg']
    rp, rw = I.radial.points, I.radial.weights
    g = I.AtomGrid(I.radial, degrees=[deg], center=c.copy())
    rho, rhor = _rho(g.points, gs), _rho(g.points, gr)
    pts = I.points([c], k=16)
    atc, atn = np.array([c]), np.array([1])

    def build(kind, grid, dens, **kw):
        if kind == 'lap':
            return I.lap(grid, dens)
        if kind == 'robust':
            np.random.seed(7)
            a_c, a_n = kw.pop('atcoords', atc), kw.pop('atnums', atn)
            return I.robust(grid, dens, I.inv, a_n, a_c, remove_large_pts=10.0, **kw)
        return I.solve(kind, grid, dens, **kw)

    ref = {k: build(k, g, rhor if k == 'robust' else rho)(pts) for k in ('bvp', 'ivp', 'robust', 'lap')}
    for k, dens, gg, qq in (('bvp', rho, gs, q), ('ivp', rho, gs, q), ('robust', rhor, gr, qr)):
        I.chk(f'{k}: float64 reference vs analytic potential', np.max(np.abs(ref[k] - _ref(pts, gg))), sp['atol_unit'] * qq)
    # -- class 14 -----------------------------------------------------------------------------------------------------------
    big_p, big_w = np.zeros(2 * len(rp) + 3), np.zeros(2 * len(rp) + 3)
    big_p[1:-2:2], big_w[1:-2:2] = rp, rw
    ro_p, ro_w = rp.copy(), rw.copy()
    ro_p.setflags(write=False); ro_w.setflags(write=False)
    radials = {'read-only points / weights': (ro_p, ro_w), 'strided views of larger arrays': (big_p[1:-2:2], big_w[1:-2:2]),
               'negative-stride views': (rp[::-1].copy()[::-1], rw[::-1].copy()[::-1])}
    centres = {'int64 centre' if np.all(c == np.round(c)) else 'float32 centre': (c.astype(np.int64) if np.all(c == np.round(c)) else c.astype(np.float32)),
               'read-only centre': (lambda x: (x.setflags(write=False), x)[1])(c.copy()), 'centre as a strided view': np.repeat(c, 2)[::2]}
    variants = [(n, OneDGrid(p_, w_, I.radial.domain), c.copy()) for n, (p_, w_) in radials.items()] + [(n, I.radial, cc) for n, cc in centres.items()]

    def some(d):       # quick tier: a random half of every family of variants (all of them in the thorough tier)
        items = list(d.items()) if isinstance(d, dict) else list(d)
        if sp.get('all', False):
            return items
        idx = sorted(I.rng.choice(len(items), size=(len(items) + 1) // 2, replace=False))
        return [items[i] for i in idx]

    variants = some(variants)
    for name, rad, cc in variants:
        try:
            gv = I.AtomGrid(rad, degrees=[deg], center=cc)
        except (TypeError, ValueError) as e:
            I.chk(f'AtomGrid built from {name} rejected: {type(e).__name__} (a clean rejection is acceptable)', 0.0, 0.5)
            continue
        for k in sp['kinds14']:
            try:
                v = build(k, gv, (rhor if k == 'robust' else rho).copy())(pts)
            except Exception as e:
                I.chk(f'{k} on an AtomGrid holding {name} raised {type(e).__name__}: {str(e)[:80]}', 1.0, 0.5)
                continue
            I.same(f'{k} on an AtomGrid holding {name} vs the float64 / contiguous grid', v, ref[k], rtol=1e-9)
    ac_variants = {'list of lists': [[float(x) for x in c]], 'float32': atc.astype(np.float32), 'Fortran-ordered': np.asfortranarray(atc), 'read-only': (lambda x: (x.setflags(write=False), x)[1])(atc.copy()),
                   'negative-stride view': np.vstack([atc, atc + 9.0])[::-1][1:], 'row of a larger array': np.vstack([atc - 5.0, atc, atc + 5.0])[1:2]}
    an_variants = {'list': [1], 'int32': np.array([1], dtype=np.int32), 'float64': np.array([1.0]), 'uint8': np.array([1], dtype=np.uint8)}
    for name, a_c in some(ac_variants):
        snap = np.array(a_c, dtype=float, copy=True)
        try:
            v = build('robust', g, rhor, atcoords=a_c)(pts)
        except Exception as e:
            I.chk(f'robust with atcoords as {name} raised {type(e).__name__}: {str(e)[:80]}', 1.0, 0.5)
            continue
        I.same(f'robust with atcoords as {name} vs float64 array', v, ref['robust'], rtol=1e-9)
        I.chk(f'robust: atcoords as {name} modified', 0.0 if np.array_equal(np.asarray(a_c, dtype=float), snap) else 1.0, 0.5)
    for name, a_n in some(an_variants):
        try:
            v = build('robust', g, rhor, atnums=a_n)(pts)
        except Exception as e:
            I.chk(f'robust with atnums as {name} raised {type(e).__name__}: {str(e)[:80]}', 1.0, 0.5)
            continue
        I.same(f'robust with atnums as {name} vs int64 array', v, ref['robust'], rtol=1e-9)
    # one-atom MolGrid with explicit aim_weights arrays of several kinds
    for name, w in some({'float64 ones': np.ones(g.size), 'read-only': (lambda x: (x.setflags(write=False), x)[1])(np.ones(g.size)), 'strided view': np.ones(2 * g.size)[::2], 'int64 ones': np.ones(g.size, dtype=np.int64),
                    'bool': np.ones(g.size, dtype=bool), 'float32': np.ones(g.size, dtype=np.float32)}):
        try:
            m1 = MolGrid(np.array([1]), [I.AtomGrid(I.radial, degrees=[deg], center=c.copy())], w, store=True)
            v = build('bvp', m1, rho.copy())(pts)
        except (TypeError, ValueError) as e:
            I.chk(f'one-atom MolGrid with aim_weights as {name}: {type(e).__name__} (a clean rejection is acceptable)', 0.0, 0.5)
            continue
        I.same(f'bvp on a one-atom MolGrid with aim_weights as {name} vs the AtomGrid', v, ref['bvp'], rtol=1e-9)
    # -- class 15 -----------------------------------------------------------------------------------------------------------
    import grid.robust_poisson as RPm
    dflt = np.array(RPm._DEFAULT_ALPHAS_BASIS, copy=True)
    r2 = build('robust', g, rhor, split2=True)(pts)
    I.same('robust split2=True: alphas_basis omitted vs None', build('robust', g, rhor, split2=True, alphas_basis=None)(pts), r2)
    I.same('robust split2=True: alphas_basis omitted vs a copy of the default basis given', build('robust', g, rhor, split2=True, alphas_basis=dflt.copy())(pts), r2)
    I.same('robust split2=True: the module default basis object itself given, twice', build('robust', g, rhor, split2=True, alphas_basis=RPm._DEFAULT_ALPHAS_BASIS)(pts),
           build('robust', g, rhor, split2=True, alphas_basis=RPm._DEFAULT_ALPHAS_BASIS)(pts))
    I.chk('the module default basis is unchanged after being used / passed', 0.0 if np.array_equal(RPm._DEFAULT_ALPHAS_BASIS, dflt) else 1.0, 0.5)
    I.same('robust split2=False with an alphas_basis given as well (documented: used for the second split only) vs without', build('robust', g, rhor, split2=False, alphas_basis=[0.5, 5.0])(pts), ref['robust'])
    np.random.seed(7)
    I.same('robust: split2 positional vs keyword', I.robust(g, rhor, I.inv, atn, atc, True, None, remove_large_pts=10.0)(pts), r2)
    np.random.seed(7)
    v_omit = I.bvp(g, rho, I.inv)(pts)
    np.random.seed(7)
    I.same('bvp: every option omitted vs None / True / 1e6 / None given explicitly', I.bvp(g, rho, I.inv, boundary=None, include_origin=True, remove_large_pts=1e6, ode_params=None)(pts), v_omit)
    np.random.seed(7)
    I.same('bvp: transform positional vs keyword', I.bvp(g, rho, transform=I.inv)(pts), v_omit)
    I.same('ivp: ode_params omitted vs None vs the defaults given explicitly', I.solve('ivp', g, rho, ode_params={'method': 'DOP853', 'rtol': 1e-8, 'atol': 1e-6})(pts), ref['ivp'], rtol=1e-13)
    # -- class 16 -----------------------------------------------------------------------------------------------------------
    host = np.full(3 * len(rho) + 7, 0.123)
    view = host[5:5 + 2 * len(rho):2]
    view[:] = rho
    host_snap = host.copy()
    for k in ('bvp', 'ivp', 'lap', 'bvp'):
        I.same(f'{k}: density given as a strided view into a larger caller array (used for several solves) vs a pristine copy', build(k, g, view)(pts), ref[k])
        I.chk(f'{k}: bytes of the larger caller array (view and surroundings) changed', 0.0 if np.array_equal(host, host_snap) else 1.0, 0.5)
    hostr = np.full(2 * len(rhor) + 4, -7.0)
    hostr[2:2 + len(rhor)] = rhor
    hsnap = hostr.copy()
    for s2 in (False, True, False):
        I.same(f'robust(split2={s2}): density given as a slice of a larger caller array vs a pristine copy', build('robust', g, hostr[2:2 + len(rhor)], split2=s2)(pts), ref['robust'] if not s2 else r2)
        I.chk(f'robust(split2={s2}): bytes of the larger caller array changed', 0.0 if np.array_equal(hostr, hsnap) else 1.0, 0.5)
    gp_snap = g.points.copy()
    for k in ('bvp', 'lap'):
        V = build(k, g, rho)
        a1 = V(g.points)
        a2 = V(g.points)
        I.same(f'{k}: evaluated twice at the grid\'s own points array', a2, a1, rtol=1e-13)
        I.chk(f'{k}: the grid\'s points changed by evaluating there', 0.0 if np.array_equal(g.points, gp_snap) else 1.0, 0.5)
    # -- class 17 -----------------------------------------------------------------------------------------------------------
    z = 1.0 + 2.0j
    for k in ('ivp', 'lap'):
        with _w.catch_warnings():
            _w.simplefilter('ignore')
            try:
                vc = np.asarray(build(k, g, rho * z)(pts))
            except (TypeError, ValueError):
                continue           # a clean rejection of complex data is acceptable
        tol = (5e-4 * q if k == 'ivp' else 1e-10 * max(1.0, float(np.max(np.abs(ref[k]))))) * abs(z)
        I.chk(f'{k}: complex density (1+2j) rho: the route is linear, so the answer is (1+2j) x the real one, or a rejection', np.max(np.abs(vc - z * ref[k])), tol)
    # -- class 18: calls that raise leave no trace ----------------------------------------------------------------------------------
    gu = I.AtomGrid(I.radial, degrees=[deg], center=c.copy())
    bad = [lambda: I.solve('bvp', gu, rho, boundary=1), lambda: I.solve('bvp', gu, rho, include_origin='yes'), lambda: I.bvp(gu, rho, rtransform.InverseRTransform(rtransform.BeckeRTransform(-1.0, 1.5))),
           lambda: I.solve('ivp', gu, rho, r_interval=(I.rmin, I.rmax)), lambda: I.solve('bvp', gu, rho[:-1]), lambda: build('robust', gu, rhor[:-1]), lambda: build('robust', gu, rhor, split2=True, alphas_basis=[1.0, -1.0]),
           lambda: build('robust', gu, rhor, atnums=np.array([3])), lambda: build('robust', gu, rhor)(pts[:, :2]), lambda: I.lap(gu, rho[:-1])(pts), lambda: I.solve('bvp', gu, rho, ode_params={'tol': 1e-6, 'max_nodes': 3})]
    raised = 0
    for fn in bad:
        try:
            with _w.catch_warnings():
                _w.simplefilter('ignore')
                fn()
        except Exception:
            raised += 1
    I.chk(f'{raised} of {len(bad)} malformed calls raised (all of them should)', 0.0 if raised == len(bad) else 1.0, 0.5)
    for k in ('bvp', 'ivp', 'robust', 'lap'):
        I.same(f'{k} on a grid object / in a process that has just seen {raised} rejected calls vs before', build(k, gu, rhor if k == 'robust' else rho)(pts), ref[k])
    # -- class 20 -----------------------------------------------------------------------------------------------------------
    for k in ('bvp', 'ivp', 'robust', 'lap'):
        V = build(k, g, rhor if k == 'robust' else rho)
        for n in (1, 2):
            v = V(pts[:n].copy())
            I.chk(f'{k}: {n} evaluation point(s) of shape ({n}, 3)', np.max(np.abs(np.asarray(v, dtype=float) - ref[k][:n])) if np.shape(v) == (n,) else 1.0, 1e-9 * max(1.0, float(np.max(np.abs(ref[k])))))
    Im = _Inv({**sp, 'grid': sp['grid_mol']})
    cm = [np.array(x, dtype=float) for x in sp['atoms2']]
    gm = [(1.0, sp['gauss'][0][1], list(cm[0])), (0.6, sp['gauss'][0][1], list(cm[-1]))]
    mol = MolGrid(np.array([1] * len(cm)), [Im.grid(list(x), d) for x, d in zip(cm, sp['degs2'])], BeckeWeights(order=3), store=True)
    pm = _points({'pseed': sp['seed'], 'npts': 20, 'rlo': 0.05}, cm, 8.0)
    vm = Im.solve('bvp', mol, _rho(mol.points, gm), include_origin=False)(pm)
    I.chk(f'molecular bvp, atomic grids of unequal sizes (degrees {sp["degs2"]}) vs analytic (coarse grid)', np.max(np.abs(vm - _ref(pm, gm))), 5e-2 * 1.6)


# ---- round 5 (AGENT_ROUND5 classes 21-26) --------------------------------------------------------------------------------------
def inv_blocks(I):
    """class 21: the returned callables evaluated on point lists past block boundaries (exact multiples 1024, 4096, 65536, 2^19 and non-multiples 1025, 4097, 20001, 65537,
    2^19 + k), every element against the same callable evaluated chunk by chunk in small chunks (the callables are element-wise) and against the analytic potential;
    class 22: descending radial grids and unsorted exponent bases; class 23: evaluation points / bases given as longdouble, float16, float32; class 24: an ODE transform that is
    not the one the radial grid was built with, one transform object for two grids; class 25: the same array object with new contents for a second request; class 26: two grids
    that differ only in a node at r = 0, in either order"""
    from grid.basegrid import OneDGrid
    from grid.molgrid import MolGrid
    from grid.becke import BeckeWeights
    from grid import rtransform, onedgrid
    sp = I.spec
    Z = [0.0, 0.0, 0.0]
    c = np.array(sp['center'], dtype=float)
    gs = [(a, al, [float(x) for x in c]) for a, al, _ in sp['gauss']]
    gr = _core('H', c) + gs
    q, qr = sum(abs(a) for a, _, _ in gs), sum(abs(a) for a, _, _ in gr)
    deg = I.spec['grid']['deg']
    g = I.AtomGrid(I.radial, degrees=[deg], center=c.copy())
    rho, rhor = _rho(g.points, gs), _rho(g.points, gr)
    atc, atn = np.array([c]), np.array([1])

    def build(kind, grid, dens, **kw):
        if kind == 'lap':
            return I.lap(grid, dens)
        if kind == 'robust':
            np.random.seed(7)
            return I.robust(grid, dens, I.inv, kw.pop('atnums', atn), kw.pop('atcoords', atc), remove_large_pts=10.0, **kw)
        return I.solve(kind, grid, dens, **kw)

    # -- class 21 -----------------------------------------------------------------------------------------------------------
    nmax = max(sp['sizes'])
    rng = np.random.default_rng(sp['seed'])
    u = rng.normal(size=(nmax, 3))
    u /= np.linalg.norm(u, axis=1)[:, None]
    big = c + u * np.exp(rng.uniform(np.log(0.05), np.log(8.0), size=nmax))[:, None]
    cm = [np.array(x, dtype=float) for x in sp['atoms2']]
    Im = _Inv({**sp, 'grid': sp['grid_mol']})
    mol = Im.mol([list(x) for x in cm])
    gm = [(1.0, sp['gauss'][0][1], list(cm[0])), (0.6, sp['gauss'][0][1], list(cm[-1]))]
    bigm = big - c + cm[0]
    routes = {'bvp': (lambda: build('bvp', g, rho), big, gs, q, sp['atol_unit']), 'ivp': (lambda: build('ivp', g, rho), big, gs, q, sp['atol_unit']),
              'robust': (lambda: build('robust', g, rhor), big, gr, qr, sp['atol_unit']), 'lap': (lambda: build('lap', g, rho), big, None, 0.0, 0.0),
              'bvp-molecular': (lambda: Im.solve('bvp', mol, _rho(mol.points, gm), include_origin=False), bigm, gm, 1.6, 0.15)}      # degree-3 molecular grid: sanity only (observed <= 0.09)
    for name in sp['routes']:
        mk, P, gg, qq, au = routes[name]
        V = mk()
        sizes = sp['sizes'] if name in sp['big_routes'] else [n for n in sp['sizes'] if n <= 70000]
        n_top = max(sizes)
        ref = np.concatenate([V(P[i:min(i + 9973, n_top)]) for i in range(0, n_top, 9973)])          # brute force: 9973 points (a prime) at a time
        scale = max(1.0, float(np.max(np.abs(ref))))
        if gg is not None:
            I.chk(f'{name}: {n_top} points, chunk-wise reference vs analytic potential', np.max(np.abs(ref - _ref(P[:n_top], gg))), au * qq)
        for n in sizes:
            v = V(P[:n])
            ok = np.shape(v) == (n,)
            worst = int(np.argmax(np.abs(v - ref[:n]))) if ok else 0
            I.chk(f'{name}: one call with {n} evaluation points vs the same callable on chunks of 9973 points, element by element (worst at index {worst} of {n})',
                  np.max(np.abs(v - ref[:n])) if ok else 1.0, 1e-11 * scale)
        n_h = min(n_top, 65537)
        h = n_h // 2 + 1
        I.same(f'{name}: f(all {n_h} points) == concat(f(first half), f(second half))', V(P[:n_h]), np.concatenate([V(P[:h]), V(P[h:n_h])]), rtol=1e-12)
    pts = big[:24].copy()
    ref = {k: routes[k][0]()(pts) for k in ('bvp', 'ivp', 'robust', 'lap')}
    # -- class 22 -----------------------------------------------------------------------------------------------------------
    rev = OneDGrid(I.radial.points[::-1].copy(), I.radial.weights[::-1].copy(), I.radial.domain)
    for k in ('bvp', 'lap'):
        try:
            grev = I.AtomGrid(rev, degrees=[deg], center=c.copy())
            v = build(k, grev, _rho(grev.points, gs))(pts)
        except ValueError:
            I.chk(f'{k}: descending radial grid rejected with ValueError (a clean rejection is acceptable)', 0.0, 0.5)
            continue
        I.chk(f'{k}: descending radial grid accepted: same answer as on the ascending grid', np.max(np.abs(v - ref[k])), 1e-6 * max(1.0, float(np.max(np.abs(ref[k])))))
    basis = [0.3, 1.0, 3.0, 9.0, 27.0]
    r2 = build('robust', g, rhor, split2=True, alphas_basis=basis)(pts)
    I.chk('robust split2 vs analytic (basis ascending)', np.max(np.abs(r2 - _ref(pts, gr))), sp['atol_unit'] * qr)
    for name, ab in (('descending', basis[::-1]), ('shuffled', [3.0, 27.0, 0.3, 9.0, 1.0])):
        I.chk(f'robust split2: alphas_basis {name} vs ascending (the fit treats every exponent alike)', np.max(np.abs(build('robust', g, rhor, split2=True, alphas_basis=ab)(pts) - r2)), sp['linear_atol_unit'] * qr)
    # -- class 23 -----------------------------------------------------------------------------------------------------------
    p16 = (c + np.round((pts - c) * 8.0) / 8.0)
    p16 = p16[np.linalg.norm(p16 - c, axis=1) > 0.1]
    for k in ('bvp', 'ivp', 'robust', 'lap'):
        V = routes[k][0]()
        want = V(p16)
        sc = 1e-9 * max(1.0, float(np.max(np.abs(want))))
        for name, arr in (('longdouble', p16.astype(np.longdouble)), ('float32 (exactly representable)', p16.astype(np.float32)), ('float16 (exactly representable)', p16.astype(np.float16))):
            if not np.array_equal(arr.astype(np.float64), p16):
                continue
            snap = arr.copy()
            try:
                v1 = V(arr)
                v2 = V(arr)
            except (TypeError, ValueError):
                continue          # a clean rejection of a dtype is acceptable
            I.chk(f'{k}: points as {name} vs float64', np.max(np.abs(np.asarray(v1, dtype=float) - want)), sc)
            I.chk(f'{k}: second call with the same {name} points object vs first', np.max(np.abs(np.asarray(v2, dtype=float) - np.asarray(v1, dtype=float))), 0.0)
            I.chk(f'{k}: {name} points modified', 0.0 if np.array_equal(arr, snap) and arr.dtype == snap.dtype else 1.0, 0.5)
    for name, ab in (('float32', np.array(basis, dtype=np.float32)), ('longdouble', np.array(basis, dtype=np.longdouble)), ('int64 [1, 3, 9, 27]', np.array([1, 3, 9, 27]))):
        snap = ab.copy()
        want = build('robust', g, rhor, split2=True, alphas_basis=[float(x) for x in ab])(pts)
        I.chk(f'robust split2: alphas_basis as {name} vs float64 list', np.max(np.abs(build('robust', g, rhor, split2=True, alphas_basis=ab)(pts) - want)), sp['linear_atol_unit'] * qr)
        I.chk(f'robust split2: alphas_basis {name} modified', 0.0 if np.array_equal(ab, snap) and ab.dtype == snap.dtype else 1.0, 0.5)
    # -- class 24 -----------------------------------------------------------------------------------------------------------
    for tf in (rtransform.BeckeRTransform(1e-4, R=sp['R_other']), rtransform.LinearFiniteRTransform(1e-4, I.rmax + 5.0)):
        inv2 = rtransform.InverseRTransform(tf)
        np.random.seed(7)
        v = I.bvp(g, rho, inv2, remove_large_pts=10.0)(pts)
        I.chk(f'bvp with an ODE transform unrelated to the radial grid ({type(tf).__name__}) vs analytic', np.max(np.abs(v - _ref(pts, gs))), sp['atol_unit'] * q)
        g_other = I.AtomGrid(I.radial, degrees=[sp['other_deg']], center=np.zeros(3))
        np.random.seed(7)
        I.bvp(g_other, _rho(g_other.points, [(1.0, 1.0, Z)]), inv2, remove_large_pts=8.0)(pts)
        np.random.seed(7)
        I.same(f'bvp: one {type(tf).__name__} transform object used for another grid in between vs before', I.bvp(g, rho, inv2, remove_large_pts=10.0)(pts), v)
        I.chk(f'ivp with that transform vs analytic', np.max(np.abs(I.ivp(g, rho, inv2, r_interval=(I.rmax, I.rmin))(pts) - _ref(pts, gs))), sp['atol_unit'] * q)
    # -- class 25: the same array objects with new contents --------------------------------------------------------------------------------
    gs2 = [(a * 0.7, al * 1.3, R) for a, al, R in gs]
    buf, pbuf = rho.copy(), pts.copy()
    for k in ('bvp', 'ivp', 'lap'):
        V1 = build(k, g, buf)
        V1(pbuf)
        buf[:] = _rho(g.points, gs2)
        pbuf *= 0.5
        pbuf += 0.5 * c
        fresh = build(k, I.AtomGrid(I.radial, degrees=[deg], center=c.copy()), buf.copy())(pbuf.copy())
        I.same(f'{k}: second solve with the same density / points array objects after new contents were written into them vs fresh copies', build(k, g, buf)(pbuf), fresh)
        buf[:] = rho
        pbuf[:] = pts
    bufr, cbuf, abuf = rhor.copy(), atc.copy(), np.array(basis)
    build('robust', g, bufr, atcoords=cbuf, split2=True, alphas_basis=abuf)(pts)
    abuf *= 1.7
    bufr *= 1.1
    fresh = build('robust', I.AtomGrid(I.radial, degrees=[deg], center=c.copy()), bufr.copy(), atcoords=cbuf.copy(), split2=True, alphas_basis=abuf.copy())(pts)
    I.same('robust: second solve with the same density / atcoords / alphas_basis objects after in-place changes vs fresh copies', build('robust', g, bufr, atcoords=cbuf, split2=True, alphas_basis=abuf)(pts), fresh)
    # -- class 26: two grids that differ only in a node at r = 0 -------------------------------------------------------------------------------
    pair = {}
    for rmin in (0.0, 1e-6):
        tf = rtransform.BeckeRTransform(rmin, R=sp['R_other'], trim_inf=True)
        rad = tf.transform_1d_grid(onedgrid.Trapezoidal(sp['n0']))
        pair[rmin] = (lambda rad=rad: I.AtomGrid(rad, degrees=[5], center=np.zeros(3)), rtransform.InverseRTransform(tf))
    p0 = _points({'pseed': sp['seed'], 'npts': 20}, [np.zeros(3)], 8.0)
    g0s = [(1.0, sp['gauss'][0][1], Z)]

    def one(rmin, grid=None):
        mk, inv_ = pair[rmin]
        gg_ = grid or mk()
        np.random.seed(7)
        return I.bvp(gg_, _rho(gg_.points, g0s), inv_, remove_large_pts=10.0)(p0), gg_

    iso = {}
    for rmin in sp['order26']:
        iso[rmin], _ = one(rmin)
        I.chk(f'bvp on a radial grid with first point {rmin:g} vs analytic', np.max(np.abs(iso[rmin] - _ref(p0, g0s))), sp['atol_unit'])
    ga, gb = pair[sp['order26'][0]][0](), pair[sp['order26'][1]][0]()
    for rmin, gobj in ((sp['order26'][0], ga), (sp['order26'][1], gb), (sp['order26'][0], ga), (sp['order26'][1], gb)):
        I.same(f'bvp: grids with / without a node at r = 0 alternating in one process (first point {rmin:g}) vs the answer computed in isolation', one(rmin, gobj)[0], iso[rmin])


def inv_run(spec):
    """-> list of (label, observed, threshold); a check fails iff not observed <= threshold"""
    I = _Inv(spec)
    {'funcvals': inv_funcvals, 'params': inv_params, 'grid': inv_grid, 'mol': inv_mol, 'dtype': inv_dtype, 'extreme': inv_extreme,
     'translate': inv_translate, 'scale': inv_scale, 'special': inv_special, 'threshold': inv_threshold, 'inner': inv_inner, 'blocks': inv_blocks}[spec['scenario']](I)
    return I.out
'''
_ns_inv: dict = {}
exec(INV_SRC, _ns_inv)
_inv_run = _ns_inv["inv_run"]


def _inv_snippet(spec, label) -> str:
    return (INV_SRC + f"\nspec = json.loads({json.dumps(json.dumps(spec))})\n"
            f"bad = [(l, o, t) for l, o, t in inv_run(spec) if l == {label!r} and not (o <= t)]\n"
            "assert not bad, bad\n")


# ----------------------------------------------------------------------------------------------
# interception of the calls into grid.ode (harness process only; /repo is not modified)
# ----------------------------------------------------------------------------------------------
def _dummy_spline(i):
    return lambda r, i=i: np.sin(0.7 * i + 1.3 * np.asarray(r, dtype=float)) + 0.2 * i


class Intercept:
    """Replace poisson.solve_ode_bvp / solve_ode_ivp by recorders that return known functions, and wrap the
    per-atom solvers to see the slices they get."""

    def __init__(self):
        self.P = importlib.import_module("grid.poisson")
        self.calls = []       # per solve_ode_* call
        self.atoms = []       # per _solve_poisson_*_atomgrid call: dict(grid, vals, first_call, interp)

    def __enter__(self):
        P = self.P
        self.saved = {k: getattr(P, k) for k in ("solve_ode_bvp", "solve_ode_ivp", "_solve_poisson_bvp_atomgrid", "_solve_poisson_ivp_atomgrid")}

        def fake_bvp(x, fx, coeffs, bd_cond, transform=None, **kw):
            i = len(self.calls) - self.atoms[-1]["first_call"]
            self.calls.append(dict(kind="bvp", x=np.array(x, copy=True), fx=fx, coeffs=list(coeffs), data=list(bd_cond), transform=transform, kw=dict(kw)))
            return _dummy_spline(i)

        def fake_ivp(x_span, fx, coeffs, y0, transform=None, **kw):
            i = len(self.calls) - self.atoms[-1]["first_call"]
            self.calls.append(dict(kind="ivp", x=tuple(x_span), fx=fx, coeffs=list(coeffs), data=list(y0), transform=transform, kw=dict(kw)))
            return _dummy_spline(i)

        def wrap(name):
            orig = self.saved[name]

            def w(atomgrid, func_vals, *a, **k):
                rec = dict(grid=atomgrid, vals=np.array(func_vals, copy=True), first_call=len(self.calls))
                self.atoms.append(rec)
                rec["interp"] = orig(atomgrid, func_vals, *a, **k)
                rec["ncalls"] = len(self.calls) - rec["first_call"]
                return rec["interp"]
            return w

        P.solve_ode_bvp = fake_bvp
        P.solve_ode_ivp = fake_ivp
        P._solve_poisson_bvp_atomgrid = wrap("_solve_poisson_bvp_atomgrid")
        P._solve_poisson_ivp_atomgrid = wrap("_solve_poisson_ivp_atomgrid")
        return self

    def __exit__(self, *a):
        for k, v in self.saved.items():
            setattr(self.P, k, v)


# ----------------------------------------------------------------------------------------------
# round 4: crash-proof structure -- parts / cases run independently; an exception of the harness in one of them is kept and re-raised
# only after everything else has run (a DriverError is an infrastructure problem and is passed on at once)
# ----------------------------------------------------------------------------------------------
from ..common import DriverError


def _keep_exc(ctx: Ctx, label, e):
    import traceback

    kept = ctx.extra.setdefault("_kept_exc", [])
    if len(kept) < 5:
        kept.append((label, e, traceback.format_exc()[-1500:]))


def _part(ctx: Ctx, label, fn):
    try:
        fn()
    except DriverError:
        raise
    except Exception as e:
        _keep_exc(ctx, label, e)


def _raise_kept(ctx: Ctx):
    kept = ctx.extra.pop("_kept_exc", [])
    if kept:
        label, e, tb = kept[0]
        ctx.info(f"{len(kept)} part(s) of the harness raised; first: {label}: {type(e).__name__}: {e}")
        raise RuntimeError(f"part '{label}' raised {type(e).__name__}: {e}\n{tb}") from e


def _tok(line):
    t = Tokens(line)
    tag = t.tok()
    return tag, t


def _feq(a, b, rtol=RTOL, scale=None):
    return close(float(a), float(b), rtol=rtol, scale=scale)


def _small_grid(ctx: Ctx, center=None, with_origin=None):
    og = importlib.import_module("grid.onedgrid")
    rt = importlib.import_module("grid.rtransform")
    ag = importlib.import_module("grid.atomgrid")
    n = ctx.rng.choice([2, 3, 4, 5]) if ctx.rng.random() < 0.12 else ctx.rng.randrange(6, 26)      # single-interval / few-shell grids included
    rmin = ctx.rng.choice([0.0, 1e-6, 1e-3, 1e-300, 1.01e-10]) if with_origin is None else (0.0 if with_origin else 1e-4)
    oned = og.Trapezoidal(n) if (rmin == 0.0 or ctx.rng.random() < 0.5) else og.GaussLegendre(n)
    tf = rt.BeckeRTransform(rmin, R=ctx.rng.uniform(0.8, 2.0), trim_inf=True)
    radial = tf.transform_1d_grid(oned)
    nsec = ctx.rng.choice([1, 1, 2])
    degs = [ctx.rng.choice([3, 5, 7, 9, 11, 13]) for _ in range(nsec)]
    if nsec == 1:
        g = ag.AtomGrid(radial, degrees=degs, center=center)
    else:
        g = ag.AtomGrid.from_pruned(radial, 1.0, r_sectors=[float(np.median(radial.points))], d_sectors=degs, center=center)
    return g, tf, rt.InverseRTransform(tf)


def _density(ctx: Ctx, pts, centers):
    k = ctx.rng.randrange(1, 4)
    out = np.zeros(len(pts))
    for _ in range(k):
        c = ctx.rng.choice([1.0, -0.5, 0.7, 2.0])
        a = 10 ** ctx.rng.uniform(-0.5, 0.8)
        R = np.asarray(ctx.rng.choice(centers)) + np.array([ctx.rng.uniform(-0.4, 0.4) for _ in range(3)]) * ctx.rng.choice([0, 1])
        out += c * (a / np.pi) ** 1.5 * np.exp(-a * np.sum((pts - R) ** 2, axis=1))
    if ctx.rng.random() < 0.08:
        out[:] = 0.0
    return out


def _check_atom(ctx: Ctx, kind, rec, calls, opts, y00_lib, consts, key):
    """Compare what one per-atom solver posed with the model."""
    utils = importlib.import_module("grid.utils")
    g, vals = rec["grid"], rec["vals"]
    lmax = int(g.l_max)
    integral = float(g.integrate(vals))
    lines = [f"C16.boundary {f2b(integral)} {f2b(y00_lib)}"]
    ans = driver_batch(lines)[0]
    tag, t = _tok(ans)
    bm, bi = t.flt(), t.flt()
    if kind == "bvp":
        B = opts["boundary"] if opts.get("boundary") is not None else bm
        seq = driver_batch([f"C16.bvpseq {lmax} {f2b(B)}"])[0]
    else:
        r0, r1 = opts["r_interval"]
        seq = driver_batch([f"C16.ivpseq {lmax} {f2b(bi)} {f2b(r0)}"])[0]
    tag, t = _tok(seq)
    nprob = t.nat()
    if nprob != len(calls):
        ctx.fail("corr", f"{key}:count", f"{kind}: library posed {len(calls)} radial problems, model {nprob} (l_max={lmax})",
                 witness={"l_max": lmax, "impl": len(calls), "model": nprob})
        return
    probs = []
    for _ in range(nprob):
        l, m = t.nat(), int(t.tok())
        if kind == "bvp":
            k = t.nat()
            data = [(t.nat(), t.nat(), t.flt()) for _ in range(k)]
        else:
            data = t.fvec()
        probs.append((l, m, data))
    # mesh
    if kind == "bvp":
        rl = opts.get("remove_large_pts", 1e6)
        line = f"C16.radpts {int(bool(opts.get('include_origin', True)))} {int(rl is not None)} {f2b(rl if rl is not None else 0.0)} {fvec(g.rgrid.points)}"
        tag, t = _tok(driver_batch([line])[0])
        mesh = t.fvec()
        for c in calls[:1] + calls[-1:]:
            if len(mesh) != len(c["x"]) or any(f2b(a) != f2b(b) for a, b in zip(mesh, c["x"])):
                ctx.fail("corr", f"{key}:mesh", f"radial mesh handed to solve_ode_bvp differs from the model (include_origin={opts.get('include_origin', True)}, remove_large_pts={rl})",
                         witness={"impl": c["x"][:5], "model": mesh[:5], "len_impl": len(c["x"]), "len_model": len(mesh), "opts": {k: v for k, v in opts.items()}})
                return
    else:
        for c in calls[:1]:
            if tuple(float(v) for v in c["x"]) != tuple(float(v) for v in opts["r_interval"]):
                ctx.fail("corr", f"{key}:interval", "r_interval handed to solve_ode_ivp differs", witness={"impl": c["x"], "want": opts["r_interval"]})
    # problems: data, coefficients, rhs at sample radii; the radial component problem #i reads is the generated i_spline bookkeeping
    a1, a2 = driver_batch([f"C16.splineidx {len(calls)}", f"C16.harmdeg {lmax}"])
    tag, t = _tok(a1)
    idx_b, idx_i = t.vec(), t.vec()
    sidx = idx_b if kind == "bvp" else idx_i
    tag, t = _tok(a2)
    hd = [int(t.tok()), int(t.tok())][0 if kind == "bvp" else 1]
    splines = g.radial_component_splines(vals)
    if len(sidx) != len(calls) or any(not (0 <= j < len(splines)) for j in sidx) or (hd + 1) ** 2 != len(calls):
        ctx.fail("corr", f"{key}:index", f"{kind}: generated i_spline sequence {sidx[:6]}… / harmonic degree {hd} do not fit {len(calls)} problems and {len(splines)} radial components",
                 witness={"l_max": lmax, "sidx": sidx[:10], "harm_degree": hd})
        return
    pick = sorted(set([0, 1, 2, 3, len(calls) - 1] + [ctx.rng.randrange(len(calls)) for _ in range(3)]))
    pick = [i for i in pick if 0 <= i < len(calls)]
    rs_pool = [float(x) for x in (calls[0]["x"] if kind == "bvp" else g.rgrid.points)]
    if not rs_pool:       # every radial point was above remove_large_pts (empty mesh handed to the ode layer): sample the callables at the grid's radii
        rs_pool = [float(x) for x in g.rgrid.points]
    lines, meta = [], []
    for i in pick:
        c = calls[i]
        l, m, data = probs[i]
        # boundary / initial data
        impl = [(int(e), int(d), float(v)) for e, d, v in c["data"]] if kind == "bvp" else [float(v) for v in c["data"]]
        ok = len(impl) == len(data) and all(
            (a[0] == b[0] and a[1] == b[1] and _feq(a[2], b[2], rtol=1e-14)) if kind == "bvp" else _feq(a, b, rtol=1e-14)
            for a, b in zip(impl, data))
        if not ok:
            ctx.fail("corr", f"{key}:{'bd_cond' if kind == 'bvp' else 'initial'}",
                     f"{kind} problem #{i} (l={l}): {'boundary conditions' if kind == 'bvp' else 'initial data'} {impl}, model {data}",
                     witness={"i": i, "l": l, "m": m, "impl": impl, "model": data, "integral": integral, "y00": y00_lib})
        if len(c["coeffs"]) != 3:
            ctx.fail("corr", f"{key}:coeffs", f"{kind} problem #{i}: {len(c['coeffs'])} coefficients", witness={"i": i})
            continue
        rs = [rs_pool[0], rs_pool[-1], ctx.rng.choice(rs_pool), 10 ** ctx.rng.uniform(-3, 1.5)]
        if kind == "bvp":
            # both sides of the `r == 0` replacement and of its constant 1e-10 (factors 1.01 and 100), the smallest doubles
            rs += [0.0, -0.0, ctx.rng.choice([5e-324, 1e-300, 1e-12, 1e-10 / 1.01, 1e-10, 1.01e-10, 1e-8])]
        for r in rs:
            arr = np.array([r], dtype=float)
            with np.errstate(all="ignore"):
                cv = [float(np.asarray(a(arr.copy())).reshape(-1)[0]) if callable(a) else float(a) for a in c["coeffs"]]
                fv = float(np.asarray(c["fx"](arr.copy())).reshape(-1)[0])
                rho = float(splines[sidx[i]](r))
            lines.append(f"C16.{kind} {l} {f2b(r)} {f2b(rho)}")
            meta.append((i, l, r, rho, cv, fv))
    out = driver_batch(lines)
    for (i, l, r, rho, cv, fv), ans in zip(meta, out):
        tag, t = _tok(ans)
        mc = t.fvec()
        mf = t.flt()
        ctx.count([kind, "problem", lmax, i, r], nontrivial=(lmax // 2 >= 1 and integral != 0.0), tag=f"{kind}:problem:l={l}" + (":r=0" if r == 0.0 else ":r<=1e-8" if r <= 1e-8 else ""))
        if not (len(mc) == 3 and all(_feq(a, b) for a, b in zip(cv, mc))):
            ctx.fail("corr", f"{key}:coeffs", f"{kind} problem #{i} (l={l}) coefficients at r={r}: implementation {cv}, model {mc}",
                     witness={"i": i, "l": l, "r": r, "impl": cv, "model": mc})
        if not _feq(fv, mf):
            ctx.fail("corr", f"{key}:rhs", f"{kind} problem #{i} (l={l}) right-hand side at r={r}: implementation {fv}, model {mf} (rho_lm={rho})",
                     witness={"i": i, "l": l, "r": r, "rho": rho, "impl": fv, "model": mf})
    # options handed to the ode layer
    kw = calls[0]["kw"]
    if opts.get("ode_params") is None:
        if kind == "bvp":
            want = {"tol": consts["tol"], "max_nodes": consts["max_nodes"], "no_derivatives": consts["no_deriv"]}
        else:
            want = {"method": consts["method"], "rtol": consts["rtol"], "atol": consts["atol"], "no_derivatives": True}
        if kw != want:
            ctx.fail("corr", f"{key}:options", f"{kind}: options handed to the ode layer {kw}, model {want}", witness={"impl": kw, "model": want})
    if calls[0]["transform"] is not opts["transform"]:
        ctx.fail("corr", f"{key}:transform", "the transform handed to the ode layer is not the caller's")
    # back-substitution and sum over (l, m)
    pts = g.center + np.array([[ctx.rng.gauss(0, 1) for _ in range(3)] for _ in range(4)]) * 10 ** ctx.rng.uniform(-2, 0.5)
    pts = np.vstack([pts, g.center[None, :]])
    if not np.any(g.center):
        # both sides of the 1e-300 mask of the back-substitution (factors 1.01 and 100) and the smallest doubles: representable only around the origin
        d = np.array([0.6, 0.0, -0.8])
        pts = np.vstack([pts] + [(t * d)[None, :] for t in (1e-300 / 1.01, 1e-300, 1.01e-300, 1e-302, 1e-298, 5e-324)])
    with np.errstate(all="ignore"):
        got = rec["interp"](pts)
    sph = g.convert_cartesian_to_spherical(pts)
    ylm = utils.generate_real_spherical_harmonics(hd, sph[:, 1], sph[:, 2])
    lines = []
    for j in range(len(pts)):
        us = [float(_dummy_spline(i)(sph[j, 0])) for i in range(len(calls))]
        lines.append(f"C16.pot {f2b(sph[j, 0])} {fvec(us)} {fvec(ylm[:, j])}")
    for j, ans in enumerate(driver_batch(lines)):
        tag, t = _tok(ans)
        vb, vi = t.flt(), t.flt()
        model = vb if kind == "bvp" else vi
        r = float(sph[j, 0])
        scale = float(np.sum(np.abs(ylm[:, j])) * (1.0 + len(calls) * 0.2) / (r if (kind == "bvp" and r > 0) else 1.0))
        ctx.count([kind, "value", lmax, r], nontrivial=(lmax // 2 >= 1), tag=f"{kind}:value" + (":r=0" if r == 0.0 else ":r~1e-300" if r < 1e-200 else ""))
        if not _feq(got[j], model, rtol=1e-11, scale=scale):
            ctx.fail("corr", f"{key}:value", f"{kind}: interpolant at distance {r} from the centre is {float(got[j])}, model {model} (known radial functions)",
                     witness={"r": r, "impl": float(got[j]), "model": model, "l_max": lmax})


def _consts():
    tag, t = _tok(driver_batch(["C16.consts"])[0])
    c = {"tol": t.flt(), "max_nodes": t.nat(), "no_deriv": bool(t.nat()), "remove_large": t.flt(), "include_origin": bool(t.nat()),
         "method": t.tok(), "rtol": t.flt(), "atol": t.flt(), "r0": t.flt(), "r1": t.flt(), "split2": bool(t.nat())}
    tag, t = _tok(driver_batch(["C16.consts2"])[0])
    c.update({"pub_r0": t.flt(), "pub_r1": t.flt(), "pub_include_origin": bool(t.nat()), "pub_remove_large": t.flt(),
              "wrap_weight": t.flt(), "wrap_atnum": t.flt(), "wrap_store": bool(t.nat()), "mol_requires_store": bool(t.nat()),
              "bvp_y00_angles": (t.flt(), t.flt()), "ivp_y00_angles": (t.flt(), t.flt()), "domain_index": t.nat(), "where_index": t.nat(),
              "basis_start": t.flt(), "basis_stop": t.flt(), "basis_num": t.nat(), "fit_empty_shape": (t.nat(), t.nat()), "fit_init_shape": (t.nat(), t.nat()),
              "core_zip_strict": bool(t.nat()), "robust_zip_strict": bool(t.nat()), "core_sum_axis": t.nat(), "fit_sum_axis": t.nat(), "tile_cols": t.nat(),
              "split2_dflt": bool(t.nat()), "copies_density": bool(t.nat()), "fit_copies": bool(t.nat())})
    return c


def corr(ctx: Ctx):
    import inspect

    P = importlib.import_module("grid.poisson")
    RP = importlib.import_module("grid.robust_poisson")
    utils = importlib.import_module("grid.utils")
    mgm = importlib.import_module("grid.molgrid")
    becke = importlib.import_module("grid.becke")
    cb = importlib.import_module("grid.coulomb")
    consts = _consts()
    # signature defaults
    sb = inspect.signature(P.solve_poisson_bvp).parameters
    sa = inspect.signature(P._solve_poisson_bvp_atomgrid).parameters
    si = inspect.signature(P._solve_poisson_ivp_atomgrid).parameters
    ctx.count(["defaults"], nontrivial=False, tag="defaults")
    for nm, par, kr, ki in (("solve_poisson_bvp", sb, "pub_remove_large", "pub_include_origin"), ("_solve_poisson_bvp_atomgrid", sa, "remove_large", "include_origin")):
        if par["remove_large_pts"].default != consts[kr] or par["include_origin"].default is not consts[ki] or par["boundary"].default is not None:
            ctx.fail("corr", "poisson.solve_poisson_bvp:defaults", f"{nm}: defaults differ from the generated ones",
                     witness={"impl": [repr(par[k].default) for k in ("boundary", "include_origin", "remove_large_pts")], "model": consts})
    if tuple(si["r_interval"].default) != (consts["r0"], consts["r1"]) or tuple(inspect.signature(P.solve_poisson_ivp).parameters["r_interval"].default) != (consts["pub_r0"], consts["pub_r1"]):
        ctx.fail("corr", "poisson.solve_poisson_ivp:defaults", "r_interval default differs", witness={"impl": si["r_interval"].default, "model": [consts["r0"], consts["r1"]]})
    if inspect.signature(RP.solve_poisson_robust).parameters["split2"].default is not consts["split2"] or consts["split2"] is not consts["split2_dflt"]:
        ctx.fail("corr", "robust_poisson.solve_poisson_robust:defaults", "split2 default differs")
    y00_lib = float(utils.generate_real_spherical_harmonics(0, np.array([consts["bvp_y00_angles"][0]]), np.array([consts["bvp_y00_angles"][1]]))[0, 0])
    y00_ivp = float(utils.generate_real_spherical_harmonics(0, np.array([consts["ivp_y00_angles"][0]]), np.array([consts["ivp_y00_angles"][1]]))[0, 0])
    if f2b(y00_lib) != f2b(y00_ivp):
        ctx.fail("corr", "poisson:y00", f"Y_00 at the angles of the two solvers differs: {y00_lib} vs {y00_ivp}")
    tag, t = _tok(driver_batch(["C16.y00"])[0])
    y00_m = t.flt()
    ctx.count(["y00"], nontrivial=False, tag="y00")
    if not _feq(y00_lib, y00_m, rtol=1e-15):
        ctx.fail("corr", "poisson:y00", f"generate_real_spherical_harmonics(0,...)[0,0] = {y00_lib}, model 1/(2 sqrt(pi)) = {y00_m}")

    ncase = ctx.n(36, 500)
    for case in range(ncase):
        try:
            natom = ctx.rng.choice([1, 1, 1, 2, 3])
            kind = "bvp" if ctx.rng.random() < 0.65 else "ivp"
            centers = [np.zeros(3)] if natom == 1 and ctx.rng.random() < 0.5 else [np.array([ctx.rng.uniform(-1.5, 1.5) for _ in range(3)]) + 2.5 * k for k in range(natom)]
            tf = inv = None
            grids = []
            g0, tf, inv = _small_grid(ctx, center=centers[0], with_origin=(False if kind == "ivp" else None))
            grids.append(g0)
            ag = importlib.import_module("grid.atomgrid")
            for c in centers[1:]:
                grids.append(ag.AtomGrid(g0.rgrid, degrees=[int(g0.l_max)], center=c))
            if natom == 1:
                mg = grids[0]
                # an AtomGrid argument: the generated wrap (np.array([w] * size), one atom: indices = [0, size])
                weights, indices = np.array(_tok(driver_batch([f"C16.wrap {mg.size}"])[0])[1].fvec()), np.array([0, mg.size])
            else:
                mg = mgm.MolGrid(np.array([1] * natom), grids, becke.BeckeWeights(order=3), store=True)
                weights, indices = mg.aim_weights, mg.indices
            vals = _density(ctx, mg.points, centers)
            opts = {"transform": inv}
            with Intercept() as ic:
                try:
                    with np.errstate(all="ignore"):
                        if kind == "bvp":
                            pts_r = g0.rgrid.points
                            opts["include_origin"] = ctx.rng.random() < 0.6
                            pk = float(np.sort(pts_r)[len(pts_r) * 2 // 3])
                            # None / default / exactly a radial point / both sides of it by factors 1.01 and 100
                            opts["remove_large_pts"] = ctx.rng.choice([None, 1e6, pk, float(pts_r[-1]), pk * 1.01, pk / 1.01, pk * 100.0, pk / 100.0])
                            opts["boundary"] = None if ctx.rng.random() < 0.7 else ctx.rng.uniform(-2, 2)
                            V = P.solve_poisson_bvp(mg, vals, inv, boundary=opts["boundary"], include_origin=opts["include_origin"],
                                                    remove_large_pts=opts["remove_large_pts"])
                        else:
                            rmax, rmin = float(np.max(g0.rgrid.points)), float(np.min(g0.rgrid.points))
                            u = ctx.rng.random()
                            if u < 0.12:          # the default of the public function
                                opts["r_interval"] = (consts["pub_r0"], consts["pub_r1"])
                                V = P.solve_poisson_ivp(mg, vals, inv)
                            else:
                                # decreasing / increasing (rejected) / equal end points and end points differing by one part in 1e2 either way (the guard is `<`)
                                opts["r_interval"] = ((min(rmax, 50.0), rmin) if u < 0.7 else (rmin, rmax) if u < 0.8 else (rmax, rmax) if u < 0.87
                                                      else (rmin, rmin * 1.01) if u < 0.93 else (rmin * 1.01, rmin))
                                V = P.solve_poisson_ivp(mg, vals, inv, r_interval=opts["r_interval"])
                    impl_tag = "ok"
                except ValueError:
                    impl_tag = "value-error"
            key = f"poisson.solve_poisson_{kind}:" + ("atomic" if natom == 1 else "molecular")
            if kind == "ivp":
                ans = driver_batch([f"C16.interval {f2b(opts['r_interval'][0])} {f2b(opts['r_interval'][1])}"])[0]
                mtag = ans.split()[0]
                ctx.count([kind, "interval", opts["r_interval"]], nontrivial=False, tag=f"ivp:interval:{mtag}")
                if mtag != impl_tag:
                    ctx.fail("corr", key + ":interval", f"r_interval={opts['r_interval']}: implementation {impl_tag}, model {mtag}")
                if impl_tag != "ok":
                    continue
            elif impl_tag != "ok":
                ctx.fail("corr", key + ":raise", "solve_poisson_bvp raised ValueError on a valid input", witness={"opts": {k: repr(v) for k, v in opts.items()}})
                continue
            if len(ic.atoms) != natom:
                ctx.fail("corr", key + ":atoms", f"{len(ic.atoms)} per-atom solves for {natom} atoms")
                continue
            # slices  w_A rho
            tag, t = _tok(driver_batch([f"C16.slices {fvec(vals)} {fvec(weights)} {vec([int(i) for i in indices])}"])[0])
            ctx.count([kind, "slices", natom, len(vals)], nontrivial=natom > 1, tag=f"{kind}:slices:natom={natom}")
            if tag != "ok" or t.nat() != natom:
                ctx.fail("corr", key + ":slices", f"model answered {tag} for the per-atom slices")
                continue
            for a in range(natom):
                ms = t.fvec()
                iv = ic.atoms[a]["vals"]
                if len(ms) != len(iv) or any(f2b(x) != f2b(y) for x, y in zip(ms, iv)):
                    ctx.fail("corr", key + ":slices", f"density handed to the solver of atom {a} differs from w_A*rho cut at molgrid.indices",
                             witness={"atom": a, "len_impl": len(iv), "len_model": len(ms), "impl": iv[:4], "model": ms[:4]})
            for a in range(natom):
                rec = ic.atoms[a]
                _check_atom(ctx, kind, rec, ic.calls[rec["first_call"]:rec["first_call"] + rec["ncalls"]], opts, y00_lib, consts, key)
            # sum over atoms
            pts = np.array([[ctx.rng.uniform(-3, 3) for _ in range(3)] for _ in range(3)])
            with np.errstate(all="ignore"):
                tot = V(pts)
                per = [rec["interp"](pts) for rec in ic.atoms]
            out = driver_batch([f"C16.molsum {fvec([p[j] for p in per])}" for j in range(len(pts))])
            for j, ans in enumerate(out):
                tag, t = _tok(ans)
                ctx.count([kind, "molsum", natom, j, case], nontrivial=natom > 1, tag=f"{kind}:molsum:natom={natom}")
                if tag != "ok" or not _feq(t.flt(), tot[j], rtol=1e-15, scale=sum(abs(float(p[j])) for p in per)):
                    ctx.fail("corr", key + ":sum", f"molecular potential is not the sum of the atomic interpolants in order", witness={"impl": float(tot[j]), "parts": [float(p[j]) for p in per]})
        except DriverError:
            raise
        except Exception as e:      # crash-proof: one case that raises must not hide what the other cases / parts find
            _keep_exc(ctx, 'posed-problem case', e)

    # ---- robust solver: residual, core density, total --------------------------------------------
    nrob = ctx.n(8, 80)
    saved = {k: getattr(RP, k) for k in ("solve_poisson_bvp", "_fit_residual_gaussians")}
    for case in range(nrob):
        try:
            natom = ctx.rng.choice([1, 1, 2])
            atnums = [ctx.rng.choice([1, 6, 7, 8, 17]) for _ in range(natom)]
            centers = [np.array([ctx.rng.uniform(-1, 1) for _ in range(3)]) + 2.0 * k for k in range(natom)]
            g0, tf, inv = _small_grid(ctx, center=centers[0])
            ag = importlib.import_module("grid.atomgrid")
            grids = [g0] + [ag.AtomGrid(g0.rgrid, degrees=[int(g0.l_max)], center=c) for c in centers[1:]]
            mg = grids[0] if natom == 1 else mgm.MolGrid(np.array(atnums), grids, becke.BeckeWeights(order=3), store=True)
            vals = _density(ctx, mg.points, centers) + 0.3
            split2 = ctx.rng.random() < 0.5
            seen = {}

            def fake_solve(molgrid, residual, transform, **kw):
                seen["args"] = (molgrid, np.array(residual, copy=True), transform, dict(kw))
                return lambda p: np.sin(np.sum(np.asarray(p), axis=1))

            def fit_wrap(grid_pts, residual, atc, alphas_basis):
                seen["fit_in"] = np.array(residual, copy=True)
                out = saved["_fit_residual_gaussians"](grid_pts, residual, atc, alphas_basis)
                seen["fit_out"] = out
                return out

            RP.solve_poisson_bvp = fake_solve
            RP._fit_residual_gaussians = fit_wrap
            try:
                kw = {"remove_large_pts": 10.0} if ctx.rng.random() < 0.5 else {}
                # non-default bases incl. a single exponent (0 or 1 retained Gaussian per atom)
                ab = ctx.rng.choice([None, None, [round(10 ** ctx.rng.uniform(-0.5, 1.0), 4)], [0.4, 2.5, 11.0]]) if split2 else None
                V = RP.solve_poisson_robust(mg, vals, inv, np.array(atnums), np.array(centers), split2=split2, alphas_basis=ab, **kw)
            finally:
                for k, v in saved.items():
                    setattr(RP, k, v)
            key = "robust_poisson.solve_poisson_robust:" + ("split2" if split2 else "split1")
            params = [cb.load_atomic_gaussian_params(int(z)) for z in atnums]
            after1 = seen["fit_in"] if split2 else seen["args"][1]
            if seen["args"][0] is not mg or seen["args"][2] is not inv or seen["args"][3] != kw:
                ctx.fail("corr", key + ":call", "solve_poisson_bvp is not called with the caller's grid / transform / options", witness={"kw": seen["args"][3]})
            if split2 and (len(seen["args"][1]) != len(vals) or any(f2b(a) != f2b(b) for a, b in zip(seen["args"][1], seen["fit_out"][3]))):
                ctx.fail("corr", key + ":call", "with split2 the array handed to solve_poisson_bvp is not the residual left by the fit")
            js = sorted({0, len(vals) - 1} | {ctx.rng.randrange(len(vals)) for _ in range(6)})
            lines, meta = [], []
            for j in js:
                cores = []
                for (cs, als), c in zip(params, centers):
                    rsq = float(np.sum((mg.points[j] - c) ** 2))
                    lib = float(RP._build_core_density(mg.points[j:j + 1], c, cs, als)[0])
                    cores.append(lib)
                    lines.append(f"C16.core {f2b(rsq)} {fvec(cs)} {fvec(als)}")
                    meta.append(("core", j, lib))
                lines.append(f"C16.residual {f2b(vals[j])} {fvec(cores)}")
                meta.append(("res", j, float(after1[j])))
            for (what, j, impl), ans in zip(meta, driver_batch(lines)):
                tag, t = _tok(ans)
                m = t.flt()
                ctx.count(["robust", what, case, j], nontrivial=True, tag=f"robust:{what}")
                if not _feq(impl, m, rtol=1e-12 if what == "core" else 1e-15, scale=max(abs(impl), abs(float(vals[j])))):
                    ctx.fail("corr", key + (":core-density" if what == "core" else ":residual"),
                             f"{'_build_core_density' if what == 'core' else 'residual after split 1'} at grid point {j}: implementation {impl}, model {m}",
                             witness={"point": j, "impl": impl, "model": m, "atnums": atnums})
            pts = np.array([[ctx.rng.uniform(-3, 3) for _ in range(3)] for _ in range(4)])
            tot = V(pts)
            pots = [cb.coulomb_potential(pts, centers_s=np.tile(c, (len(cs), 1)), coeffs_s=cs, alphas_s=als, normalized=True) for (cs, als), c in zip(params, centers)]
            vb = np.zeros(len(pts))
            if split2 and len(seen["fit_out"][0]) > 0:
                fc, fa, fcen, _ = seen["fit_out"]
                vb = cb.coulomb_potential(pts, centers_s=fcen, coeffs_s=fc, alphas_s=fa, normalized=True)
            vr = np.sin(np.sum(pts, axis=1))
            # v_bonding as the model sees it: the potential of the returned Gaussians (any number of them); whether it is used is the generated `len(fit_coeffs) > 0`
            nfit = len(seen["fit_out"][0]) if split2 else 0
            out = driver_batch([f"C16.total {f2b(vb[j])} {f2b(vr[j])} {fvec([p[j] for p in pots])}" for j in range(len(pts))]
                               + [f"C16.total2 {nfit} {f2b(vb[j])} {f2b(vr[j])} {fvec([p[j] for p in pots])}" for j in range(len(pts))])
            for j, (ans, ans2) in enumerate(zip(out[:len(pts)], out[len(pts):])):
                tag, t = _tok(ans)
                m = t.flt()
                m2 = _tok(ans2)[1].flt()
                ctx.count(["robust", "total2", case, j, nfit], nontrivial=True, tag=f"robust:total:nfit={'0' if nfit == 0 else '1' if nfit == 1 else '>1'}")
                if not _feq(tot[j], m2, rtol=1e-14):
                    ctx.fail("corr", key + ":total", f"total_potential = {float(tot[j])}, statement-wise model (nfit = {nfit}) = {m2}",
                             witness={"impl": float(tot[j]), "model": m2, "nfit": nfit, "v_core_parts": [float(p[j]) for p in pots], "v_bonding": float(vb[j]), "v_residual": float(vr[j])})
                ctx.count(["robust", "total", case, j], nontrivial=True, tag="robust:total" + (":split2" if split2 else ""))
                if not _feq(tot[j], m, rtol=1e-14):
                    ctx.fail("corr", key + ":total", f"total_potential = {float(tot[j])}, model v_core + v_bonding + v_residual = {m}",
                             witness={"impl": float(tot[j]), "model": m, "v_core_parts": [float(p[j]) for p in pots], "v_bonding": float(vb[j]), "v_residual": float(vr[j])})
        except DriverError:
            raise
        except Exception as e:      # crash-proof: one case that raises must not hide what the other cases / parts find
            _keep_exc(ctx, 'robust case', e)

    _part(ctx, 'laplacian', lambda: _corr_laplacian(ctx))
    _part(ctx, 'round3', lambda: _corr_round3(ctx, consts))
    _raise_kept(ctx)


# ----------------------------------------------------------------------------------------------
# interpolate_laplacian: correspondence with the generated model (laplacianAt, lapTermSlices, lapSum)
# ----------------------------------------------------------------------------------------------
def _lap_model(ctx, grids, vals, weights, indices, pts, cutoff):
    """Model value of interpolate_laplacian(...)(pts, cutoff): splines / harmonics are obtained independently from the
    atomic grids (inputs of the model), everything else comes from the driver.
    -> ("ok", values, scales) | ("value-error", why)"""
    utils = importlib.import_module("grid.utils")
    tag, t = _tok(driver_batch([f"C16.lapslices {fvec(vals)} {fvec(weights)} {vec([int(i) for i in indices])}"])[0])
    if tag != "ok":
        return ("model-" + tag, None, None)
    nterm = t.nat()
    terms = []
    for _ in range(nterm):
        gi = t.nat()
        terms.append((gi, np.array(t.fvec(), dtype=float)))
    scales = np.zeros(len(pts))
    prep = []
    for gi, sl in terms:
        g = grids[gi]
        if len(sl) != g.size:
            return ("value-error", f"term of atom {gi}: slice of length {len(sl)} on an atomic grid of {g.size} points", None)
        lmax = int(g.l_max)
        splines = g.radial_component_splines(sl)
        sph = g.convert_cartesian_to_spherical(np.array(pts, dtype=float, copy=True))
        ylm = utils.generate_real_spherical_harmonics(lmax // 2, sph[:, 1], sph[:, 2])
        prep.append((lmax, splines, sph, ylm))
    clamp = driver_batch([f"C16.lapclamp {f2b(r)} {f2b(cutoff)}" for (_, _, sph, _) in prep for r in sph[:, 0]])
    lines = []
    for a, (lmax, splines, sph, ylm) in enumerate(prep):
        degs = np.array([l * (l + 1) for l in range(lmax // 2 + 1) for _ in range(2 * l + 1)], dtype=float)
        for j in range(len(pts)):
            rc = _tok(clamp[a * len(pts) + j])[1].flt()
            rho = [float(sp(rc)) for sp in splines]
            rho1 = [float(sp(rc, 1)) for sp in splines]
            rho2 = [float(sp(rc, 2)) for sp in splines]
            lines.append(f"C16.lap {lmax} {f2b(sph[j, 0])} {f2b(cutoff)} {fvec(rho)} {fvec(rho1)} {fvec(rho2)} {fvec(ylm[:, j])}")
            y = np.abs(ylm[:, j])
            scales[j] += float(np.sum(np.abs(rho2) * y) + 2.0 / rc * np.sum(np.abs(rho1) * y) + np.sum(np.abs(rho) * degs * y) / rc ** 2)
    flat = []
    for a in driver_batch(lines):
        tg, tt = _tok(a)
        if tg != "ok":
            return ("model-" + tg, None, None)
        flat.append(tt.flt())
    per_atom = [flat[a * len(pts):(a + 1) * len(pts)] for a in range(len(prep))]
    tot = []
    for j, a in enumerate(driver_batch([f"C16.lapsum {fvec([pa[j] for pa in per_atom])}" for j in range(len(pts))])):
        tg, tt = _tok(a)
        if tg != "ok":
            return ("model-" + tg, None, None)
        tot.append(tt.flt())
        scales[j] += sum(abs(pa[j]) for pa in per_atom)
    return ("ok", np.array(tot), scales)


def _lap_points(ctx, centers, cutoff):
    """Evaluation points: generic ones, at an atomic centre, with r < cutoff, r == cutoff (exactly, for a centre with exactly
    representable offsets), just above the cutoff."""
    c = np.asarray(ctx.rng.choice(centers), dtype=float)
    d = np.array([ctx.rng.gauss(0, 1) for _ in range(3)])
    d /= np.linalg.norm(d)
    pts = [c + np.array([ctx.rng.gauss(0, 1) for _ in range(3)]) * 10 ** ctx.rng.uniform(-2, 0.4) for _ in range(3)]
    pts += [c.copy(), c + d * cutoff * ctx.rng.uniform(0.01, 0.9), c + np.array([cutoff, 0.0, 0.0]), c + np.array([0.0, 0.0, -cutoff]),
            c + d * cutoff * 1.0000001, c + d * 1e-9]
    ctx.rng.shuffle(pts)
    return np.array(pts)


def _corr_laplacian(ctx: Ctx):
    import inspect

    P = importlib.import_module("grid.poisson")
    ag = importlib.import_module("grid.atomgrid")
    mgm = importlib.import_module("grid.molgrid")
    becke = importlib.import_module("grid.becke")
    tag, t = _tok(driver_batch(["C16.lapconsts"])[0])
    cut_in, cut_out, need_store = t.flt(), t.flt(), bool(t.nat())
    orders = [t.nat(), t.nat(), t.nat()]
    key0 = "poisson.interpolate_laplacian"
    # the generated degrees array against its specification
    for lmax in (0, 1, 2, 3, 7, 11, 13, ctx.rng.randrange(0, 60)):
        tag, t = _tok(driver_batch([f"C16.lapdeg {lmax}"])[0])
        n = t.nat()
        md = [int(t.tok()) for _ in range(n)]
        want = [l * (l + 1) for l in range(lmax // 2 + 1) for _ in range(2 * l + 1)]
        ctx.count(["lap", "degrees", lmax], nontrivial=lmax >= 2, tag="lap:degrees")
        if md != want:
            ctx.fail("corr", key0 + ":degrees", f"generated degrees array for l_max={lmax} is not l(l+1) repeated 2l+1 times", witness={"l_max": lmax, "model": md[:12], "want": want[:12]})
    ncase = ctx.n(10, 120)
    for case in range(ncase):
        natom = ctx.rng.choice([1, 1, 2, 3]) if case >= 3 else (1, 2, 3)[case]
        centers = [np.zeros(3)] if natom == 1 and ctx.rng.random() < 0.4 else [np.array([ctx.rng.uniform(-1.0, 1.0) for _ in range(3)]) + 2.0 * k for k in range(natom)]
        g0, tf, inv = _small_grid(ctx, center=centers[0])
        mixed = natom > 1 and ctx.rng.random() < 0.2
        grids = [g0]
        for c in centers[1:]:
            if mixed:
                grids.append(ag.AtomGrid(g0.rgrid, degrees=[ctx.rng.choice([d for d in (3, 5, 7, 9) if d != int(g0.l_max)])], center=c))
            else:
                grids.append(ag.AtomGrid(g0.rgrid, degrees=[int(d) for d in g0.degrees], center=c))
        route = "atomgrid"
        if natom == 1 and ctx.rng.random() < 0.5:
            mg = grids[0]
            weights, indices = np.ones(mg.size), np.array([0, mg.size])
        else:
            route = "molgrid"
            mg = mgm.MolGrid(np.array([1] * natom), grids, becke.BeckeWeights(order=3), store=True)
            weights, indices = mg.aim_weights, mg.indices
        vals = _density(ctx, mg.points, centers)
        key = key0 + (":atomic" if natom == 1 else ":molecular")
        snap = vals.copy()
        try:
            L = P.interpolate_laplacian(mg, vals)
        except Exception as e:
            ctx.fail("corr", key + ":raise", f"interpolate_laplacian raised {type(e).__name__} on a valid grid (store=True)", witness={"natom": natom, "err": str(e)[:200]})
            continue
        if case < 3:
            d = inspect.signature(L).parameters
            ctx.count(["lap", "defaults"], nontrivial=False, tag="lap:defaults")
            if list(d) != ["points", "cut_off"] or d["cut_off"].default != cut_out:
                ctx.fail("corr", key0 + ":defaults", "signature / default cut_off of the returned callable differs from the generated one",
                         witness={"impl": str(inspect.signature(L)), "model": cut_out})
        for cutoff in [None, cut_out, ctx.rng.choice([1e-3, 0.5, 1e-8, 2.0 ** -10])]:
            cval = cut_out if cutoff is None else cutoff
            pts = _lap_points(ctx, centers, cval)
            psnap = pts.copy()
            try:
                with np.errstate(all="ignore"):
                    got = L(pts) if cutoff is None else (L(pts, cutoff) if ctx.rng.random() < 0.5 else L(pts, cut_off=cutoff))
                impl = "ok"
            except ValueError as e:
                impl, got = "value-error", str(e)[:160]
            if not np.array_equal(pts, psnap):
                ctx.fail("corr", key + ":points-modified", "the returned callable wrote into the caller's `points` (the clamp of r_pts reached the argument)",
                         witness={"cutoff": cval, "before": psnap[:3], "after": pts[:3]})
                pts = psnap.copy()
            mtag, model, scales = _lap_model(ctx, grids, vals, weights, indices, pts, cval)
            ctx.count(["lap", natom, case, repr(cutoff)], nontrivial=int(g0.l_max) // 2 >= 1, tag=f"lap:natom={natom}:{route}:{'mixed-sizes:' if mixed else ''}{mtag}")
            if mtag != impl:
                ctx.fail("corr", key + ":raise", f"implementation {impl} ({got if impl != 'ok' else ''}), model {mtag} ({model if mtag != 'ok' else ''})",
                         witness={"natom": natom, "sizes": [g.size for g in grids], "cutoff": cval})
                continue
            if impl != "ok":
                continue
            for j in range(len(pts)):
                r = float(np.min([np.linalg.norm(pts[j] - c) for c in centers]))
                ctx.count(["lap", "value", case, j, repr(cutoff)], nontrivial=int(g0.l_max) // 2 >= 1,
                          tag="lap:value:" + ("r=0" if r == 0.0 else "r<cutoff" if r < cval else "r=cutoff" if r == cval else "r>cutoff"))
                if not _feq(got[j], model[j], rtol=1e-12, scale=float(scales[j])):
                    ctx.fail("corr", key + ":value", f"interpolate_laplacian(...)(point, cutoff={cval}) at distance {r} from the nearest centre: implementation "
                             f"{float(got[j])}, model {float(model[j])} (largest term {float(scales[j]):.3e})",
                             witness={"natom": natom, "route": route, "point": pts[j], "centers": centers, "cutoff": cval, "r": r, "impl": float(got[j]), "model": float(model[j]),
                                      "scale": float(scales[j]), "l_max": int(g0.l_max)})
            # one point at a time (no state, no dependence on the other points of the batch -- np.any in the clamp)
            for j in ([0, len(pts) - 1] + [ctx.rng.randrange(len(pts))]):
                with np.errstate(all="ignore"):
                    one = L(pts[j:j + 1].copy(), cval)
                ctx.count(["lap", "single", case, j, repr(cutoff)], nontrivial=True, tag="lap:single-point")
                if one.shape != (1,) or not _feq(one[0], got[j], rtol=1e-12, scale=float(scales[j])):
                    ctx.fail("corr", key + ":batch", f"point {j} evaluated alone gives {float(one[0])}, in the batch {float(got[j])}",
                             witness={"point": pts[j], "cutoff": cval, "alone": float(one[0]), "batch": float(got[j])})
        if not np.array_equal(vals, snap):
            ctx.fail("corr", key + ":func_vals-modified", "interpolate_laplacian changed the caller's func_vals")
    # store=False must be rejected
    g0, tf, inv = _small_grid(ctx, center=np.zeros(3))
    g1 = ag.AtomGrid(g0.rgrid, degrees=[int(g0.l_max)], center=np.array([0.0, 0.0, 2.0]))
    mg = mgm.MolGrid(np.array([1, 1]), [g0, g1], becke.BeckeWeights(order=3), store=False)
    ctx.count(["lap", "store=False"], nontrivial=False, tag="lap:store=False")
    try:
        P.interpolate_laplacian(mg, np.ones(mg.size))
        got = "ok"
    except ValueError:
        got = "value-error"
    except Exception as e:
        got = type(e).__name__
    if got != ("value-error" if need_store else "ok"):
        ctx.fail("corr", key0 + ":store", f"MolGrid(store=False): implementation {got}, generated guard says {'ValueError' if need_store else 'accepted'}")


# ----------------------------------------------------------------------------------------------
# round 3: correspondence of the statement-wise generated text (type / domain guards, meshes next to the thresholds,
# _build_core_density from coordinates, _fit_residual_gaussians with recorded nnls answers, the guards of the robust solver)
# ----------------------------------------------------------------------------------------------
def _mats(m) -> str:
    m = np.asarray(m, dtype=float)
    return f"{m.shape[0]} {m.shape[1]} " + " ".join(f2b(x) for x in m.reshape(-1))


def _read_mat(t):
    r, c = t.nat(), t.nat()
    return np.array([t.flt() for _ in range(r * c)], dtype=float).reshape(r, c)


_MEMO: dict = {}


def _memo_driver(line: str) -> str:
    """Answers of small, pure guard ops are cached and fetched in bulk (each driver call is a process start)."""
    if line not in _MEMO:
        _MEMO[line] = driver_batch([line])[0]
    return _MEMO[line]


def _prefetch(lines):
    todo = [l for l in dict.fromkeys(lines) if l not in _MEMO]
    if todo:
        for l, a in zip(todo, driver_batch(todo)):
            _MEMO[l] = a


def _corr_round3(ctx: Ctx, consts):
    P = importlib.import_module("grid.poisson")
    RP = importlib.import_module("grid.robust_poisson")
    og = importlib.import_module("grid.onedgrid")
    rt = importlib.import_module("grid.rtransform")
    ag = importlib.import_module("grid.atomgrid")
    bg = importlib.import_module("grid.basegrid")
    cb = importlib.import_module("grid.coulomb")
    g, tf, inv = _small_grid(ctx, center=np.zeros(3), with_origin=False)
    vals = _density(ctx, g.points, [np.zeros(3)]) + 0.1

    def outcome(fn):
        try:
            with np.errstate(all="ignore"):
                fn()
            return "ok"
        except TypeError:
            return "type-error"
        except ValueError:
            return "value-error"
        except Exception as e:
            return type(e).__name__

    # ---- the three isinstance guards of the boundary-value solver ---------------------------------
    kinds = {"float": 1.5, "np.float64": np.float64(1.5), "none": None, "int": 2, "bool": True, "np.int64": np.int64(2), "np.float32": np.float32(1.5), "np.bool_": np.bool_(True)}
    combos = [(opt, kind, value) for opt in ("boundary", "include_origin", "remove_large_pts") for kind, value in kinds.items()]
    models = [a.split()[0] for a in driver_batch([f"C16.typeguard {opt} {kind}" for opt, kind, _ in combos])]
    for (opt, kind, value), model in zip(combos, models):
        if True:
            with Intercept():
                impl = outcome(lambda: P.solve_poisson_bvp(g, vals, inv, **{opt: value}))
            ctx.count(["typeguard", opt, kind], nontrivial=True, tag=f"bvp:typeguard:{opt}:{model}")
            if impl != model:
                ctx.fail("corr", "poisson.solve_poisson_bvp:typeguard", f"{opt}={value!r} ({kind}): implementation {impl}, generated guard {model}",
                         witness={"option": opt, "kind": kind, "impl": impl, "model": model})
    _MEMO.clear()
    _prefetch([f"C16.domain {f2b(float(x))}" for x in (-1.0, -1e-3, -1e-300, -5e-324, -0.0, 0.0, 5e-324, 1e-300, 1e-5)]
              + [f"C16.shape {nd} {ln} {g.size}" for nd, ln in ((1, g.size), (2, g.size), (1, g.size + 1), (1, g.size - 1), (2, 2), (0, 0))]
              + [f"C16.basis {nd} {sz}" for nd, sz in ((1, 0), (2, 2), (1, 2), (1, 1), (1, 3), (0, 1))]
              + [f"C16.tpoints {nd} {c}" for nd, c in ((2, 3), (2, 2), (1, 0), (3, 3), (2, 4))]
              + [f"C16.radpts {io} {has} {f2b(rl)} {fvec(np.array([first, 0.05, 0.4, 1.7, 6.0, 40.0, 1e6 / 100, 1e6 / 1.01, 1e6, 1.01e6, 1e8]))}"
                 for first in (0.0, -0.0, 5e-324, 1e-300, 1e-10)
                 for io, has, rl in ((int(consts["pub_include_origin"]), 1, consts["pub_remove_large"]), (0, 1, consts["pub_remove_large"]), (int(consts["pub_include_origin"]), 0, 0.0),
                                     (int(consts["pub_include_origin"]), 1, 1.01e6), (int(consts["pub_include_origin"]), 1, 1e6 / 1.01), (1, 1, 1e8))])
    # ---- the domain guard: lower end of the transform's domain on both sides of 0 --------------------
    for rmin in (-1.0, -1e-3, -1e-300, -5e-324, -0.0, 0.0, 5e-324, 1e-300, 1e-5):
        t2 = rt.InverseRTransform(rt.BeckeRTransform(rmin, R=1.5))
        d = float(t2.domain[consts["domain_index"]])
        with Intercept():
            impl = outcome(lambda: P.solve_poisson_bvp(g, vals, t2, remove_large_pts=10.0))
        model = _memo_driver(f"C16.domain {f2b(d)}").split()[0]
        ctx.count(["domain", rmin], nontrivial=True, tag=f"bvp:domain-guard:{model}")
        if impl != model:
            ctx.fail("corr", "poisson.solve_poisson_bvp:domain", f"transform.domain = {t2.domain}: implementation {impl}, generated guard {model}", witness={"domain0": d, "impl": impl, "model": model})
    # ---- meshes: radial points next to the default remove_large_pts = 1e6, first point next to 0 ------
    for first in (0.0, -0.0, 5e-324, 1e-300, 1e-10):
        base_pts = np.array([first, 0.05, 0.4, 1.7, 6.0, 40.0, 1e6 / 100, 1e6 / 1.01, 1e6, 1.01e6, 1e8])
        rg = bg.OneDGrid(base_pts, np.full(len(base_pts), 0.1), (0, np.inf))
        gg = ag.AtomGrid(rg, degrees=[3])
        for kw in ({}, {"include_origin": False}, {"remove_large_pts": None}, {"remove_large_pts": 1.01e6}, {"remove_large_pts": 1e6 / 1.01}, {"include_origin": True, "remove_large_pts": 1e8}):
            with Intercept() as ic:
                impl = outcome(lambda: P.solve_poisson_bvp(gg, np.ones(gg.size), inv, **kw))
            rl = kw.get("remove_large_pts", consts["pub_remove_large"])
            io = kw.get("include_origin", consts["pub_include_origin"])
            line = f"C16.radpts {int(io)} {int(rl is not None)} {f2b(rl if rl is not None else 0.0)} {fvec(base_pts)}"
            tag, t = _tok(_memo_driver(line))
            mesh = t.fvec()
            ctx.count(["mesh", first, repr(sorted(kw.items()))], nontrivial=True, tag="bvp:mesh:thresholds")
            if impl != "ok" or not ic.calls:
                ctx.fail("corr", "poisson.solve_poisson_bvp:mesh", f"first radial point {first!r}, options {kw}: implementation {impl}", witness={"first": first, "kw": {k: repr(v) for k, v in kw.items()}})
                continue
            x = ic.calls[0]["x"]
            if len(mesh) != len(x) or any(f2b(a) != f2b(b) for a, b in zip(mesh, x)):
                ctx.fail("corr", "poisson.solve_poisson_bvp:mesh", f"mesh for radial points {base_pts.tolist()} with options {kw} (defaults from the public signature): implementation {x.tolist()}, model {mesh}",
                         witness={"points": base_pts, "kw": {k: repr(v) for k, v in kw.items()}, "impl": x, "model": mesh})
    # ---- _build_core_density from coordinates (also far from the origin), strict zip ----------------
    for case in range(ctx.n(6, 40)):
        z = ctx.rng.choice([1, 6, 7, 8, 17])
        cs, als = cb.load_atomic_gaussian_params(int(z))
        c = np.array([ctx.rng.uniform(-1, 1) for _ in range(3)]) + ctx.rng.choice([0.0, 0.0, 2.0 ** 12, -2.0 ** 20])
        pts = c + np.array([[ctx.rng.gauss(0, 1) for _ in range(3)] for _ in range(4)]) * 10 ** ctx.rng.uniform(-3, 0.7)
        pts = np.vstack([pts, c[None, :]])
        if case % 3 == 2:
            cs = cs[:-1]          # unequal lengths: the strict zip raises
        impl = outcome(lambda: RP._build_core_density(pts, c, cs, als))
        lib = RP._build_core_density(pts, c, cs, als) if impl == "ok" else None
        out = driver_batch([f"C16.core2 {fvec(pts[j])} {fvec(c)} {fvec(cs)} {fvec(als)}" for j in range(len(pts))])
        for j, ans in enumerate(out):
            tag, t = _tok(ans)
            ctx.count(["core2", case, j], nontrivial=True, tag=f"robust:core-density:{tag}")
            if tag != impl:
                ctx.fail("corr", "robust_poisson._build_core_density:raise", f"{len(cs)} coefficients, {len(als)} exponents: implementation {impl}, model {tag}", witness={"ncoef": len(cs), "nexp": len(als)})
                break
            if tag == "ok":
                m, rsq = t.flt(), t.flt()
                if not _feq(lib[j], m, rtol=1e-12, scale=max(abs(lib[j]), abs(m), 1e-300)):
                    ctx.fail("corr", "robust_poisson._build_core_density:value", f"core density of Z={z} at distance {np.sqrt(rsq):.3e}: implementation {float(lib[j])}, model {m}",
                             witness={"point": pts[j], "center": c, "Z": z, "impl": float(lib[j]), "model": m})
    # ---- _fit_residual_gaussians: every array, with the recorded answers of nnls ---------------------
    saved_nnls = RP.nnls
    for case in range(ctx.n(8, 60)):
        npt, natom, nb = ctx.rng.randrange(8, 40), ctx.rng.choice([1, 2, 3]), ctx.rng.randrange(1, 7)
        atc = np.array([[ctx.rng.uniform(-1, 1) + 1.5 * a for _ in range(3)] for a in range(natom)])
        gp = np.array([[ctx.rng.uniform(-2, 4) for _ in range(3)] for _ in range(npt)])
        gp[0] = atc[0]
        alphas = np.array(sorted(10 ** ctx.rng.uniform(-1, 2) for _ in range(nb)))
        mode = ctx.rng.choice(["positive", "mixed", "negative", "zero", "exact"])
        if mode == "exact":       # the residual is a non-negative combination of basis functions of the first atoms: fitted (nearly) exactly, later atoms see ~0
            A0 = (alphas / np.pi) ** 1.5 * np.exp(-np.sum((gp - atc[0]) ** 2, axis=1)[:, None] * alphas[None, :])
            res = A0 @ np.array([ctx.rng.choice([0.0, ctx.rng.uniform(0.2, 2)]) for _ in range(nb)])
        else:
            res = np.array([ctx.rng.uniform(0.0, 1) if mode == "positive" else ctx.rng.uniform(-1, 1) if mode == "mixed" else -ctx.rng.uniform(0.1, 1) if mode == "negative" else 0.0
                            for _ in range(npt)])
        snap = res.copy()
        rec = []

        def nnls_rec(A, b, *a, **k):
            x = saved_nnls(A, b, *a, **k)
            rec.append((np.array(A, copy=True), np.array(b, copy=True), np.array(x[0], copy=True)))
            return x

        RP.nnls = nnls_rec
        try:
            fc, fa, fcen, rout = RP._fit_residual_gaussians(gp, res, atc, alphas)
        finally:
            RP.nnls = saved_nnls
        key = "robust_poisson._fit_residual_gaussians"
        ctx.count(["fit", case, mode, natom, nb], nontrivial=natom > 1 or nb > 1, tag=f"robust:fit:{mode}:kept={'0' if len(fc) == 0 else '>0'}")
        if not np.array_equal(res, snap):
            ctx.fail("corr", key + ":residual-modified", "the residual handed to _fit_residual_gaussians was modified in place", witness={"mode": mode})
        if len(rec) != natom:
            ctx.fail("corr", key + ":nnls", f"{len(rec)} nnls calls for {natom} atoms")
            continue
        lines = [f"C16.fitmatrix {fvec(atc[a])} {fvec(alphas)} {_mats(gp)}" for a in range(natom)]
        lines.append(f"C16.fit {fvec(alphas)} {_mats(gp)} {fvec(snap)} {natom} " + " ".join(f"{fvec(atc[a])} {fvec(rec[a][2])}" for a in range(natom)))
        out = driver_batch(lines)
        bad = False
        for a in range(natom):
            tag, t = _tok(out[a])
            Am = _read_mat(t)
            if Am.shape != rec[a][0].shape or not np.all(np.abs(Am - rec[a][0]) <= 1e-12 * np.maximum(np.abs(Am), 1e-300)):
                ctx.fail("corr", key + ":design", f"design matrix handed to nnls for atom {a} differs from the generated A[n, k]",
                         witness={"atom": a, "impl": rec[a][0][:2], "model": Am[:2], "alphas": alphas})
                bad = True
        tag, t = _tok(out[-1])
        if tag != "ok":
            ctx.fail("corr", key + ":model", f"model answered {tag}")
            continue
        mc, ma = np.array(t.fvec()), np.array(t.fvec())
        mcen = _read_mat(t)
        trace = _read_mat(t)          # npt x (natom + 1)
        dens = np.array(t.fvec())
        scale = max(1.0, float(np.max(np.abs(snap))), float(np.max(np.abs(fc))) if len(fc) else 0.0)
        for a in range(natom):
            if not np.all(np.abs(trace[:, a] - rec[a][1]) <= 1e-12 * scale):
                ctx.fail("corr", key + ":trace", f"the residual handed to nnls for atom {a} differs from the model's residual after {a} atoms", witness={"atom": a, "impl": rec[a][1][:4], "model": trace[:4, a]})
                bad = True
        want_cen_shape = (len(mc), 3) if len(mc) else tuple(consts["fit_empty_shape"])
        ok = (fc.shape == mc.shape and fa.shape == ma.shape and tuple(fcen.shape) == want_cen_shape and np.array_equal(fc, mc) and np.array_equal(fa, ma)
              and (len(mc) == 0 or np.array_equal(fcen, mcen)) and rout.shape == snap.shape and np.all(np.abs(rout - trace[:, -1]) <= 1e-12 * scale))
        if not ok and not bad:
            ctx.fail("corr", key + ":outputs", f"returned (coeffs, alphas, centers, residual) differ from the model ({mode} residual, {natom} atoms, {nb} exponents)",
                     witness={"impl_coeffs": fc, "model_coeffs": mc, "impl_alphas": fa, "model_alphas": ma, "impl_centers_shape": fcen.shape, "model_centers_shape": want_cen_shape,
                              "residual_impl": rout[:4], "residual_model": trace[:4, -1]})
        # the conservation theorem (fit_conserves) on the implementation's own numbers
        if not np.all(np.abs(rout + dens - snap) <= 1e-11 * scale * max(1, nb)):
            ctx.fail("corr", key + ":conservation", "returned residual + density of the returned Gaussians is not the residual handed in",
                     witness={"worst": float(np.max(np.abs(rout + dens - snap))), "mode": mode})
    # ---- default basis -----------------------------------------------------------------------------
    tag, t = _tok(driver_batch(["C16.defaultbasis"])[0])
    mb = np.array(t.fvec())
    ctx.count(["defaultbasis"], nontrivial=True, tag="robust:default-basis")
    lb = np.asarray(RP._DEFAULT_ALPHAS_BASIS, dtype=float)
    if lb.shape != mb.shape or not np.all(np.abs(lb - mb) <= 1e-12 * mb):
        ctx.fail("corr", "robust_poisson._DEFAULT_ALPHAS_BASIS", "module constant differs from geomspace(generated start, stop, num)", witness={"impl": lb[:4], "model": mb[:4], "n_impl": len(lb), "n_model": len(mb)})
    # ---- the guards of solve_poisson_robust / total_potential (the numerical solve replaced by a known function) ----
    saved = RP.solve_poisson_bvp
    RP.solve_poisson_bvp = lambda molgrid, residual, transform, **kw: (lambda p: np.cos(np.sum(np.asarray(p), axis=1)))
    try:
        n = g.size
        atn, atc = np.array([1]), np.zeros((1, 3))
        shapes = {"(N,)": vals, "(N, 1)": vals[:, None], "(N+1,)": np.append(vals, 0.0), "(N-1,)": vals[:-1], "(2, N)": np.vstack([vals, vals]), "()": np.float64(1.0),
                  "list": [float(x) for x in vals], "int64": np.ones(n, dtype=np.int64)}
        for name, dv in shapes.items():
            arr = np.asarray(dv)
            impl = outcome(lambda: RP.solve_poisson_robust(g, dv, inv, atn, atc))
            model = _memo_driver(f"C16.shape {arr.ndim} {arr.shape[0] if arr.ndim else 0} {n}").split()[0]
            ctx.count(["robust-shape", name], nontrivial=True, tag=f"robust:shape-guard:{model}")
            if impl != model:
                ctx.fail("corr", "robust_poisson.solve_poisson_robust:shape-guard", f"density_vals of shape {arr.shape} on a grid of {n} points: implementation {impl}, generated guard {model}", witness={"shape": arr.shape, "npts": n})
        bases = {"[]": [], "[[1, 2]]": [[1.0, 2.0]], "[1, 0]": [1.0, 0.0], "[1, -1]": [1.0, -1.0], "[1e-300]": [1e-300], "[5e-324, 3]": [5e-324, 3.0], "tuple": (0.5, 2.0), "int list": [1, 4],
                 "array": np.array([0.3, 3.0, 30.0]), "scalar": 2.0, "[-0.0]": [-0.0]}
        for name, ab in bases.items():
            arr = np.asarray(ab, dtype=float)
            impl = outcome(lambda: RP.solve_poisson_robust(g, vals, inv, atn, atc, split2=True, alphas_basis=ab))
            m1 = _memo_driver(f"C16.basis {arr.ndim} {arr.size}").split()[0]
            model = m1 if m1 != "ok" else _memo_driver(f"C16.alphas {fvec(arr.reshape(-1))}").split()[0]
            ctx.count(["robust-basis", name], nontrivial=True, tag=f"robust:basis-guard:{model}")
            if impl != model:
                ctx.fail("corr", "robust_poisson.solve_poisson_robust:basis-guard", f"alphas_basis={ab!r}: implementation {impl}, generated guards {model}", witness={"alphas_basis": repr(ab)})
        for name, (a1, a2) in {"2 atnums / 1 centre": (np.array([1, 1]), np.zeros((1, 3))), "1 atnum / 2 centres": (np.array([1]), np.zeros((2, 3)))}.items():
            impl = outcome(lambda: RP.solve_poisson_robust(g, vals, inv, a1, a2))
            model = "value-error" if consts["robust_zip_strict"] else "ok"
            ctx.count(["robust-zip", name], nontrivial=True, tag="robust:strict-zip")
            if impl != model:
                ctx.fail("corr", "robust_poisson.solve_poisson_robust:zip", f"{name}: implementation {impl}, generated zip(strict={consts['robust_zip_strict']}) {model}")
        for split2 in (False, True):
            dv = vals.copy()
            V = RP.solve_poisson_robust(g, dv, inv, atn, atc, split2=split2, alphas_basis=[0.4, 2.0] if split2 else None)
            if not np.array_equal(dv, vals):
                ctx.fail("corr", "robust_poisson.solve_poisson_robust:density-modified", "the caller's density array was modified (generated: np.array copy)")
            pshapes = {"(M, 3)": np.ones((4, 3)), "(M, 2)": np.ones((4, 2)), "(3,)": np.ones(3), "(M, 3, 1)": np.ones((4, 3, 1)), "(M, 4)": np.ones((2, 4)), "list (M, 3)": [[0.1, 0.2, 0.3], [1.0, 0.0, -1.0]],
                       "(0, 3)": np.empty((0, 3)), "int64 (M, 3)": np.ones((2, 3), dtype=np.int64)}
            for name, pp in pshapes.items():
                arr = np.asarray(pp)
                impl = outcome(lambda: V(pp))
                model = _memo_driver(f"C16.tpoints {arr.ndim} {arr.shape[1] if arr.ndim >= 2 else 0}").split()[0]
                ctx.count(["robust-points", name, split2], nontrivial=True, tag=f"robust:points-guard:{model}")
                if impl != model:
                    ctx.fail("corr", "robust_poisson.solve_poisson_robust:points-guard", f"points of shape {arr.shape}: implementation {impl}, generated guard {model}", witness={"shape": arr.shape, "split2": split2})
    finally:
        RP.solve_poisson_bvp = saved


# ----------------------------------------------------------------------------------------------
# oracle: the decision
# ----------------------------------------------------------------------------------------------
def _g1(ctx, deg=None, n=None):
    return {"oned": "GaussLegendre", "n": n or ctx.rng.randrange(60, 101), "tf": "Becke", "rmin": 1e-5, "R": round(ctx.rng.uniform(1.0, 2.0), 3),
            "deg": deg or ctx.rng.choice([11, 13, 15, 17])}


def _g2(ctx, deg=None, n=None):
    return {"oned": "Trapezoidal", "n": n or ctx.rng.randrange(60, 121), "tf": "Becke", "rmin": 1e-6, "R": round(ctx.rng.uniform(1.0, 2.0), 3), "trim": True,
            "deg": deg or ctx.rng.choice([11, 13, 15, 17])}


def _alpha(ctx, lo=0.4, hi=6.0):
    return round(math.exp(ctx.rng.uniform(math.log(lo), math.log(hi))), 4)


def _centred(ctx, center, k=None):
    k = k or ctx.rng.randrange(1, 4)
    return [(round(ctx.rng.choice([1, -1]) * ctx.rng.uniform(0.3, 2.0), 3) if i else round(ctx.rng.uniform(0.5, 2.0), 3), _alpha(ctx), list(center)) for i in range(k)]


def _offcentre(ctx, center, k=None):
    out = []
    for _ in range(k or ctx.rng.randrange(1, 3)):
        a = _alpha(ctx, 0.4, 4.0)
        d = min(0.5, 2.0 / a) * ctx.rng.uniform(0.3, 1.0)
        v = np.array([ctx.rng.gauss(0, 1) for _ in range(3)])
        v *= d / np.linalg.norm(v)
        out.append((round(ctx.rng.uniform(0.4, 1.5), 3), a, [round(float(x), 4) for x in (np.asarray(center) + v)]))
    return out


def _molecule(ctx, natom):
    dist = ctx.rng.uniform(1.5, 3.0)
    base = [[0.0, 0.0, 0.0], [dist, 0.0, 0.0], [0.3 * dist, 0.85 * dist, 0.2]]
    return [[round(x, 4) for x in c] for c in base[:natom]]


def _cases(ctx: Ctx, budget: str):
    """-> list of (key, spec)"""
    big = ctx.thorough or budget == "large"
    cases = []
    base = {"atol_unit": ATOL_UNIT, "exact_core_atol": EXACT_CORE_ATOL, "linear_atol_unit": LINEAR_ATOL_UNIT, "lap_rtol": LAP_RTOL}

    rep_no = [0]

    def add(key, **spec):
        spec = {**base, **spec, "pseed": ctx.rng.randrange(10**6), "npseed": ctx.rng.randrange(10**6), "_rep": rep_no[0]}
        cases.append((key, spec))

    Z = [0.0, 0.0, 0.0]
    rep = 12 if big else 1
    for _rep in range(rep):
        rep_no[0] = _rep
        # ---- round 4, class 19: the returned potentials right next to the atomic centres (1e-12 .. 1e-6), where the interpolant divides by r.  Pristine accuracy
        # measured on the pinned tree: include_origin=True flat to 1e-11 (<= 3e-3 of the threshold, 4e-2 at 1e-12); include_origin=False: the documented
        # r_1 V(0) / r (part of the tolerance; molecular cases use a first radial point of 1e-10 and distances >= 1e-9: with 1e-11 solve_bvp stops with 'didn't converge' for 5 of 72 random molecules);
        # molecular grids WITH the origin in the mesh are accurate too but take 25 .. 440 s (not run); the initial-value solver is off by 7 .. 60 x the
        # threshold at 1e-5 and ~1/r below ("difficulty in capturing the origin region", documented): not asserted
        # ---- ninth seeded round: an option left unset means the documented default on every route -- diffuse components (exponent 0.01 .. 0.04) so that the radial
        # range matters; pinned envelope measured on G1 (Becke rmin 1e-5, reaching 1e4) with spherical densities, degree 3 / 5 / 11: see the observed values in the evidence
        cd_ = [round(ctx.rng.uniform(-0.5, 0.5), 3) for _ in range(3)]
        add("poisson:defaults-diffuse", kind="diffuse", grid=_g1(ctx, deg=ctx.rng.choice([3, 5, 11] if big else [3, 5])), atoms=[cd_],
            gauss=[(round(ctx.rng.uniform(0.6, 1.4), 3), float(f"{10 ** ctx.rng.uniform(-2, -1.4):.4f}"), cd_), (round(ctx.rng.uniform(0.3, 0.8), 3), _alpha(ctx, 0.4, 3.0), cd_)],
            splits=[False, True] if big else [False], alphas_basis=[0.03, 0.1, 0.3, 1.0, 3.0, 9.0, 27.0], ivp=False, options={})      # ivp: off by 0.3 .. 1e5 x the tolerance with its default r_interval on these densities (pinned tree): outside its envelope, not asserted
        cn = [round(ctx.rng.uniform(-1, 1), 3) for _ in range(3)]
        add("poisson.solve_poisson_bvp:near-centre", kind="near", route="bvp", grid={**ctx.rng.choice([_g1, _g2])(ctx, deg=11), "rotate": ctx.rng.choice([0, ctx.rng.randrange(1, 10**6)])},
            atoms=[cn], gauss=_centred(ctx, cn), options={"remove_large_pts": ctx.rng.choice([10.0, round(ctx.rng.uniform(10, 25), 2)])}, dlo=1e-12, dhi=1e-6)
        add("robust_poisson.solve_poisson_robust:near-centre", kind="near", route="robust", grid=_g1(ctx, deg=11), atoms=[cn], symbols=["H"], atnums=[1],
            gauss=[(round(ctx.rng.uniform(0.3, 1.0), 3), _alpha(ctx, 0.4, 3.0), cn)], split2=ctx.rng.random() < 0.5, options={"remove_large_pts": 10.0}, dlo=1e-12, dhi=1e-6)
        atn_ = _molecule(ctx, ctx.rng.choice([2, 2, 3]))
        gn_ = [(round(ctx.rng.choice([1, 1, -1]) * ctx.rng.uniform(0.4, 1.2), 3) if i else 1.0, _alpha(ctx, 0.5, 3.0), atn_[i]) for i in range(len(atn_))]
        if big or ctx.rng.random() < 0.6:
            add("poisson.solve_poisson_bvp:near-centre-molecular", kind="near", route="bvp", grid={**_g2(ctx, deg=11, n=ctx.rng.randrange(60, 81)), "rmin": 1e-10}, atoms=atn_, gauss=gn_,
                options={"include_origin": False, "remove_large_pts": 10.0}, dlo=1e-9, dhi=1e-6, ndist=8)
        else:
            add("robust_poisson.solve_poisson_robust:near-centre-molecular", kind="near", route="robust", grid={**_g2(ctx, deg=11, n=ctx.rng.randrange(60, 81)), "rmin": 1e-10}, atoms=atn_[:2],
                symbols=["H", "H"], atnums=[1, 1], gauss=[(round(ctx.rng.uniform(0.4, 1.0), 3), _alpha(ctx, 0.5, 2.5), atn_[0])], split2=False,
                options={"include_origin": False, "remove_large_pts": 10.0}, dlo=1e-9, dhi=1e-6, ndist=8)
        # spherical, default options (origin added, remove_large_pts=1e6) -- tests' first parameter sets
        add("poisson.solve_poisson_bvp:atomic", kind="bvp", grid=_g1(ctx), atoms=[Z], gauss=_centred(ctx, Z),
            options=ctx.rng.choice([{}, {}, {"remove_large_pts": None}, {"remove_large_pts": round(ctx.rng.uniform(10, 25), 2)}]))
        c = [round(ctx.rng.uniform(-1, 1), 3) for _ in range(3)]
        add("poisson.solve_poisson_bvp:atomic", kind="bvp", grid=_g2(ctx), atoms=[c], gauss=_centred(ctx, c),
            options={"include_origin": ctx.rng.choice([True, False]), "remove_large_pts": ctx.rng.choice([1e6, round(ctx.rng.uniform(10, 25), 2)])})
        # l > 0: off-centre Gaussians on an atomic grid
        add("poisson.solve_poisson_bvp:atomic-offcentre", kind="bvp", grid={**_g2(ctx), "rotate": ctx.rng.choice([0, ctx.rng.randrange(1, 10**6)])}, atoms=[Z], gauss=_offcentre(ctx, Z),
            options={"include_origin": False, "remove_large_pts": round(ctx.rng.uniform(10, 25), 2)})
        # l > 0 with the centre of the Gaussian exactly on a radial shell of the grid
        gsh = _g2(ctx)
        shells = np.sort(_ns["_grid_parts"](gsh)[0].points)
        a_sh = _alpha(ctx, 0.4, 4.0)
        cand = [float(x) for x in shells if 0.1 <= x <= min(0.5, 2.0 / a_sh)]
        axis = ctx.rng.randrange(3)
        add("poisson.solve_poisson_bvp:atomic-offcentre", kind="bvp", grid=gsh, atoms=[Z],
            gauss=[(round(ctx.rng.uniform(0.4, 1.5), 3), a_sh, [ctx.rng.choice(cand) * (i == axis) * ctx.rng.choice([1, -1]) for i in range(3)])],
            options={"include_origin": False, "remove_large_pts": round(ctx.rng.uniform(10, 25), 2)})
        # Laplacian of the harmonic expansion vs closed forms (atomic grids)
        for shape in ("s", "p", "d", "off"):
            c = [round(ctx.rng.uniform(-1, 1), 3) for _ in range(3)]
            a_l = _alpha(ctx)
            cc = c
            if shape == "off":
                v = np.array([ctx.rng.gauss(0, 1) for _ in range(3)])
                v *= min(0.5, 2.0 / a_l) * ctx.rng.uniform(0.3, 1.0) / np.linalg.norm(v)
                cc = [round(float(x), 4) for x in (np.asarray(c) + v)]
            add("poisson.interpolate_laplacian:atomic", kind="laplacian", grid={**ctx.rng.choice([_g1, _g2])(ctx), "rotate": ctx.rng.choice([0, ctx.rng.randrange(1, 10**6)])},
                atoms=[c], center=cc, shape=shape, a=a_l, cut=round(ctx.rng.uniform(0.05, 0.4), 3), near_default=True, cut2=float(f"{10 ** ctx.rng.uniform(-10, -7):.3e}"), options={})
        # molecular Laplacian: structural clause (sum over atoms of one-atom interpolants), atomic grids of equal / different sizes
        for natom in (2, 3):
            at = _molecule(ctx, natom)
            add("poisson.interpolate_laplacian:molecular", kind="laplacian-mol", grid={**_g2(ctx), "n": ctx.rng.randrange(30, 61)}, atoms=at,
                degs=[ctx.rng.choice([5, 7, 9, 11]) for _ in range(natom)],
                gauss=[(round(ctx.rng.uniform(0.4, 1.2), 3), _alpha(ctx, 0.5, 3.0), ctx.rng.choice(at)) for _ in range(2)],
                cuts=[None, ctx.rng.choice([1e-3, 0.3, 1e-8])], options={})
        # molecular
        for natom in (2, 3):
            at = _molecule(ctx, natom)
            g = [(round(ctx.rng.choice([1, 1, -1]) * ctx.rng.uniform(0.4, 1.2), 3) if i else 1.0, _alpha(ctx, 0.5, 3.0), at[i]) for i in range(natom)]
            add(f"poisson.solve_poisson_bvp:molecular-{natom}", kind="bvp", grid=_g2(ctx, deg=ctx.rng.choice([13, 15, 17])), atoms=at, gauss=g,
                options={"include_origin": False, "remove_large_pts": 10.0})
        # initial value solver, spherical
        if ctx.rng.random() < 0.5:
            gi = {"oned": "GaussLegendre", "n": ctx.rng.randrange(80, 151), "tf": "Becke", "rmin": 0.01, "R": 1.5, "deg": ctx.rng.choice([3, 5])}
        else:
            gi = {"oned": "Trapezoidal", "n": ctx.rng.randrange(400, 801), "tf": "Linear", "rmin": 1e-3, "R": round(ctx.rng.uniform(50, 100), 2), "deg": ctx.rng.choice([7, 9, 11])}
        add("poisson.solve_poisson_ivp", kind="ivp", grid=gi, atoms=[Z], gauss=_centred(ctx, Z, k=ctx.rng.randrange(1, 3)), rlo=0.05)
        # initial value solver started INSIDE the radial grid (r_interval[0] below the outermost shell, as with the default
        # r_interval=(1000, 1e-5) on a Becke grid reaching 1e4): the asymptotic initial data belong to the starting radius
        add("poisson.solve_poisson_ivp:inner-start", kind="ivp", grid={"oned": "GaussLegendre", "n": ctx.rng.randrange(120, 161), "tf": "Becke", "rmin": 1e-4, "R": 1.5, "deg": ctx.rng.choice([3, 5])},
            atoms=[Z], gauss=_centred(ctx, Z, k=ctx.rng.randrange(1, 3)), rlo=0.05, r0=round(ctx.rng.uniform(42.0, 80.0), 1), r1=0.02)
        # linearity (3 solves)
        add("poisson.solve_poisson_bvp:linearity", kind="linear", grid=_g1(ctx, deg=11), atoms=[Z], gauss=_centred(ctx, Z, 1), gauss2=_centred(ctx, Z, 2),
            a=round(ctx.rng.uniform(-2, 2), 3), b=round(ctx.rng.uniform(0.5, 3), 3), options={"remove_large_pts": 10.0})
        # amplitude homogeneity with l > 0 components (off-centre).  Envelope measured on the pinned tree: the solvers carry
        # ABSOLUTE tolerances (bvp: SciPy's mixed criterion r/(1+|f|) <= 1e-6; ivp: atol 1e-6 on u), so relative homogeneity
        # holds for amplitudes 1e-5 <= |a| <= 1e3 (bvp; observed <= 0.27 of the tolerance; |a| >= 1e4: the solver raises
        # "didn't converge", |a| <= 1e-6: absolute floor ~3e-10 takes over); the ivp solver is not homogeneous to this tolerance at any
        # amplitude (observed up to 44x) and is not asserted -- scope note in DESIGN 8.3
        for expo in (-5, ctx.rng.choice([-4, -3, -1, 2])):
            add("poisson.solve_poisson_bvp:homogeneity", kind="homog", grid=_g2(ctx, deg=11, n=ctx.rng.randrange(50, 71)), atoms=[Z], gauss=_offcentre(ctx, Z, 1),
                a=float(f"{ctx.rng.choice([1, -1]) * 10.0 ** expo * ctx.rng.uniform(1, 3):.3e}"),
                options={"include_origin": False, "remove_large_pts": 10.0})
        # ---- round 3, class 13: additivity with l > 0 components (off-centre), on molecular grids, for the initial-value route; amplitude homogeneity on
        # molecular grids.  Envelopes measured on the pinned tree: residual <= 1.2e-7 / 2.7e-7 (off-centre / molecular bvp, bound 1e-4 per unit charge),
        # <= 8.3e-5 per unit charge for the initial-value solver (its accuracy level, 3e-4 relative: asserted at 5e-4), molecular homogeneity <= 0.1 of the bound
        add("poisson.solve_poisson_bvp:linearity-offcentre", kind="linear", grid={**_g2(ctx, deg=11, n=ctx.rng.randrange(50, 71)), "rotate": ctx.rng.choice([0, ctx.rng.randrange(1, 10**6)])},
            atoms=[Z], gauss=_offcentre(ctx, Z, 1), gauss2=_offcentre(ctx, Z, 1), a=round(ctx.rng.uniform(-2, 2), 3), b=round(ctx.rng.uniform(0.5, 3), 3),
            options={"include_origin": False, "remove_large_pts": round(ctx.rng.uniform(10, 25), 2)})
        atl = _molecule(ctx, 2)
        gl1, gl2 = [(1.0, _alpha(ctx, 0.5, 3.0), atl[0])], [(round(ctx.rng.uniform(0.4, 1.2), 3), _alpha(ctx, 0.5, 3.0), atl[1])]
        which = ctx.rng.random() < 0.5      # quick tier: one of the two molecular linearity cases per run
        if big or which:
            add("poisson.solve_poisson_bvp:linearity-molecular", kind="linear", grid=_g2(ctx, deg=11, n=ctx.rng.randrange(50, 71)), atoms=atl, gauss=gl1, gauss2=gl2,
                a=round(ctx.rng.uniform(-2, 2), 3), b=round(ctx.rng.uniform(0.5, 3), 3), options={"include_origin": False, "remove_large_pts": 10.0})
        if big or not which:
            add("poisson.solve_poisson_bvp:homogeneity-molecular", kind="homog", grid=_g2(ctx, deg=11, n=ctx.rng.randrange(50, 71)), atoms=atl, gauss=gl1 + gl2,
                a=float(f"{ctx.rng.choice([1, -1]) * 10.0 ** ctx.rng.choice([-5, -3, -1, 2, 3]) * ctx.rng.uniform(1, 3):.3e}"),
                options={"include_origin": False, "remove_large_pts": 10.0})
        add("poisson.solve_poisson_ivp:linearity", kind="linear", ivp=True, grid={**GI, "n": ctx.rng.randrange(140, 171), "R": round(ctx.rng.uniform(18, 24), 2), "deg": ctx.rng.choice([3, 5])},
            atoms=[Z], gauss=_centred(ctx, Z, 1), gauss2=_centred(ctx, Z, 2), a=round(ctx.rng.uniform(-2, 2), 3), b=round(ctx.rng.uniform(0.5, 3), 3), options={}, rlo=0.05,
            linear_atol_unit=5e-4)
        # robust solver with the second split on a molecular grid.  Envelope measured on the pinned tree (45 random 2-atom molecules): the greedy NNLS fit leaves a
        # residual that reaches far out, so the ODE range must not be cut early: error / threshold = 1.2 .. 11 with remove_large_pts = 10, 0.15 .. 1.5 with 25 (outside);
        # with remove_large_pts in 40..100 or 1e6, include_origin=False and the compact basis [0.3, 1, 3, 9, 27]: <= 0.18.  With the DEFAULT 20-exponent basis
        # (0.05 .. 5000) the same molecules give 0.04 .. 2.0 (5-40 x the split-1 error, dependent on the NumPy seed) and scipy's nnls stops with
        # RuntimeError('Maximum number of iterations reached') in ~10 % of them -- outside the envelope, reported to the lead (not asserted)
        at3 = _molecule(ctx, 2)
        add("robust_poisson.solve_poisson_robust:molecular-split2", kind="robust", grid=_g2(ctx, deg=11, n=ctx.rng.randrange(50, 66)), atoms=at3, symbols=["H", "H"], atnums=[1, 1],
            gauss=[(round(ctx.rng.uniform(0.4, 1.0), 3), _alpha(ctx, 0.5, 2.5), at3[0]), (round(ctx.rng.uniform(0.3, 0.9), 3), _alpha(ctx, 0.5, 2.5), at3[1])],
            split2=True, alphas_basis=[0.3, 1.0, 3.0, 9.0, 27.0], vs_plain=True,
            options={"remove_large_pts": ctx.rng.choice([1e6, 1e6, round(ctx.rng.uniform(40, 100), 1)]), "include_origin": False})
        # robust solver on a molecular grid, residual with net charge on both atoms, ODE range ending at a moderate radius
        at2 = _molecule(ctx, 2)
        add("robust_poisson.solve_poisson_robust:molecular", kind="robust", grid=_g2(ctx, deg=ctx.rng.choice([13, 15])), atoms=at2, symbols=["H", "H"], atnums=[1, 1],
            gauss=[(round(ctx.rng.uniform(0.4, 1.0), 3), _alpha(ctx, 0.5, 2.5), at2[0]), (round(ctx.rng.uniform(0.3, 0.9), 3), _alpha(ctx, 0.5, 2.5), at2[1])],
            split2=False, vs_plain=True, options={"remove_large_pts": 10.0, "include_origin": False})
        # (split2=True on a molecular grid is outside the envelope with a truncated ODE range: the unweighted greedy NNLS fit puts
        #  tens of units of charge on its most diffuse exponent 0.05, the remaining residual reaches beyond 20 bohr; measured on the
        #  pinned tree: error 0.2 with remove_large_pts=10, 1.4e-2 with 25 -- scope note in DESIGN 8.3)
        # round 4, class 20: heteronuclear molecule (core models with different numbers of primitives per atom), density = the core model: zero residual, exact
        # on any grid (observed 2.5e-10), both split options on the same tabulated array
        hz = [ctx.rng.choice([("H", 1), ("C", 6), ("N", 7), ("O", 8), ("Cl", 17)]) for _ in range(2)]
        add("robust_poisson.solve_poisson_robust:exact-core-molecular", kind="robust", grid=_g2(ctx, deg=ctx.rng.choice([7, 9]), n=ctx.rng.randrange(40, 61)), atoms=_molecule(ctx, 2),
            symbols=[a for a, _ in hz], atnums=[b for _, b in hz], gauss=[], split2=ctx.rng.random() < 0.5, alphas_basis=[0.3, 1.0, 3.0, 9.0, 27.0],
            options={"remove_large_pts": 10.0, "include_origin": False})
        # robust
        sym, zn = ctx.rng.choice([("H", 1), ("C", 6)])
        add("robust_poisson.solve_poisson_robust:exact-core", kind="robust", grid=_g1(ctx, deg=11), atoms=[Z], symbols=[sym], atnums=[zn], gauss=[],
            split2=False, options={"remove_large_pts": 10.0})
        add("robust_poisson.solve_poisson_robust:residual", kind="robust", grid=_g1(ctx, deg=11), atoms=[Z], symbols=["H"], atnums=[1],
            gauss=[(round(ctx.rng.uniform(0.3, 1.0), 3), _alpha(ctx, 0.4, 3.0), Z)], split2=False, options={"remove_large_pts": 10.0})
        # exact second split: density = core model + c rho_s(alpha) on the atom with alphas_basis = [alpha] (one retained Gaussian) or [alpha, alpha'] -- the NNLS fit
        # reproduces it, the numerical solve sees ~0, the total is the analytic potential (fit_conserves / robust_split2); observed 2e-9
        a_x = _alpha(ctx, 0.4, 3.0)
        add("robust_poisson.solve_poisson_robust:exact-fit", kind="robust", grid=_g1(ctx, deg=11), atoms=[Z], symbols=["H"], atnums=[1],
            gauss=[(round(ctx.rng.uniform(0.3, 1.5), 3), a_x, Z)], split2=True, exact_fit=True, alphas_basis=ctx.rng.choice([[a_x], [a_x], [a_x, round(a_x * 7.3, 4)]]),
            options={"remove_large_pts": 10.0})
        add("robust_poisson.solve_poisson_robust:split2", kind="robust", grid=_g1(ctx, deg=11), atoms=[Z], symbols=["H"], atnums=[1],
            gauss=[(round(ctx.rng.uniform(0.3, 1.0), 3), _alpha(ctx, 0.4, 3.0), Z)], split2=True,
            alphas_basis=ctx.rng.choice([None, [round(float(x), 6) for x in np.geomspace(0.1, 200.0, 8)], [0.3, 1.0, 3.0, 9.0, 27.0]]),
            options=ctx.rng.choice([{"remove_large_pts": 10.0}, {"remove_large_pts": 10.0, "include_origin": True}, {"remove_large_pts": 12.5, "ode_params": {"tol": 1e-7}}]))
    # replay of the listed finding (deterministic input): rounding-size l >= 3 components blown up by the inward integration
    cases.append(("poisson.solve_poisson_ivp:high-l", {**base, "kind": "ivp", "grid": {"oned": "GaussLegendre", "n": 80, "tf": "Becke", "rmin": 0.01, "R": 1.5, "deg": 11},
                                                        "atoms": [Z], "gauss": [(1.0, 0.3, Z)], "rlo": 0.05, "pseed": 1, "npseed": 0}))
    # the repaired molecular Laplacian (/repo 4a94e3f), deterministic input: equal and different atomic grid sizes
    for degs in ([11, 11], [11, 7]):
        cases.append(("poisson.interpolate_laplacian:molecular", {**base, "kind": "laplacian-mol", "grid": {"oned": "GaussLegendre", "n": 60, "tf": "Becke", "rmin": 1e-4, "R": 1.5, "deg": 11},
                                                                  "atoms": [Z, [1.5, 0.0, 0.0]], "degs": degs, "gauss": [(1.0, 0.8, Z)], "options": {}, "pseed": 1, "npseed": 0}))
    if big:
        # origin in the mesh with a non-zero l >= 1 component (slow: ~30 s each)
        for _ in range(2):
            add("poisson.solve_poisson_bvp:atomic-offcentre-origin", kind="bvp", grid=_g1(ctx, deg=11), atoms=[Z], gauss=_offcentre(ctx, Z, 1),
                options={"include_origin": True, "remove_large_pts": round(ctx.rng.uniform(10, 25), 2)})
    return cases


GI_HOMOG = {"oned": "Trapezoidal", "n": 400, "tf": "Linear", "rmin": 1e-3, "R": 60.0, "deg": 5}
GI = {"oned": "Trapezoidal", "n": 150, "tf": "Linear", "rmin": 1e-3, "R": 20.0, "deg": 3}            # both solvers are fast and accurate here (tests' kind of ivp grid)
GM = {"oned": "Trapezoidal", "n": 40, "tf": "Becke", "rmin": 1e-6, "R": 1.5, "trim": True, "deg": 7}   # coarse molecular grid


def _known_keys():
    from ..common import load_known_findings

    try:
        return set(load_known_findings("C16")[0])
    except Exception:
        return set()


def _inv_cases(ctx: Ctx, budget: str, only=None):
    """-> list of (key, spec) of invariance scenarios (AGENT_ROUND2 classes 1-6)"""
    big = ctx.thorough or budget == "large"
    Z = [0.0, 0.0, 0.0]
    base = {"atol_unit": ATOL_UNIT, "linear_atol_unit": LINEAR_ATOL_UNIT}
    out = []

    def al(lo=0.4, hi=2.0):
        return _alpha(ctx, lo, hi)

    def gi():
        return {**GI, "n": ctx.rng.randrange(140, 171), "R": round(ctx.rng.uniform(18, 24), 2), "deg": ctx.rng.choice([3, 5])}

    for rep in range(4 if big else 1):
        seq = list(range(9))
        if rep:
            ctx.rng.shuffle(seq)
        out.append(("poisson:state:func_vals", {**base, "scenario": "funcvals", "grid": gi(), "gauss": [(round(ctx.rng.uniform(0.3, 1.0), 3), al(), Z)],
                                                 "gauss2": [(round(ctx.rng.uniform(0.5, 1.5), 3), al(), Z), (round(-ctx.rng.uniform(0.2, 0.6), 3), al(), Z)],
                                                 "a": round(ctx.rng.uniform(0.5, 2), 3), "b": round(-ctx.rng.uniform(0.3, 1.5), 3), "atnums": [1], "atoms": [Z], "perm": seq if rep else None}))
        out.append(("poisson:options", {**base, "scenario": "params", "grid": gi(), "gauss": [(1.0, al(), Z), (round(ctx.rng.uniform(0.2, 0.8), 3), al(), Z)],
                                        "bvp_params": ctx.rng.choice([{"tol": 1e-8, "max_nodes": 20000}, {"max_nodes": 60000, "tol": 1e-7}, {"tol": 1e-5}]),
                                        "ivp_params": ctx.rng.choice([{"rtol": 1e-9, "method": "RK45"}, {"method": "LSODA"}, {"atol": 1e-9, "rtol": 1e-7}]),
                                        "dB": round(ctx.rng.choice([-1, 1]) * ctx.rng.uniform(0.3, 2.0), 3)}))
        g = gi()
        out.append(("poisson:state:grid", {**base, "scenario": "grid", "grid": g, "gauss": [(1.0, al(), Z)], "gauss2": [(round(ctx.rng.uniform(0.4, 1.2), 3), al(), Z)],
                                           "other_deg": 5 if g["deg"] == 3 else 3, "dn": ctx.rng.choice([-9, 7, 13])}))
        d = round(ctx.rng.uniform(1.6, 2.4), 3)
        out.append(("poisson:state:molgrid", {**base, "atol_unit": SANITY_ATOL_UNIT, "scenario": "mol", "grid": {**GM, "n": ctx.rng.randrange(40, 51), "deg": ctx.rng.choice([7, 9])},
                                              "gauss": [(1.0, al(0.6, 1.5), Z)], "gauss2": [(round(ctx.rng.uniform(0.4, 1.2), 3), al(0.6, 1.5), Z)], "other_deg": 5,
                                              "atoms2": [Z, [d, 0.0, 0.0]] + ([[0.3 * d, 0.85 * d, 0.2]] if big and rep % 2 else [])}))
        out.append(("poisson:dtype", {**base, "scenario": "dtype", "grid": gi(), "gauss": [(round(ctx.rng.uniform(0.3, 1.0), 3), al(), Z)], "atnums": [1], "atoms": [Z]}))
        deg = ctx.rng.choice([35, 41, 53]) if big else 25
        out.append(("poisson:extreme", {**base, "scenario": "extreme", "grid": {"oned": "GaussLegendre", "n": ctx.rng.randrange(70, 101), "tf": "Becke", "rmin": 1e-5, "R": round(ctx.rng.uniform(1.0, 2.0), 3), "deg": deg},
                                        "gauss": [(1.0, 0.4, Z), (round(ctx.rng.uniform(0.3, 1.0), 3), 6.0, Z)], "dir": [round(ctx.rng.gauss(0, 1), 3) for _ in range(2)] + [1.0],
                                        "remove_large_pts": ctx.rng.choice([10.0, 1e6, None, round(ctx.rng.uniform(10, 25), 2)]),
                                        "grid0": {"oned": "Trapezoidal", "n": ctx.rng.randrange(50, 81), "tf": "Becke", "rmin": 0.0, "R": round(ctx.rng.uniform(1.0, 2.0), 3), "trim": True, "deg": 5}}))
    # ---- round 3: classes 7-13 (see the docstrings of inv_translate / inv_scale / inv_special / inv_threshold) ----
    kf = _known_keys()
    for rep in range(3 if big else 1):
        e1, e2 = ctx.rng.choice([10, 12, 14]), ctx.rng.choice([17, 20])
        sgn = lambda: ctx.rng.choice([-1.0, 1.0])
        d = round(ctx.rng.uniform(1.6, 2.4), 3)
        out.append(("poisson:translate", {**base, "scenario": "translate", "grid": gi(), "grid_mol": {**GM, "n": ctx.rng.randrange(40, 51), "deg": 7},
                                          "gauss": [(1.0, al(), Z), (round(ctx.rng.uniform(0.3, 0.8), 3), al(), Z)],
                                          "shifts": [[sgn() * 2.0 ** e1, 0.0, sgn() * 2.0 ** (e1 - 3)], [sgn() * 2.0 ** e2, sgn() * 2.0 ** e2, sgn() * 2.0 ** (e2 - 5)]],
                                          "atoms2": [Z, [d, 0.0, 0.0]]}))
        out.append(("poisson:scale", {**base, "scenario": "scale", "grid": gi(), "gauss": [(1.0, al(), Z), (round(ctx.rng.uniform(0.3, 0.8), 3), al(), Z)],
                                      # envelope measured on the pinned tree (DESIGN 8.3): bvp absolute floor ~3e-10 (asserted 1e-8) below |a| ~ 1e-6, 'didn't converge'
                                      # from |a| ~ 1e4 on (slow: thorough tier only); ivp: for |a| <= 1e-9 the answer is up to 1e6 x too large RELATIVE to a Q (step control sees
                                      # nothing above atol = 1e-6), absolute error <= 1.5e-5 (largest at |a| = 1e-11; asserted 1e-4); relative accuracy 3e-4 for 1e-5 <= |a| <= 1e100
                                      "bvp_floor": 1e-8, "ivp_floor": 1e-4,
                                      "bvp_amps": [1e-300, 1e-50, float(f"{10.0 ** ctx.rng.uniform(-12, -6):.3e}"), -1e-9] + ([1e6] if big else []),
                                      "ivp_amps": [1e-300, 1e-11, float(f"{10.0 ** ctx.rng.uniform(-12, -7):.3e}"), float(f"{-10.0 ** ctx.rng.uniform(3, 8):.3e}")] + ([1e12, 1e100] if big else []),
                                      "lap_pows": [-900, -166, ctx.rng.randrange(-60, 60), 900]}))
        out.append(("poisson:special", {**base, "scenario": "special", "grid": gi(), "gauss": [(round(ctx.rng.uniform(0.5, 1.5), 3), al(), Z)],
                                        "center": [round(ctx.rng.uniform(-0.8, 0.8), 3) for _ in range(3)], "rotate": ctx.rng.choice([0, 17, ctx.rng.randrange(1, 10**6)]),
                                        "atcoords_view": "robust_poisson.solve_poisson_robust:atcoords-view" in kf}))
        out.append(("poisson:threshold", {**base, "scenario": "threshold", "grid": gi(), "gauss": [(1.0, al(), Z), (round(ctx.rng.uniform(0.3, 0.8), 3), al(), Z)],
                                          "rmins": [ctx.rng.choice([0.0, 1e-10]), ctx.rng.choice([0.99e-10, 1.01e-10, 1e-8, 1e-12, 1e-300])] if not big else [0.0, 1e-300, 1e-12, 0.99e-10, 1e-10, 1.01e-10, 1e-8],
                                          "R": round(ctx.rng.uniform(1.0, 2.0), 3), "n0": ctx.rng.randrange(60, 81), "n_ivp": ctx.rng.randrange(120, 161),
                                          "intervals": ([[ctx.rng.choice([990.0, 1010.0, 10.0, 1e5]), ctx.rng.choice([1e-5, 0.99e-5, 1.01e-5, 1e-3])]] if not big else
                                                        [[990.0, 1e-5], [1010.0, 1e-5], [10.0, 1e-5], [1e5, 1e-5], [1000, 0.99e-5], [1000, 1.01e-5], [1000, 1e-3]]),
                                          "dB": round(ctx.rng.choice([-1, 1]) * ctx.rng.uniform(0.3, 2.0), 3)}))
    # ---- round 4: classes 14-18, 20 (see the docstring of inv_inner) ----
    for rep in range(3 if big else 1):
        d = round(ctx.rng.uniform(1.6, 2.4), 3)
        out.append(("poisson:inner", {**base, "scenario": "inner", "grid": gi(), "grid_mol": {**GM, "n": ctx.rng.randrange(40, 51), "deg": 7},
                                      "gauss": [(round(ctx.rng.uniform(0.5, 1.5), 3), al(), Z)], "center": [ctx.rng.choice([-0.75, -0.5, 0.25, 0.5, 1.0, -1.0, 2.0]) for _ in range(3)],
                                      "kinds14": ["bvp", "ivp", "robust", "lap"] if big else ["bvp", ctx.rng.choice(["ivp", "robust", "lap"])], "all": big,
                                      "atoms2": [Z, [d, 0.0, 0.0]] + ([[0.3 * d, 0.85 * d, 0.2]] if rep % 2 else []),
                                      # unequal atomic grids, the smaller one first / in the middle (a slice computed from the first atom's size then has the wrong length)
                                      "degs2": ctx.rng.choice([[5, 7], [5, 9]]) if not rep % 2 else ctx.rng.choice([[7, 5, 9], [5, 9, 7], [9, 5, 7]])}))
    # ---- round 5: classes 21-26 (see the docstring of inv_blocks).  Cost measured on the pinned tree: one call with 2^19 + 1234 points on a degree-3 atomic
    # grid takes 0.4 (bvp) .. 0.9 s (robust), so the sizes past 2^19 are in the quick tier ----
    for rep in range(2 if big else 1):
        d = round(ctx.rng.uniform(1.6, 2.4), 3)
        k1, k2 = ctx.rng.randrange(1, 5000), ctx.rng.randrange(5001, 99999)
        others = ["ivp", "robust", "lap", "bvp-molecular"]
        ctx.rng.shuffle(others)
        out.append(("poisson:blocks", {**base, "scenario": "blocks", "grid": {**GI, "n": ctx.rng.randrange(60, 81), "R": round(ctx.rng.uniform(18, 24), 2), "deg": 3},
                                       "grid_mol": {**GM, "n": ctx.rng.randrange(30, 41), "deg": 3}, "gauss": [(round(ctx.rng.uniform(0.5, 1.5), 3), al(), Z)],
                                       "center": [round(ctx.rng.uniform(-0.8, 0.8), 3) for _ in range(3)], "atoms2": [Z, [d, 0.0, 0.0]],
                                       "sizes": sorted({1024, 1025, 4097, 20001, 65536, 65537, 2 ** 19 + k1} | ({4096, 2 ** 19, 2 ** 19 + k2, 2 ** 20, 2 ** 20 + 3} if big else set())),
                                       "routes": ["bvp"] + (others if big else others[:3]), "big_routes": (["bvp"] + others) if big else ["bvp", others[0]],
                                       "R_other": round(ctx.rng.uniform(0.7, 3.0), 3), "other_deg": 5, "n0": ctx.rng.randrange(50, 71), "order26": ctx.rng.choice([[0.0, 1e-6], [1e-6, 0.0]])}))
    for _, sp in out:
        sp["seed"] = ctx.rng.randrange(10**6)
    return [(k, sp) for k, sp in out if only is None or sp["scenario"] in only]


def _run_inv_cases(ctx: Ctx, cases, obs):
    for key, spec in cases:
        t0 = time.time()
        try:
            res = _inv_run(spec)
        except Exception as e:
            ctx.fail("oracle", key, f"{type(e).__name__} in scenario {spec['scenario']}: {str(e)[:200]}", witness=spec,
                     snippet=INV_SRC + f"\nspec = json.loads({json.dumps(json.dumps(spec))})\ninv_run(spec)\n")
            obs.append({"key": key, "error": type(e).__name__, "wall_s": round(time.time() - t0, 2)})
            continue
        worst = max(((o / t if t > 0 else (0.0 if o <= t else float("inf"))) for _, o, t in res), default=0.0)
        obs.append({"key": key, "scenario": spec["scenario"], "checks": len(res), "worst_observed_over_threshold": worst, "wall_s": round(time.time() - t0, 2)})
        ctx.tagc("oracle:" + key, len(res))
        ctx.count(["inv", spec["scenario"], spec["seed"]], nontrivial=True, tag="oracle-scenario:" + spec["scenario"], n=len(res))
        for label, o, t in res:
            if not (o <= t):
                ctx.fail("oracle", key, f"{spec['scenario']}: {label}: {o:.3e} exceeds {t:.3e}", witness={**spec, "check": label, "observed": o, "threshold": t},
                         snippet=_inv_snippet(spec, label))


def _run_cases(ctx: Ctx, cases, obs):
    for key, spec in cases:
        t0 = time.time()
        try:
            got, thr, what = _run(spec)
        except Exception as e:  # the library raised inside the envelope
            ctx.fail("oracle", key, f"{type(e).__name__} inside the envelope: {str(e)[:160]}", witness=spec, snippet=_snippet(spec))
            obs.append({"key": key, "error": type(e).__name__, "wall_s": round(time.time() - t0, 2)})
            continue
        obs.append({"key": key, "observed": got, "threshold": thr, "wall_s": round(time.time() - t0, 2)})
        ctx.tagc("oracle:" + key)
        if not (got <= thr):
            ctx.fail("oracle", key, f"{what}: {got:.3e} exceeds {thr:.3e}", witness={**spec, "observed": got, "threshold": thr}, snippet=_snippet(spec))


def oracle_at(ctx: Ctx, failure):
    """A correspondence disagreement (wrong coefficient / right-hand side / boundary data / mesh / slice / Laplacian term /
    option) names the configuration; evaluate the property itself there with the large budget: the accuracy cases of that
    solver and route (atomic / molecular) and the invariance scenarios that exercise the same code."""
    key = failure.key or ""
    obs = ctx.extra.setdefault("oracle_at_observed", [])
    done = ctx.extra.setdefault("oracle_at_done", [])
    if key.startswith("poisson.interpolate_laplacian"):
        want, inv = ["poisson.interpolate_laplacian"], ["grid", "dtype", "mol", "special", "scale", "inner", "blocks"]
    elif key.startswith("poisson.solve_poisson_ivp"):
        want, inv = ["poisson.solve_poisson_ivp"], ["funcvals", "params", "grid", "dtype", "threshold", "scale", "special", "inner", "blocks"]
    elif key.startswith("robust_poisson"):
        want, inv = ["robust_poisson"], ["funcvals", "dtype", "special", "translate", "inner", "blocks"]
    elif key.startswith("poisson.solve_poisson_bvp") or key.startswith("poisson:"):
        mol = ":molecular" in key or key.endswith((":slices", ":sum", ":atoms"))
        want = ["poisson.solve_poisson_bvp:molecular"] if mol else ["poisson.solve_poisson_bvp"]
        inv = ["mol", "inner", "blocks", "translate"] if mol else ["funcvals", "params", "grid", "extreme", "threshold", "special", "inner", "blocks"]
        if key.endswith((":options", ":bd_cond", ":mesh", ":defaults")):
            inv = ["params", "extreme", "grid", "threshold", "special"]
    else:
        return
    tagk = [want, inv]
    if tagk in done:
        return
    done.append(tagk)
    cases = [(k, sp) for k, sp in _cases(ctx, "large") if any(k.startswith(w) for w in want) and k != "poisson.solve_poisson_ivp:high-l"]
    # first replicates, cheapest first, inside the wall-clock cap shared with the large-budget search
    cases.sort(key=lambda c: (c[1].get("_rep", 0), _cost(c[0])))
    for key, spec in cases[:ctx.n(24, 60)]:
        if _search_left(ctx) <= SEARCH_CAP_S / 3 or len(_new_failure_keys(ctx)) >= STOP_AFTER:
            break
        _part(ctx, "oracle_at case " + key, lambda: _one_case(ctx, key, spec, obs))
    for key, spec in _inv_cases(ctx, "small", only=inv):
        if _search_left(ctx) <= SEARCH_CAP_S / 3 or len(_new_failure_keys(ctx)) >= STOP_AFTER:
            break
        _part(ctx, "oracle_at scenario " + key, lambda: _run_inv_cases(ctx, [(key, spec)], obs))
    ctx.extra.pop("_kept_exc", None)


# cost rank of an oracle case (seconds on the pinned tree, rounded up): the large budget runs the cheapest / most diverse first
_COST = (("poisson.interpolate_laplacian:atomic", 1), ("poisson:defaults-diffuse", 1), ("poisson.solve_poisson_ivp:linearity", 1), ("poisson.solve_poisson_ivp", 1), ("robust_poisson.solve_poisson_robust:near-centre-molecular", 3),
         ("near-centre-molecular", 4), ("near-centre", 1), ("poisson.interpolate_laplacian:molecular", 1), ("robust_poisson.solve_poisson_robust:exact", 1),
         ("robust_poisson.solve_poisson_robust:residual", 1), ("robust_poisson.solve_poisson_robust:split2", 1), ("poisson.solve_poisson_bvp:atomic-offcentre-origin", 40),
         ("poisson.solve_poisson_bvp:atomic", 2), ("poisson.solve_poisson_bvp:linearity", 3), ("poisson.solve_poisson_bvp:homogeneity", 3), ("robust_poisson", 3), ("poisson.solve_poisson_bvp:molecular", 5))
SEARCH_CAP_S = 200.0        # wall-clock cap of the failing-input search (oracle_at + large budget) of one run
STOP_AFTER = 3              # concrete failures (distinct keys) after which the search stops


def _cost(key):
    for k, c in _COST:
        if k in key:
            return c
    return 3


def _search_left(ctx: Ctx):
    t0 = ctx.extra.setdefault("_search_t0", time.time())
    return SEARCH_CAP_S - (time.time() - t0)


def _new_failure_keys(ctx: Ctx):
    kf = _known_keys()
    return {f.key for f in ctx.failures if f.kind == "oracle" and f.key not in kf}


def _one_case(ctx: Ctx, key, spec, obs):
    t0 = time.time()
    try:
        got, thr, what = _run(spec)
    except Exception as e:  # the library raised inside the envelope
        ctx.fail("oracle", key, f"{type(e).__name__} inside the envelope: {str(e)[:160]}", witness=spec, snippet=_snippet(spec))
        obs.append({"key": key, "error": type(e).__name__, "wall_s": round(time.time() - t0, 2)})
        return
    obs.append({"key": key, "observed": got, "threshold": thr, "wall_s": round(time.time() - t0, 2)})
    ctx.tagc("oracle:" + key)
    if what.startswith("scipy nnls stopped"):
        # excused on molecular grids only (observed on the pinned tree); on atomic grids the fit never gave up, there it is a failure
        ctx.tagc("oracle:nnls-gave-up")
        if "molecular" in key:
            ctx.info(f"{key}: {what}")
        else:
            ctx.fail("oracle", key, what + " -- on an atomic grid, where the pinned tree always returns an answer", witness=spec, snippet=_snippet(spec))
        return
    if not (got <= thr):
        ctx.fail("oracle", key, f"{what}: {got:.3e} exceeds {thr:.3e}", witness={**spec, "observed": got, "threshold": thr}, snippet=_snippet(spec))


def oracle(ctx: Ctx, budget: str):
    obs = ctx.extra.setdefault("oracle_observed", [])
    t_all = time.time()
    large = budget == "large"
    # the case lists are built by consulting the library (radial shells of a grid): a failure there is a library failure, not a reason to stop
    inv_cases, cases = [], []
    try:
        inv_cases = _inv_cases(ctx, budget)
    except Exception as e:
        ctx.fail("oracle", "poisson:scenarios:raises", f"building the invariance scenarios raised {type(e).__name__}: {str(e)[:160]}")
    try:
        cases = _cases(ctx, budget)
    except Exception as e:
        ctx.fail("oracle", "poisson:cases:raises", f"building the accuracy cases raised {type(e).__name__}: {str(e)[:160]}")
    if not large:
        _part(ctx, "oracle scenarios", lambda: _run_inv_cases(ctx, inv_cases, obs))
        for key, spec in cases:
            _part(ctx, "oracle case " + key, lambda: _one_case(ctx, key, spec, obs))
        ctx.extra["oracle_wall_s"] = round(time.time() - t_all, 1)
        _raise_kept(ctx)
        return
    # large budget (a proof obligation / the correspondence broke): first replicate of every kind of case, cheapest first, then the cheap scenarios, then the
    # further replicates; the search stops after STOP_AFTER concrete failures or when the cap is used up
    first = sorted([c for c in cases if c[1].get("_rep", 0) == 0], key=lambda c: _cost(c[0]))
    rest = sorted([c for c in cases if c[1].get("_rep", 0) > 0], key=lambda c: (c[1].get("_rep", 0), _cost(c[0])))
    order = ["extreme", "blocks", "threshold", "special", "scale", "translate", "params", "funcvals", "dtype", "mol", "grid", "inner"]
    inv_first, seen = [], set()
    for k, sp in sorted(inv_cases, key=lambda c: order.index(c[1]["scenario"]) if c[1]["scenario"] in order else 99):
        (inv_first if sp["scenario"] not in seen else rest).append((k, sp))
        seen.add(sp["scenario"])
    ran = 0
    for key, spec in first + inv_first + rest:
        if _search_left(ctx) <= 0 or len(_new_failure_keys(ctx)) >= STOP_AFTER:
            break
        if "scenario" in spec:
            _part(ctx, "oracle scenario " + key, lambda: _run_inv_cases(ctx, [(key, spec)], obs))
        else:
            _part(ctx, "oracle case " + key, lambda: _one_case(ctx, key, spec, obs))
        ran += 1
    ctx.info(f"failing-input search: {ran} of {len(cases) + len(inv_cases)} large-budget cases run in {time.time() - t_all:.0f} s "
             f"(cap {SEARCH_CAP_S:.0f} s, stop after {STOP_AFTER} concrete failures)")
    ctx.extra["oracle_wall_s"] = round(time.time() - t_all, 1)
    ctx.extra.pop("_kept_exc", None)

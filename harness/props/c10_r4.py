"""C10, round 4 — generator classes 14–20 of AGENT_ROUND4.md (scripted histories as in c10_ext.py).

  layout   (14, 19, 20 and the point-order class)  every grid type with the point orders, dtypes and shapes it can
           carry: OneDGrid ascending / **descending / permuted / with repeated values**, the real radial grids
           (`MultiExpRTransform(...).transform_1d_grid(rule)` is descending, Becke / Handy transformed rules span
           1e-8 … 1e5), rule objects themselves (`GaussChebyshev`, …: selection gives a `OneDGrid`), Tensor1DGrids of
           unsorted one-dimensional grids with sizes 2,3,4 all different, UniformGrid with negative / integer /
           float32 axes and unequal shapes, AtomGrid / MolGrid on descending, unsorted, float32, integer and extreme
           radial grids with integer / list centres, AngularGrid, Grid / LocalGrid with (n, d) in {1,2,3}² (n == d
           included), points and weights as bool / integer / float32 / negative-stride / Fortran / read-only arrays;
           each object lives through queries (exact reference), a reversal / permutation of its points by the
           setter, and — where the type supports selection — `g[::-1]`, `g[perm]` whose result is queried itself
  calls    (15)  `get_localgrid(center, radius)` positionally, by keyword, mixed, keywords in the other order;
           `Grid` / `LocalGrid` constructors by keyword, `indices` omitted / None / by keyword
  shared   (16)  one centre array (a view into a larger array with guard values) used for several queries on several
           grids, one value array assigned to two grids, one index array used for two selections: every answer
           against a reference from a pristine copy, the argument and the bytes around it unchanged
  raises   (18)  every rejected call (centre of the wrong shape, negative / NaN / -inf radius, points / weights of
           another shape, out-of-range / zero-step / wrong-length index) in every position of a short history; the
           later accepted calls answer as on a fresh object
"""
import itertools
import math

import numpy as np

from ..common import driver_batch, f2b, fmat, fvec, vec
from . import c10 as B
from . import c10_ext as E


# ----------------------------------------------------------------------------------------------------
# class `layout`
# ----------------------------------------------------------------------------------------------------
def _order(rng, p):
    """The same values in another order.  -> (array, name)"""
    how = rng.choice(["ascending", "descending", "descending", "permuted", "permuted", "ties"])
    p = np.sort(np.asarray(p, dtype=float))
    if how == "descending":
        p = p[::-1].copy()
    elif how == "permuted" and len(p) > 1:
        idx = list(range(len(p)))
        while idx == sorted(idx) and len(set(p)) > 1:
            rng.shuffle(idx)
        p = p[idx].copy()
    elif how == "ties" and len(p) > 1:
        p = p.copy()
        p[rng.randrange(1, len(p))] = p[0]
        rng.shuffle(idx := list(range(len(p))))
        p = p[idx].copy()
    return p, how


def _kind_of_array(rng, a, integral_ok=True):
    """Class 14: the same numbers held in another dtype / memory layout.  -> (array, name)"""
    a = np.asarray(a, dtype=float)
    ks = ["f64"] * 3 + ["f32", "negstride", "readonly", "strided", "fortran"]
    if integral_ok:
        ks += ["int", "bool"]
    k = rng.choice(ks)
    if k == "f32":
        return a.astype(np.float32), k
    if k == "int":
        return np.round(a * 2).astype(rng.choice([np.int64, np.int32, np.int8])), k
    if k == "bool":
        return (a > np.median(a)) if a.size else a.astype(bool), k
    if k == "negstride" and a.ndim >= 1 and len(a) > 0:
        return a[::-1].copy()[::-1], k
    if k == "readonly":
        b = a.copy()
        b.flags.writeable = False
        return b, k
    if k == "strided" and a.ndim >= 1 and len(a) > 0:
        big = np.zeros((3 * len(a),) + a.shape[1:])
        big[1::3] = a
        return big[1::3], k
    if k == "fortran" and a.ndim == 2:
        return np.asfortranarray(a), k
    return a.copy(), "f64"


def _radial(rng, M):
    """A radial grid for an atomic grid (class 19: where the lower layer is extreme).  -> (OneDGrid, name)"""
    bg, og, rt = M["basegrid"], M["onedgrid"], M["rtransform"]
    how = rng.choice(["descending", "permuted", "multiexp", "becke-extreme", "handy", "f32", "int", "plain"])
    if how in ("descending", "permuted", "plain", "f32", "int"):
        nr = rng.choice([1, 2, 3])
        r = np.sort(np.array([rng.uniform(0.2, 3.0) for _ in range(nr)]))
        if how == "descending":
            r = r[::-1].copy()
        elif how == "permuted" and nr > 2:
            r = r[[1, 2, 0]].copy()
        elif how == "f32":
            r = r.astype(np.float32)
        elif how == "int":
            r = np.arange(1, nr + 1)[::-1].copy()
        return bg.OneDGrid(r, np.ones(nr), (0, np.inf)), how
    rule = rng.choice([og.GaussLegendre, og.GaussChebyshev, og.UniformInteger])(rng.choice([2, 3, 4]))
    if how == "multiexp":
        return rt.MultiExpRTransform(rng.choice([1e-3, 1e-6]), rng.choice([5.0, 40.0])).transform_1d_grid(og.GaussLegendre(rng.choice([2, 3, 4]))), how
    if how == "becke-extreme":
        rule = og.GaussChebyshev(rng.choice([3, 5]))
        return rt.BeckeRTransform(rng.choice([1e-8, 1e-5]), rng.choice([1.5, 30.0])).transform_1d_grid(rule), how
    rule = og.GaussChebyshev(rng.choice([3, 4]))
    return rt.HandyRTransform(1e-6, rng.choice([1.0, 25.0]), 2).transform_1d_grid(rule), how


def _atom(rng, M, tags):
    rg, how = _radial(rng, M)
    tags.append("rgrid-" + how)
    c = rng.choice([None, B._coords(rng, (3,), True), B._coords(rng, (3,), False), np.array([1, -2, 0]), np.array([2.0 ** 12, 0.0, -3.0])])
    degs = [rng.choice([3, 5])] if rng.random() < 0.6 else [rng.choice([3, 5]) for _ in range(rg.size)]
    if rng.random() < 0.3:
        degs = np.array(degs)
        tags.append("degrees-array")
    if c is not None and np.asarray(c).dtype != np.float64:
        tags.append("centre-int")
    return M["atomgrid"].AtomGrid(rg, degrees=degs, center=c, rotate=rng.choice([0, 0, 7]))


def ctor_text(kind, g):
    if kind == "mol" and hasattr(g, "_gv_atnums"):
        return (f"MolGrid({B._descr(g._gv_atnums)}, [{', '.join(B._atom_text(a) for a in g._atgrids)}], BeckeWeights(), store=True)")
    try:
        return B._ctor_text(kind, g)
    except Exception:  # noqa: BLE001
        return f"Grid({B._descr(np.asarray(g.points))}, {B._descr(np.asarray(g.weights))})  # points/weights of the {kind} object"


def layout_object(rng, M, i):
    """-> (kind, object, tags)"""
    bg = M["basegrid"]
    tags = []
    what = ["oned", "grid", "loc", "grid1", "tensor", "uniform", "atom", "mol", "angular", "rule", "radial"][i % 11]
    if what in ("oned", "grid1"):
        n = rng.choice([1, 2, 2, 3, 4, 6, 20])
        p, how = _order(rng, B._coords(rng, (n,), rng.random() < 0.4))
        tags.append("order-" + how)
        p, k = _kind_of_array(rng, p, integral_ok=True)
        if k in ("int", "bool"):
            tags.append("order-as-stored")
        w, kw = _kind_of_array(rng, B._weights(rng, n))
        tags += ["points-" + k, "weights-" + kw]
        if what == "grid1":
            return "grid1", bg.Grid(p, w), tags
        pf = np.asarray(p, dtype=float)
        dom = None if (rng.random() < 0.4 or n == 0) else (float(pf.min()) - rng.choice([0.0, 0.5]), float(pf.max()) + rng.choice([0.0, 0.5]))
        return "oned", bg.OneDGrid(p, w, dom), tags
    if what in ("grid", "loc"):
        n, d = rng.choice([(1, 3), (3, 1), (2, 2), (3, 3), (2, 3), (3, 2), (1, 1), (2, 1), (1, 2), (4, 3), (20, 2)])
        tags.append(f"shape-n{'=' if n == d else ('<' if n < d else '>')}d")
        p, k = _kind_of_array(rng, B._coords(rng, (n, d), rng.random() < 0.4))
        w, kw = _kind_of_array(rng, B._weights(rng, n))
        tags += ["points-" + k, "weights-" + kw]
        if what == "grid":
            return "grid", bg.Grid(p, w), tags
        return "loc", bg.LocalGrid(p, w, np.zeros(d), np.arange(n)), tags
    if what == "tensor":
        d = rng.choice([2, 3])
        # (every axis needs at least two points: the constructor rejects size 1)
        sizes = rng.sample([2, 3, 4], d) if rng.random() < 0.7 else [2] * d
        gs = []
        for n in sizes:
            p, how = _order(rng, B._coords(rng, (n,), False))
            p, k = _kind_of_array(rng, p, integral_ok=False)
            tags += ["order-" + how, "points-" + k]
            gs.append(bg.OneDGrid(p, B._weights(rng, n)))
        tags.append("sizes-" + ("unequal" if len(set(sizes)) == d else "small"))
        g = M["cubic"].Tensor1DGrids(*gs)
        g._gv_oned = gs
        return "tensor", g, tags
    if what == "uniform":
        d = rng.choice([2, 3])
        while True:
            ax = B._coords(rng, (d, d), True) * 0.5
            if abs(np.linalg.det(ax)) > 1e-2:
                break
        if rng.random() < 0.4:
            ax = -(np.abs(np.diag(np.diag(ax))) + np.eye(d) * 0.25)    # every coordinate descends along its axis
            tags.append("axes-negative")
        origin = B._coords(rng, (d,), True)
        k = rng.choice(["f64", "f64", "int", "f32"])
        if k == "int":
            ax, origin = np.round(ax * 4).astype(int) + np.eye(d, dtype=int) * 3, np.round(origin).astype(int)
            if abs(np.linalg.det(ax.astype(float))) < 0.5:
                ax = np.eye(d, dtype=int) * 2
                ax[0, -1] = -1
        elif k == "f32":
            ax, origin = ax.astype(np.float32), origin.astype(np.float32)
        tags.append("axes-" + k)
        shape = rng.sample([2, 3, 4, 5], d)
        shape = rng.choice([np.array(shape), np.array(shape, dtype=np.int32)])
        tags.append("shape-unequal")
        wt = rng.choice(["Trapezoid", "Rectangle"])
        g = M["cubic"].UniformGrid(origin, ax, shape, weight=wt)
        g._gv_weight = wt
        return "uniform", g, tags
    if what == "atom":
        return "atom", _atom(rng, M, tags), tags
    if what == "mol":
        ats = []
        while len(ats) < 2:
            a = _atom(rng, M, tags)
            if all(np.linalg.norm(np.asarray(a.center, dtype=float) - np.asarray(b.center, dtype=float)) > 0.3 for b in ats):
                ats.append(a)
        g = M["molgrid"].MolGrid(np.array([1, 8]), ats, M["becke"].BeckeWeights(), store=True)
        g._gv_atnums = np.array([1, 8])
        return "mol", g, tags
    if what == "angular":
        tags.append("angular")
        return "angular", M["angular"].AngularGrid(degree=rng.choice([3, 5, 7])), tags
    og, rt = M["onedgrid"], M["rtransform"]
    if what == "rule":
        cls = rng.choice([og.GaussChebyshev, og.GaussLegendre, og.UniformInteger, og.GaussLaguerre, og.ClenshawCurtis, og.TanhSinh])
        n = rng.choice([2, 3, 5])
        try:
            g = cls(n) if cls is not og.TanhSinh else cls(n if n % 2 else n + 1, 0.3)
        except Exception:  # noqa: BLE001
            g = og.GaussLegendre(n)
        tags.append("rule-" + type(g).__name__)
        g._gv_ctor = B._ctor_text("oned", g) + f"  # the points / weights / domain of {type(g).__name__}({n})"
        return "oned", g, tags
    rg, how = _radial(rng, M)
    tags.append("radial-" + how)
    g = bg.OneDGrid(np.array(rg.points), np.array(rg.weights), rg.domain)
    return "oned", g, tags


def gen_layout(ctx, M, n):
    rng = ctx.rng
    hs = []
    OneD = M["basegrid"].OneDGrid
    for i in range(n):
        kind, g, tags = layout_object(rng, M, i)
        if not hasattr(g, "_gv_ctor"):
            g._gv_ctor = ctor_text(kind, g)
        npts = len(np.asarray(g.points))
        if npts == 0:
            continue
        h = E.Script(kind, g, rng, M, "layout")
        h.extra_tags += ["layout:" + t for t in tags]

        def queries(obj_h, k):
            for _ in range(k):
                for c, r, t in rng.sample(E._special_queries(rng, obj_h.g), 2) if len(E._rows(obj_h.g)) else []:
                    if math.isfinite(r) and r > 1e200:
                        continue
                    obj_h.q(c, r, t, ref=True, call=rng.choice(["pos", "pos", "kw", "kw-swapped", "mixed"]))
        queries(h, 2)
        pts = np.asarray(g.points)
        if kind != "atom" and npts > 1:
            perm = list(range(npts))
            rng.shuffle(perm)
            new = rng.choice([pts[::-1], pts[::-1].copy(), pts[perm]])          # (a reversed *view* as well)
            h.sp(new, "reordered")
            queries(h, 1)
        if kind in ("grid", "grid1", "oned") and npts > 1:
            perm = list(range(npts))
            rng.shuffle(perm)
            idx, tok, t = rng.choice([(slice(None, None, -1), "gi s N N -1", "reversed"),
                                      (np.array(perm), "gi a " + vec(perm), "permuted"),
                                      (list(reversed(range(npts))), "gi a " + vec(reversed(range(npts))), "reversed-list")])
            h.gi(idx, tok, t, expect=OneD if kind == "oned" else None)
            # the selection is a grid of its own: query it
            try:
                sub = g[idx]
            except Exception:  # noqa: BLE001
                sub = None
            if sub is not None and len(np.asarray(sub.points)):
                sk = "oned" if kind == "oned" else kind
                sub._gv_ctor = f"({h.ctor.split('  #')[0]})[{B._descr(idx)}]"
                if kind == "oned" and sub.domain is not None and h.mutated_between is not None:
                    pass
                hsub = E.Script(sk, sub, rng, M, "layout-selection", ctor=sub._gv_ctor)
                queries(hsub, 2)
                if hsub.tokens:
                    hs.append(hsub)
        if h.tokens:
            hs.append(h)
    return hs


# ----------------------------------------------------------------------------------------------------
# class `raises`
# ----------------------------------------------------------------------------------------------------
def _bad_op(rng, h, which):
    g = h.g
    pts = np.asarray(g.points)
    oned = pts.ndim == 1
    dim = 1 if oned else pts.shape[1]
    n = len(pts)
    c, _ = B._centre(rng, g, oned, dim)
    if which == "bq":
        what = rng.choice(["shape", "shape0", "neg", "nan", "ninf", "negtiny"])
        if what == "shape":
            h.q(np.zeros(dim + 1) if not oned else np.zeros(1), 1.0, "rejected-centre-shape")
        elif what == "shape0":
            h.q(np.zeros(()) if not oned else np.zeros((1, 1)), 1.0, "rejected-centre-ndim") if not oned else h.q(np.zeros(2), 1.0, "rejected-centre-shape")
        else:
            r = {"neg": -1.5, "nan": math.nan, "ninf": -math.inf, "negtiny": -5e-324}[what]
            h.q(c, rng.choice([r, np.float64(r), np.float32(r)]) if what != "negtiny" else r, "rejected-radius-" + what)
    elif which == "bsp":
        new = rng.choice([B._coords(rng, (n + 1,) + pts.shape[1:], False), B._coords(rng, (n, dim + 1), False) if not oned else B._coords(rng, (n, 1), False)])
        h.sp(new, "rejected-shape")
    elif which == "bsw":
        h.sw(B._weights(rng, n + rng.choice([1, 2])), "rejected-shape")
    else:
        idx, tok = rng.choice([(n, f"gi i {n}"), (-n - 1, f"gi i {-n - 1}"), (slice(None, None, 0), "gi s N N 0"),
                               (np.array([0, n]), "gi a " + vec([0, n])), (np.ones(n + 1, dtype=bool), "gi m " + vec([1] * (n + 1)))])
        h.gi(idx, tok, "rejected")


def gen_raises(ctx, M, depth):
    rng = ctx.rng
    hs = []
    alphabet = ["bq", "bsp", "bsw", "bgi", "q", "sp"]
    seqs = [s for k in range(1, depth + 1) for s in itertools.product(alphabet, repeat=k) if any(x.startswith("b") for x in s)]
    for kind in B.KINDS + ["angular"]:
        for seq in seqs:
            if kind == "mol" and "bgi" in seq:
                continue
            while True:
                g = B.build(kind, rng, M) if kind != "angular" else M["angular"].AngularGrid(degree=rng.choice([3, 5]))
                if len(np.asarray(g.points)) >= 2:
                    break
            if not hasattr(g, "_gv_ctor"):
                g._gv_ctor = ctor_text(kind, g)
            h = E.Script(kind, g, rng, M, "raises")
            ca, ra, _ = E._query_args(rng, g)

            def query(tag):
                r = ra
                d2s = E.exact_d2(h.g, ca)
                for _ in range(60):
                    if E.margin_free(d2s, r):
                        break
                    r = r * (1 + 3e-6) + 1e-9
                h.q(ca, r, tag, ref=True)
            # (half of the histories raise on the *fresh* object, half after a first accepted query built the tree)
            if rng.random() < 0.5:
                query("before")
            for op in seq:
                if op.startswith("b"):
                    _bad_op(rng, h, op)
                elif op == "q":
                    query("between")
                else:
                    p = np.asarray(h.g.points, dtype=float)
                    h.sp(p[::-1].copy(), "reversed")
            query("after-rejected")
            h.q(ca, math.inf, "inf-after-rejected", ref=True)
            hs.append(h)
    return hs


# ----------------------------------------------------------------------------------------------------
# class `calls` (constructors by keyword) — the query spellings are part of `layout`
# ----------------------------------------------------------------------------------------------------
def corr_calls(ctx, M):
    bg = M["basegrid"]
    lines, impl, texts = [], [], []

    def shape_of(a):
        return f"{a.ndim} {len(a) if a.ndim else 0}"
    for (pn, pd), wn, ix in itertools.product([(3, 2), (2, 2), (1, 3), (3, 0)], [3, 2, 1], ["omitted", "none", "kw", "kw-none", "pos", "bad-len"]):
        p = np.zeros((pn, pd)) if pd else np.zeros(pn)
        w = np.zeros(wn)
        c = np.zeros(pd) if pd else np.zeros(())
        idx = np.arange(pn + (1 if ix == "bad-len" else 0))
        spell = {"omitted": ("N", lambda: bg.LocalGrid(p, w, c)), "none": ("N", lambda: bg.LocalGrid(p, w, c, None)),
                 "kw-none": ("N", lambda: bg.LocalGrid(weights=w, center=c, points=p, indices=None)),
                 "kw": (f"1 {len(idx)}", lambda: bg.LocalGrid(indices=idx, center=c, weights=w, points=p)),
                 "pos": (f"1 {len(idx)}", lambda: bg.LocalGrid(p, w, c, idx)),
                 "bad-len": (f"1 {len(idx)}", lambda: bg.LocalGrid(p, w, center=c, indices=idx))}[ix]
        lines.append(f"C10.lginit {p.ndim} {pn} 1 {wn} {spell[0]}")
        texts.append(f"LocalGrid: points {p.shape}, weights {w.shape}, indices {ix}")
        want_idx = None if spell[0] == "N" else idx
        try:
            lg = spell[1]()
            ok = lg._points is p and lg._weights is w and lg._center is c and lg._indices is want_idx
            impl.append((f"ok p {shape_of(p)} w {shape_of(w)} t {0 if lg._kdtree is None else 1} i " + ("N" if lg._indices is None else shape_of(lg._indices)))
                        if ok else "other-arrays")
        except Exception as e:  # noqa: BLE001
            impl.append(B._errtag(e))
        if ix in ("omitted", "kw"):
            lines.append(f"C10.ginit {p.ndim} {pn} 1 {wn}")
            texts.append(f"Grid(weights=…, points=…): points {p.shape}, weights {w.shape}")
            try:
                g = bg.Grid(weights=w, points=p) if ix == "kw" else bg.Grid(p, weights=w)
                impl.append(f"ok p {shape_of(p)} w {shape_of(w)} t {0 if g._kdtree is None else 1}" if (g._points is p and g._weights is w) else "other-arrays")
            except Exception as e:  # noqa: BLE001
                impl.append(B._errtag(e))
    answers = driver_batch(lines)
    for line, a, b, t in zip(lines, impl, answers, texts):
        ctx.count((line, t), nontrivial=True, tag="calls:" + line.split()[0] + (":error" if not a.startswith("ok") else ""))
        if a != b:
            ctx.fail("corr", "calls:" + line.split()[0], f"{t}: implementation {a!r}, generated constructor {b!r}",
                     witness={"call": t, "implementation": a, "model": b})


# ----------------------------------------------------------------------------------------------------
# class `shared` (oracle: implementation against exact references from pristine copies)
# ----------------------------------------------------------------------------------------------------
def oracle_shared(ctx, M, n):
    rng = ctx.rng
    bg = M["basegrid"]
    for i in range(n):
        d = rng.choice([1, 2, 3])
        kinds = [rng.choice(["grid", "loc", "uniform", "tensor", "atom", "mol", "grid"]) for _ in range(2)]
        gs = []
        for k in kinds:
            if k in ("uniform", "tensor", "atom", "mol") and d == 3 or (k in ("uniform", "tensor") and d == 2):
                for _ in range(30):
                    g = B.build(k, rng, M)
                    if np.asarray(g.points).ndim == 2 and np.asarray(g.points).shape[1] == d:
                        break
                else:
                    g = None
                if g is not None:
                    gs.append((k, g))
                    continue
            m = rng.choice([2, 3, 5])
            g = bg.Grid(B._coords(rng, (m, d), rng.random() < 0.4), B._weights(rng, m))
            g._gv_ctor = B._ctor_text("grid", g)
            gs.append(("grid", g))
        # one centre array, a view into a larger caller array with guard values around it
        big = np.full(3 * d + 4, 7.25)
        view = big[2:2 + 2 * d:2]
        view[...] = [rng.choice([0.0, 0.5, -1.25, rng.uniform(-1, 1)]) for _ in range(d)]
        pristine_big = big.copy()
        key = "shared-centre"
        text = ["big = np.full(%d, 7.25); c = big[2:%d:2]; c[...] = %s" % (len(big), 2 + 2 * d, B._descr(np.array(view)))]
        text += [f"g{j} = {g._gv_ctor.split('  #')[0]}" for j, (_, g) in enumerate(gs)]
        fails = []
        handed = []
        for rep in range(3):
            for j, (k, g) in enumerate(gs):
                c0 = pristine_big[2:2 + 2 * d:2].copy()
                d2s = E.exact_d2(g, c0)
                r = float(rng.choice([0.3, 0.9, 1.7, 3.1]))
                for _ in range(60):
                    if E.margin_free(d2s, r):
                        break
                    r = r * (1 + 3e-6) + 1e-9
                want = E.exact_answer(g, c0, r)
                text.append(f"lg = g{j}.get_localgrid(c, {r!r})")
                ctx.count((key, i, rep, j), nontrivial=True, tag="oracle:shared:centre")
                try:
                    lg = g.get_localgrid(view, r)
                    got = B._canon_local(lg)
                    handed.append(lg)
                except Exception as e:  # noqa: BLE001
                    got = "E " + B._errtag(e)
                if got != want:
                    fails.append(f"request {len(text) - 1 - len(gs)} ({B.PATH[k]}, radius {r!r}): {got[:80]!r}, reference from a pristine copy of the centre {want[:80]!r}")
                if not np.array_equal(big, pristine_big):
                    fails.append(f"the caller's array changed after request on {B.PATH[k]}: {big.tolist()} (was {pristine_big.tolist()})")
                    big[...] = pristine_big
        if fails:
            ctx.fail("oracle", "basegrid.Grid.get_localgrid:shared-centre",
                     "one centre array (a view into a larger array) used for several requests: " + fails[0],
                     witness={"script": text, "all": fails[:4]},
                     snippet=B.SNIP_HEAD + E.SNIP_EXACT + "\n".join(text[:1 + len(gs)]) + "\nbig0 = big.copy()\n"
                     + "\n".join(f"{t}\nassert sorted(map(int, lg.indices)) == inside({t.split(' = ')[1].split('.')[0]}, big0[2:{2 + 2 * d}:2], {t.rsplit(', ', 1)[1][:-1]})\nassert np.array_equal(big, big0)"
                                 for t in text[1 + len(gs):]) + "\n")
        # one value array assigned to two plain grids, one index array for two selections
        m = rng.choice([2, 3, 5])
        V = B._coords(rng, (m, d), False)
        V0 = V.copy()
        ga = bg.Grid(B._coords(rng, (m, d), False), B._weights(rng, m))
        gb = bg.Grid(B._coords(rng, (m, d), False), B._weights(rng, m))
        idx = np.array([rng.randrange(m) for _ in range(rng.choice([1, 2, 4]))])
        idx0 = idx.copy()
        ctx.count(("shared-value", i), nontrivial=True, tag="oracle:shared:value+index", n=4)
        probs = []
        try:
            ga.points = V
            gb.points = V
            c = V0[rng.randrange(m)] + 0.1
            for name, g in (("first", ga), ("second", gb), ("first", ga)):
                d2s = E.exact_d2(g, c)
                r = 0.8
                for _ in range(60):
                    if E.margin_free(d2s, r):
                        break
                    r = r * (1 + 3e-6) + 1e-9
                ref = bg.Grid(V0.copy(), np.array(g.weights))
                if B._canon_local(g.get_localgrid(c, r)) != E.exact_answer(ref, c, r):
                    probs.append(f"the {name} grid the array was assigned to answers {B._canon_local(g.get_localgrid(c, r))[:80]!r}")
            sa, sb = ga[idx], gb[idx]
            if not (np.array_equal(sa.points, V0[idx0]) and np.array_equal(sb.points, V0[idx0])):
                probs.append("a selection with the shared index array is not the selected points")
            if not (np.array_equal(V, V0) and np.array_equal(idx, idx0)):
                probs.append("the shared value / index array changed")
        except Exception as e:  # noqa: BLE001
            probs.append(f"raised {type(e).__name__}: {str(e)[:100]}")
        if probs:
            ctx.fail("oracle", "basegrid.Grid.points:shared-value", "one array assigned as points to two grids, one index array for two selections: " + probs[0],
                     witness={"value": V0, "index": idx0, "all": probs[:4]},
                     snippet=B.SNIP_HEAD + f"V = {B._descr(V0)}; V0 = V.copy(); idx = {B._descr(idx0)}\n"
                     f"ga = Grid({B._descr(np.array(ga.points) * 0 + 1.5)}, {B._descr(np.array(ga.weights))}); gb = Grid({B._descr(np.array(gb.points) * 0 - 2.5)}, {B._descr(np.array(gb.weights))})\n"
                     "ga.points = V; gb.points = V\nfor g in (ga, gb, ga):\n    lg = g.get_localgrid(V0[0] + 0.1, 0.8)\n"
                     "    d = np.linalg.norm(V0 - (V0[0] + 0.1), axis=1)\n    assert sorted(map(int, lg.indices)) == [i for i in range(len(V0)) if d[i] <= 0.8]\n"
                     "assert np.array_equal(ga[idx].points, V0[idx]) and np.array_equal(gb[idx].points, V0[idx]) and np.array_equal(V, V0)\n")


# ----------------------------------------------------------------------------------------------------
# entry points
# ----------------------------------------------------------------------------------------------------
def script_classes(ctx, M, oracle=False):
    f = 6 if oracle == "large" else 1
    q = (lambda a, b: f * ctx.n(a, b))
    return [("layout", lambda: gen_layout(ctx, M, q(330, 3300) if not oracle else q(220, 2200))),
            ("raises", lambda: gen_raises(ctx, M, (2 if not oracle else 1) if not ctx.thorough and f == 1 else 2))]


def corr_parts(ctx, M):
    return [("scripted:" + name, (lambda gen=gen: E.corr_scripts(ctx, gen))) for name, gen in script_classes(ctx, M)] \
        + [("calls", lambda: corr_calls(ctx, M))]


def oracle_parts(ctx, M, budget):
    big = "large" if budget == "large" else True
    f = 6 if budget == "large" else 1
    return [("scripted:" + name, (lambda gen=gen: E.oracle_scripts(ctx, gen()))) for name, gen in script_classes(ctx, M, oracle=big)] \
        + [("shared", lambda: oracle_shared(ctx, M, f * ctx.n(40, 400)))]

"""C11, fifth round (AGENT_ROUND5.md): classes 21–26.

  * `part_inplace`    (25) identity-keyed memoisation: the *same array object* modified in place between two
                      constructions / calls, for every array-valued argument of every public entry point of the
                      property (constructor: points, weights, realvecs; get_localgrid: center; setters: points, weights;
                      __getitem__: index array) and every way of writing (`buf[...] = new`, `buf *= c`, `np.copyto`,
                      element by element); the second answer must be the one on fresh copies of the new contents;
  * `part_instances`  (26) state shared between instances: two grids that differ in exactly one hidden dependency
                      (another cell of the same shape, other points on the same cell, wrap on / off, flat vs column
                      form, other weights), built and queried in either order; every answer against the one computed in
                      isolation before the other instance existed;
  * `part_sizes`      (21) numbers of points just above and exactly on block sizes (1024 / 1025, 4096 / 4097, 20000 /
                      20001, 31234; thorough: 65537, 2^19 + 1): vectorised enumeration and additivity over a split;
  * `part_order`      (22) ascending / descending / shuffled point order: the local grid is the same set of
                      (point, translation) pairs;
  * `part_precision`  (23) longdouble / float16 / float32 / integer arrays given directly as points, weights, centre and
                      radius: the float64 answer, the argument unchanged, a second call with the same object equal.
  (24 — parameters independent of the data — has no transform-like parameter in this class; the lattice is independent
  of the points, which the 'outside' / 'wide' spreads, the far centres and `part_instances` exercise.)
"""
import itertools
import math
import warnings

import numpy as np

from . import c11_r3 as r3
from . import c11_r4 as r4

PRE = "import warnings; warnings.filterwarnings('ignore')\nimport numpy as np\nfrom grid.periodicgrid import PeriodicGrid\n"
OBS_TXT = ("def obs(g, c, r):\n    iv = np.asarray(g.frac_intvls, dtype=float).reshape(-1, 2); sp = np.asarray(g.spacings, dtype=float).reshape(-1)\n"
           "    for _ in range(60):\n        if not len(iv) or float(np.prod(np.maximum(1.0, (iv[:, 1] - iv[:, 0]) + 2 * r / sp + 1))) <= 30000.0:\n            break\n        r = r / 2\n"
           "    lg = g.get_localgrid(c, r)\n"
           "    return [np.asarray(x) for x in (g.points, g.weights, g.recivecs, g.spacings, g.frac_intvls, lg.indices, lg.points, lg.weights)]\n"
           "def same(x, y):\n    return len(x) == len(y) and all(u.shape == v.shape and np.array_equal(u, v) for u, v in zip(x, y))\n")
NAMES = ("points", "weights", "recivecs", "spacings", "frac_intvls", "local indices", "local points", "local weights")


def _afford(g, r, budget=30000.0):
    """The radius halved until the number of translations get_localgrid tries stays within the budget (a function of
    the object's own attributes only: the same for an identical twin)."""
    iv = np.asarray(g.frac_intvls, dtype=float).reshape(-1, 2)
    sp = np.asarray(g.spacings, dtype=float).reshape(-1)
    for _ in range(60):
        if not len(iv) or float(np.prod(np.maximum(1.0, (iv[:, 1] - iv[:, 0]) + 2 * r / sp + 1))) <= budget:
            return r
        r = r / 2
    e = RuntimeError("the points span too many cells for an affordable image box")
    e.skip_case = True
    raise e


def _obs(g, c, r):
    with warnings.catch_warnings():
        warnings.simplefilter("ignore")
        lg = g.get_localgrid(c, _afford(g, float(r)))
    return [np.asarray(x) for x in (g.points, g.weights, g.recivecs, g.spacings, g.frac_intvls, lg.indices, lg.points, lg.weights)]


def _diff(x, y):
    """Name of the first observation that differs (the same code ran on the same numbers: equality is exact)."""
    for n, u, v in zip(NAMES, x, y):
        if u.shape != v.shape or not np.array_equal(u, v):
            return n
    return None


def _pick(rng, base_args):
    """Constructor arguments with at least one lattice vector given in double precision."""
    while True:
        args = base_args(rng)
        if args["rtol"] == 1e-11 and args["realvecs"] is not None and args["k"] >= 1:
            return args


def _write(rng, buf, new):
    """Overwrite `buf` in place with `new` (same shape) in one of several ways -> python text"""
    new = np.asarray(new, dtype=buf.dtype)
    how = rng.choice(["assign", "assign", "copyto", "elementwise", "scale-then-assign"])
    if how == "assign":
        buf[...] = new
        return "BUF[...] = NEW"
    if how == "copyto":
        np.copyto(buf, new)
        return "np.copyto(BUF, NEW)"
    if how == "elementwise":
        flat_b, flat_n = buf.reshape(-1), new.reshape(-1)
        for i in range(flat_b.size):
            flat_b[i] = flat_n[i]
        return "BUF.reshape(-1)[:] = NEW.reshape(-1)"
    buf *= 3.0
    buf[...] = new
    return "BUF *= 3.0; BUF[...] = NEW"


def _second(rng, base_args, lattice, args):
    """Second contents of the same shapes: other points, weights, another cell, another centre."""
    d, oned, k = args["d"], args["oned"], args["k"]
    pA = np.asarray(args["points"], dtype=float)
    n = len(pA)
    for _ in range(50):
        rvB = np.asarray(lattice(rng, d, k, oned), dtype=float)
        if rvB.shape == np.asarray(args["realvecs"]).shape and not np.allclose(rvB, np.asarray(args["realvecs"], dtype=float)):
            break
    A = rvB.reshape(k, d)
    fr = np.array([[rng.uniform(-0.45, 1.55) for _ in range(k)] for _ in range(n)])
    pB = fr @ A + (np.array([[rng.uniform(-1, 1) for _ in range(d)] for _ in range(n)]) if k < d else 0.0)
    pB = pB[:, 0] if oned else pB
    wB = np.array([rng.uniform(0.1, 2) for _ in range(n)])
    return pB, wB, rvB


def _query(rng, p, rv, d, k):
    """A centre and a moderate radius for points p on the cell rv (radius / spacing bounded)."""
    P = np.asarray(p, dtype=float).reshape(len(p), -1)
    A = np.asarray(rv, dtype=float).reshape(k, d)
    scale = float(np.linalg.norm(A, axis=1).min())
    c = P[rng.randrange(len(P))] + np.array([rng.uniform(-0.4, 0.4) for _ in range(d)]) * scale
    r = rng.choice([0.3, 0.8, 1.3]) * scale
    r = min(r, 6.0 / float(np.linalg.norm(np.linalg.pinv(A).T, axis=1).max()))
    return c, float(r)


# ----------------------------------------------------------------------------
# (25) the same array object modified in place between two constructions / calls
# ----------------------------------------------------------------------------
def part_inplace(ctx, G, ck, base_args, lattice, mult):
    rng = ctx.rng
    L = r4._lit
    scen = ["ctor-realvecs", "ctor-realvecs", "ctor-points", "ctor-weights", "query-centre", "setter-points", "setter-weights", "getitem-index"]
    for it in range(64 * mult):
        with G("periodicgrid:in-place-argument", "the same array object modified in place between two uses"):
            args = _pick(rng, base_args)
            d, oned, k = args["d"], args["oned"], args["k"]
            pA, wA, rvA = np.asarray(args["points"], dtype=float), np.asarray(args["weights"], dtype=float), np.asarray(args["realvecs"], dtype=float)
            pB, wB, rvB = _second(rng, base_args, lattice, args)
            n = len(wA)
            sc = scen[it % len(scen)]
            wrapA, wrapB = rng.random() < 0.5, rng.random() < 0.4
            cA, rA = _query(rng, pA, rvA, d, k)
            cB, rB = _query(rng, pB, rvB, d, k)
            co = (lambda c: float(c[0]) if oned else c.copy())
            ct = (lambda c: repr(float(c[0])) if oned else L(c))
            head = PRE + OBS_TXT + f"pA = {L(pA)}; wA = {L(wA)}; rvA = {L(rvA)}\npB = {L(pB)}; wB = {L(wB)}; rvB = {L(rvB)}\n"
            ctx.count(["inplace", sc, d, k, n], nontrivial=True, tag="oracle:r5:inplace:" + sc)
            with warnings.catch_warnings():
                warnings.simplefilter("ignore")
                if sc == "ctor-realvecs":
                    buf = rvA.copy()
                    g1 = ck.PG(pA.copy(), wA.copy(), buf, wrap=wrapA)
                    if rng.random() < 0.6:
                        _obs(g1, co(cA), rA)
                    how = _write(rng, buf, rvB)
                    g2 = ck.PG(pB.copy(), wB.copy(), buf, wrap=wrapB)
                    ref = ck.PG(pB.copy(), wB.copy(), rvB.copy(), wrap=wrapB)
                    got, want = _obs(g2, co(cB), rB), _obs(ref, co(cB), rB)
                    body = (f"buf = rvA.copy()\ng1 = PeriodicGrid(pA.copy(), wA.copy(), buf, wrap={wrapA}); g1.get_localgrid({ct(cA)}, {rA!r})\n"
                            + how.replace("BUF", "buf").replace("NEW", "rvB") + f"      # the caller's lattice array now holds another cell\n"
                            f"g2 = PeriodicGrid(pB.copy(), wB.copy(), buf, wrap={wrapB})\nref = PeriodicGrid(pB.copy(), wB.copy(), rvB.copy(), wrap={wrapB})\n")
                elif sc == "ctor-points":
                    buf = pA.copy()
                    g1 = ck.PG(buf, wA.copy(), rvA.copy(), wrap=True)          # (wrap=True: the first grid owns a copy)
                    _obs(g1, co(cA), rA)
                    how = _write(rng, buf, pB)
                    rvx, wrx = (rvB, wrapB) if rng.random() < 0.5 else (rvA, wrapB)
                    cB, rB = _query(rng, pB, rvx, d, k)
                    g2 = ck.PG(buf, wB.copy(), rvx.copy(), wrap=wrx)
                    ref = ck.PG(pB.copy(), wB.copy(), rvx.copy(), wrap=wrx)
                    got, want = _obs(g2, co(cB), rB), _obs(ref, co(cB), rB)
                    body = (f"buf = pA.copy(); rvx = {L(rvx)}\ng1 = PeriodicGrid(buf, wA.copy(), rvA.copy(), wrap=True); g1.get_localgrid({ct(cA)}, {rA!r})\n"
                            + how.replace("BUF", "buf").replace("NEW", "pB") + f"\ng2 = PeriodicGrid(buf, wB.copy(), rvx.copy(), wrap={wrx})\nref = PeriodicGrid(pB.copy(), wB.copy(), rvx.copy(), wrap={wrx})\n")
                elif sc == "ctor-weights":
                    buf = wA.copy()
                    g1 = ck.PG(pA.copy(), buf, rvA.copy(), wrap=wrapA)
                    _obs(g1, co(cA), rA)
                    how = _write(rng, buf, wB)
                    g2 = ck.PG(pA.copy(), buf, rvA.copy(), wrap=wrapB)
                    ref = ck.PG(pA.copy(), wB.copy(), rvA.copy(), wrap=wrapB)
                    cB, rB = cA, rA
                    got, want = _obs(g2, co(cB), rB), _obs(ref, co(cB), rB)
                    body = (f"buf = wA.copy()\ng1 = PeriodicGrid(pA.copy(), buf, rvA.copy(), wrap={wrapA}); g1.get_localgrid({ct(cA)}, {rA!r})\n"
                            + how.replace("BUF", "buf").replace("NEW", "wB") + f"\ng2 = PeriodicGrid(pA.copy(), buf, rvA.copy(), wrap={wrapB})\nref = PeriodicGrid(pA.copy(), wB.copy(), rvA.copy(), wrap={wrapB})\n")
                elif sc == "query-centre":
                    if oned:
                        continue            # (a float centre is not an array object)
                    g2 = ck.PG(pA.copy(), wA.copy(), rvA.copy(), wrap=wrapA)
                    ref = ck.PG(pA.copy(), wA.copy(), rvA.copy(), wrap=wrapA)
                    buf = cA.copy()
                    g2.get_localgrid(buf, rA)
                    c2 = cA + np.array([rng.choice([-2, 1, 3]) for _ in range(k)]) @ rvA.reshape(k, d) + np.array([rng.uniform(-0.3, 0.3) for _ in range(d)])
                    how = _write(rng, buf, c2)
                    cB, rB = c2, rA
                    got, want = _obs(g2, buf, rB), _obs(ref, c2.copy(), rB)
                    if not np.array_equal(buf, c2):
                        got = got + [buf.copy()]
                        want = want + [c2]
                    body = (f"g2 = PeriodicGrid(pA.copy(), wA.copy(), rvA.copy(), wrap={wrapA}); ref = PeriodicGrid(pA.copy(), wA.copy(), rvA.copy(), wrap={wrapA})\n"
                            f"buf = {L(cA)}; g2.get_localgrid(buf, {rA!r}); c2 = {L(c2)}\n" + how.replace("BUF", "buf").replace("NEW", "c2") + "\n")
                elif sc in ("setter-points", "setter-weights"):
                    g2 = ck.PG(pA.copy(), wA.copy(), rvA.copy(), wrap=False)
                    ref = ck.PG(pA.copy(), wA.copy(), rvA.copy(), wrap=False)
                    attr = "points" if sc == "setter-points" else "weights"
                    v1 = (pA + (rvA.reshape(k, d)[0] if not oned else rvA[0])) if attr == "points" else wA * 2.0
                    v2 = pB if attr == "points" else wB
                    if attr == "points":
                        cB, rB = _query(rng, pB, rvA, d, k)
                    else:
                        cB, rB = cA, rA
                    buf = v1.copy()
                    setattr(g2, attr, buf)
                    _obs(g2, co(cA), rA)
                    how = _write(rng, buf, v2)
                    setattr(g2, attr, buf)                # the same object again, after the in-place edit
                    setattr(ref, attr, np.array(v2, copy=True))
                    got, want = _obs(g2, co(cB), rB), _obs(ref, co(cB), rB)
                    body = (f"g2 = PeriodicGrid(pA.copy(), wA.copy(), rvA.copy()); ref = PeriodicGrid(pA.copy(), wA.copy(), rvA.copy())\n"
                            f"buf = {L(v1)}; g2.{attr} = buf; g2.get_localgrid({ct(cA)}, {rA!r}); v2 = {L(v2)}\n" + how.replace("BUF", "buf").replace("NEW", "v2")
                            + f"\ng2.{attr} = buf; ref.{attr} = v2.copy()\n")
                else:
                    if n < 2:
                        continue
                    g = ck.PG(pA.copy(), wA.copy(), rvA.copy(), wrap=wrapA)
                    i1 = np.array(sorted(rng.sample(range(n), rng.randint(1, n - 1))))
                    i2 = np.array(sorted(rng.sample(range(n), len(i1))))
                    buf = i1.copy()
                    s1 = g[buf]
                    _obs(s1, co(cA), rA)
                    buf[...] = i2
                    g2, ref = g[buf], g[i2.copy()]
                    cB, rB = cA, rA
                    got, want = _obs(g2, co(cB), rB), _obs(ref, co(cB), rB)
                    how = "buf[...] = i2"
                    body = (f"g = PeriodicGrid(pA.copy(), wA.copy(), rvA.copy(), wrap={wrapA}); buf = {L(i1)}; i2 = {L(i2)}\ns1 = g[buf]; s1.get_localgrid({ct(cA)}, {rA!r})\n"
                            "buf[...] = i2\ng2 = g[buf]; ref = g[i2.copy()]\n")
            bad = _diff(got, want) or ("centre array" if len(got) > 8 else None)
            if bad:
                cbt = "buf" if sc == "query-centre" else ct(cB)
                crt = "c2.copy()" if sc == "query-centre" else ct(cB)
                ctx.fail("oracle", "periodicgrid:in-place-argument:" + sc,
                         f"{sc}: after the caller overwrote the array in place ({how.replace('BUF', 'buf').replace('NEW', 'new')}) and used the same object again, "
                         f"`{bad}` differs from the answer on fresh copies of the new contents (dim {d}, {k} lattice vector(s))",
                         witness={"scenario": sc, "pointsA": pA.tolist(), "realvecsA": rvA.tolist(), "pointsB": pB.tolist(), "realvecsB": rvB.tolist(), "center": np.asarray(cB).tolist(), "radius": rB},
                         snippet=head + body + f"A = obs(g2, {cbt}, {rB!r}); B = obs(ref, {crt}, {rB!r})\n"
                         "assert same(A, B), 'the second use of the same (overwritten) array object differs from a fresh copy of the new contents'\n")


# ----------------------------------------------------------------------------
# (26) two instances differing in one hidden dependency, in either order
# ----------------------------------------------------------------------------
def part_instances(ctx, G, ck, base_args, lattice, mult):
    rng = ctx.rng
    L = r4._lit
    for it in range(40 * mult):
        with G("periodicgrid:two-instances", "two instances differing in one dependency"):
            args = _pick(rng, base_args)
            d, oned, k = args["d"], args["oned"], args["k"]
            pA, wA, rvA = np.asarray(args["points"], dtype=float), np.asarray(args["weights"], dtype=float), np.asarray(args["realvecs"], dtype=float)
            pB, wB, rvB = _second(rng, base_args, lattice, args)
            wrapA = rng.random() < 0.4
            var = ["other-cell", "one-vector-differs", "other-points", "wrap-differs", "other-weights", "shared-lattice-object", "one-vector-differs"][it % 7]
            if var == "one-vector-differs":
                # another cell of the same shape that shares all but the last lattice vector (or only its direction) with the first
                rvC = rvA.copy()
                if oned:
                    rvC = rvA * rng.choice([-1.0, 2.0, 0.5])
                elif k == 1:
                    rvC[0] = rvA[0] * rng.choice([-1.0, 2.0, 0.5])
                else:
                    rvC[-1] = rvA[-1] * rng.choice([-1.0, 1.5]) + 0.25 * rvA[0]
                A = (pA, wA, rvA, wrapA)
                B = (pA, wA, rvC, wrapA)
            elif var == "other-cell":
                A = (pA, wA, rvA, wrapA)
                B = (pA, wA, rvB, wrapA)
            elif var == "other-points":
                A = (pA, wA, rvA, wrapA)
                fr = np.asarray(pB, dtype=float).reshape(len(pB), -1) @ np.linalg.pinv(rvB.reshape(k, d))
                pB2 = fr @ rvA.reshape(k, d) + (np.array([[rng.uniform(-1, 1) for _ in range(d)] for _ in range(len(pA))]) if k < d else 0.0)
                B = (pB2[:, 0] if oned else pB2, wA, rvA, wrapA)
            elif var == "wrap-differs":
                A, B = (pA, wA, rvA, True), (pA, wA, rvA, False)
            elif var == "other-weights":
                A, B = (pA, wA, rvA, wrapA), (pA, wB, rvA, wrapA)
            else:
                A, B = (pA, wA, rvA, wrapA), (pB, wB, rvA, not wrapA)        # (built on the very same lattice array object below)
            cA, rA = _query(rng, A[0], A[2], d, k)
            cB, rB = _query(rng, B[0], B[2], d, k)
            co = (lambda c: float(c[0]) if oned else c.copy())
            ct = (lambda c: repr(float(c[0])) if oned else L(c))

            def mk(X, shared=None):
                with warnings.catch_warnings():
                    warnings.simplefilter("ignore")
                    return ck.PG(X[0].copy(), X[1].copy(), X[2].copy() if shared is None else shared, wrap=X[3])
            # isolated answers, each computed before the other instance exists
            isoA = _obs(mk(A), co(cA), rA)
            isoA2 = _obs(mk(A), co(cB), rB)
            order = rng.choice(["A,B", "B,A"])
            shared = rvA.copy() if var == "shared-lattice-object" else None
            if order == "A,B":
                gA = mk(A, shared)
                gB = mk(B, shared)
            else:
                gB = mk(B, shared)
                gA = mk(A, shared)
            isoB = _obs(mk(B), co(cB), rB)
            isoB2 = _obs(mk(B), co(cA), rA)
            ctx.count(["instances", var, order, d, k], nontrivial=True, tag="oracle:r5:instances:" + var + ":" + order)
            seq = rng.choice([("A", "B", "A", "B"), ("B", "A", "B", "A"), ("A", "A", "B", "B"), ("B", "B", "A", "A")])
            msg = None
            # independent of any state the class may share between instances: duality of each grid's reciprocal vectors
            # with ITS OWN lattice, and one query against the direct enumeration
            for who, g, X, c_, r_ in (("A", gA, A, cA, rA), ("B", gB, B, cB, rB)):
                a_ = np.asarray(X[2], dtype=float).reshape(k, d)
                rec = np.asarray(g.recivecs, dtype=float).reshape(k, d)
                P_ = np.asarray(g.points, dtype=float).reshape(-1, d)
                want_, r2_ = r3.brute_np(P_, a_, c_, _afford(g, r_))
                with warnings.catch_warnings():
                    warnings.simplefilter("ignore")
                    got_, ok_ = r3._pairs(P_, g.get_localgrid(co(c_), r2_), a_, d)
                if not np.allclose(rec @ a_.T, np.eye(k), atol=1e-9) or got_ != want_ or not ok_:
                    msg = (f"instance {who} (built {order}): its reciprocal vectors are not dual to its own lattice / its local grid differs from the direct "
                           f"enumeration ({len(got_)} pairs, {len(want_)} expected) although the same grid alone is correct")
                    break
            for step, who in enumerate(seq if msg is None else ()):
                g, iso, iso2 = (gA, isoA, isoA2) if who == "A" else (gB, isoB, isoB2)
                first = step < 2
                c_, r_ = ((cA, rA) if who == "A" else (cB, rB)) if first else ((cB, rB) if who == "A" else (cA, rA))
                want = iso if first else iso2
                bad = _diff(_obs(g, co(c_), r_), want)
                if bad:
                    msg = f"instance {who} (built {order}, query {step} of {','.join(seq)}): `{bad}` differs from the same grid built and queried in isolation"
                    break
            if msg:
                sh = "sh = rvA.copy()\n" if shared is not None else ""
                mkt = (lambda X, nm: f"PeriodicGrid({nm[0]}.copy(), {nm[1]}.copy(), " + ("sh" if shared is not None else f"{nm[2]}.copy()") + f", wrap={X[3]})")
                names = {"A": ("pA", "wA", "rvA"), "B": ("pB", "wB", "rvB")}
                text = (PRE + OBS_TXT + f"pA = {L(A[0])}; wA = {L(A[1])}; rvA = {L(A[2])}\npB = {L(B[0])}; wB = {L(B[1])}; rvB = {L(B[2])}\n"
                        f"cA = {ct(cA)}; rA = {rA!r}; cB = {ct(cB)}; rB = {rB!r}\n"
                        f"isoA = obs(PeriodicGrid(pA.copy(), wA.copy(), rvA.copy(), wrap={A[3]}), cA, rA); isoA2 = obs(PeriodicGrid(pA.copy(), wA.copy(), rvA.copy(), wrap={A[3]}), cB, rB)\n"
                        f"isoB = obs(PeriodicGrid(pB.copy(), wB.copy(), rvB.copy(), wrap={B[3]}), cB, rB); isoB2 = obs(PeriodicGrid(pB.copy(), wB.copy(), rvB.copy(), wrap={B[3]}), cA, rA)\n" + sh
                        + (f"gA = {mkt(A, names['A'])}; gB = {mkt(B, names['B'])}\n" if order == "A,B" else f"gB = {mkt(B, names['B'])}; gA = {mkt(A, names['A'])}\n")
                        + "for step, who in enumerate(" + repr(seq) + "):\n"
                        "    g, iso, iso2 = (gA, isoA, isoA2) if who == 'A' else (gB, isoB, isoB2)\n"
                        "    c, r = ((cA, rA) if who == 'A' else (cB, rB)) if step < 2 else ((cB, rB) if who == 'A' else (cA, rA))\n"
                        "    assert same(obs(g, c, r), iso if step < 2 else iso2), f'instance {who}, query {step}: differs from the grid in isolation'\n"
                        f"for g, rv in ((gA, rvA), (gB, rvB)):\n    assert np.allclose(np.asarray(g.recivecs, dtype=float).reshape({k}, {d}) @ rv.reshape({k}, {d}).T, np.eye({k}), atol=1e-9), "
                        "'reciprocal vectors of an instance are not dual to its own lattice'\n")
                ctx.fail("oracle", "periodicgrid:two-instances:" + var, f"{var}: {msg} (dim {d}, {k} lattice vector(s))",
                         witness={"variant": var, "order": order, "pointsA": A[0].tolist(), "realvecsA": A[2].tolist(), "pointsB": B[0].tolist(), "realvecsB": B[2].tolist()}, snippet=text)


# ----------------------------------------------------------------------------
# (21) sizes around block boundaries, (22) order of the points
# ----------------------------------------------------------------------------
def images_vec(P, a, c, r):
    """Image enumeration vectorised over the points (many points, few translations): sorted (i, j) pairs, and the
    smallest relative gap |dist - r| / r met (to keep the radius off every distance)."""
    P = np.asarray(P, dtype=float)
    P = P.reshape(len(P), -1)
    d = P.shape[1]
    a = np.asarray(a, dtype=float).reshape(-1, d)
    k = len(a)
    c = np.atleast_1d(np.asarray(c, dtype=float))
    if k:
        b = np.linalg.pinv(a).T
        bn = np.linalg.norm(b, axis=1)
        mid = (c - P) @ b.T
        lo = np.floor(mid.min(axis=0) - bn * r).astype(int) - 1
        hi = np.ceil(mid.max(axis=0) + bn * r).astype(int) + 1
        js = itertools.product(*[range(lo[t], hi[t] + 1) for t in range(k)])
    else:
        js = [()]
    out, gap = [], math.inf
    for j in js:
        dd = np.linalg.norm(P + (np.array(j, dtype=float) @ a if k else 0.0) - c, axis=1)
        if len(dd):
            gap = min(gap, float(np.abs(dd - r).min()))
        for i in np.nonzero(dd <= r)[0]:
            out.append((int(i), tuple(int(t) for t in j)))
    return sorted(out), gap


def part_sizes(ctx, G, ck, mult):
    rng = ctx.rng
    sizes = [1024, 1025, 4096, 4097, 20000, 20001, 31234] + ([65536, 65537, 2 ** 19 + 1] if ctx.thorough else [])
    for N in sizes:
        for rep in range(2 if N < 10000 else 1):
            with G("periodicgrid.get_localgrid:sizes", f"{N} points"):
                oned = rng.random() < 0.3
                d = 1 if oned else rng.choice([1, 2, 3])
                k = 1 if oned else rng.randint(0, min(d, 2))
                a = np.zeros((k, d))
                for t in range(k):
                    a[t, t] = rng.choice([1.0, -1.5, 2.0])
                    if d > 1:
                        a[t, (t + 1) % d] = rng.choice([0.0, 0.25, -0.5])
                sd = rng.randrange(2 ** 31)
                rs = np.random.default_rng(sd)
                pts = rs.uniform(-0.2, 1.2, size=(N, d)) * 2.0
                w = rs.uniform(0.1, 2.0, size=N)
                wrap = rng.random() < 0.4
                with warnings.catch_warnings():
                    warnings.simplefilter("ignore")
                    g = ck.PG(pts[:, 0].copy() if oned else pts.copy(), w.copy(), (a[:, 0].copy() if oned else a.copy()) if k else None, wrap=wrap)
                    P = np.asarray(g.points, dtype=float).reshape(N, d)
                    c = P[rng.randrange(N)] + rs.uniform(-0.3, 0.3, size=d)
                    r = rng.choice([0.05, 0.2, 0.6]) if d > 1 else rng.choice([0.01, 0.05])
                    for _ in range(40):
                        want, gap = images_vec(P, a, c, r)
                        if gap > 1e-9 * max(r, 1.0):
                            break
                        r *= 1 + 3e-6
                    cobj = float(c[0]) if oned else c
                    lg = g.get_localgrid(cobj, r)
                    got, ok = r3._pairs(P, lg, a, d)
                    # additivity over a split of the same points (an independent reference for the element-wise part)
                    cut = rng.choice([N // 2, 1, N - 1, 1000, N - 1000])
                    parts = []
                    for sl, off in ((slice(0, cut), 0), (slice(cut, N), cut)):
                        sub = ck.PG((P[sl, 0] if oned else P[sl]).copy(), w[sl].copy(), (a[:, 0].copy() if oned else a.copy()) if k else None)
                        lgs = sub.get_localgrid(cobj, r)
                        pr, oks = r3._pairs(P[sl], lgs, a, d)
                        parts += [(i + off, j) for i, j in pr]
                ctx.count(["sizes", N, d, k, oned, len(want)], nontrivial=bool(want), tag=f"oracle:r5:sizes:{N}")
                ctx.tagc("oracle:r5:sizes:images", len(want))
                wts_ok = np.array_equal(np.asarray(lg.weights), np.asarray(g.weights)[np.asarray(lg.indices, dtype=int)])
                if got != want or sorted(parts) != want or not ok or not wts_ok or len(set(got)) != len(got):
                    miss, extra = sorted(set(want) - set(got))[:4], sorted(set(got) - set(want))[:4]
                    ctx.fail("oracle", "periodicgrid.get_localgrid:images:sizes",
                             f"{N} points (dim {d}, {k} lattice vector(s), wrap={wrap}): {len(got)} (index, translation) pairs, direct enumeration {len(want)}, "
                             f"union over a split at {cut}: {len(parts)}; missing {miss}, spurious {extra}",
                             witness={"N": N, "seed": sd, "realvecs": a.tolist(), "center": c.tolist(), "radius": r, "wrap": wrap},
                             snippet=PRE + "import itertools\n" + f"N, d, k = {N}, {d}, {k}; a = {r4._lit(a)}; oned = {oned}\n"
                             f"rs = np.random.default_rng({sd}); pts = rs.uniform(-0.2, 1.2, size=(N, d)) * 2.0; w = rs.uniform(0.1, 2.0, size=N)\n"
                             f"g = PeriodicGrid(pts[:, 0].copy() if oned else pts.copy(), w.copy(), (a[:, 0].copy() if oned else a.copy()) if k else None, wrap={wrap})\n"
                             f"P = np.asarray(g.points, dtype=float).reshape(N, d)\nc = np.array({c.tolist()!r}); r = {r!r}\nlg = g.get_localgrid(float(c[0]) if oned else c, r)\n"
                             "b = np.linalg.pinv(a).T if k else np.zeros((0, d))\nL_ = np.asarray(lg.points, dtype=float).reshape(len(lg.indices), d)\n"
                             "got = sorted((int(i), tuple(int(v) for v in np.rint(b @ (L_[t] - P[i])))) for t, i in enumerate(lg.indices))\n"
                             "want = []\nmid = (c - P) @ b.T if k else np.zeros((N, 0)); bn = np.linalg.norm(b, axis=1) if k else np.zeros(0)\n"
                             "rng_ = [range(int(np.floor(mid[:, t].min() - bn[t] * r)) - 1, int(np.ceil(mid[:, t].max() + bn[t] * r)) + 2) for t in range(k)]\n"
                             "for j in itertools.product(*rng_):\n    dd = np.linalg.norm(P + (np.array(j, dtype=float) @ a if k else 0.0) - c, axis=1)\n"
                             "    want += [(int(i), tuple(int(t) for t in j)) for i in np.nonzero(dd <= r)[0]]\n"
                             "assert got == sorted(want), f'{len(got)} pairs, direct enumeration {len(want)}'\n"
                             "assert np.array_equal(lg.weights, np.asarray(g.weights)[lg.indices]), 'weights'\n"
                             f"parts = []\nfor sl, off in ((slice(0, {cut}), 0), (slice({cut}, N), {cut})):\n"
                             "    sub = PeriodicGrid((P[sl, 0] if oned else P[sl]).copy(), w[sl].copy(), (a[:, 0].copy() if oned else a.copy()) if k else None)\n"
                             "    ls = sub.get_localgrid(float(c[0]) if oned else c, r); Ls = np.asarray(ls.points, dtype=float).reshape(len(ls.indices), d)\n"
                             "    parts += [(int(i) + off, tuple(int(v) for v in np.rint(b @ (Ls[t] - P[sl][i])))) for t, i in enumerate(ls.indices)]\n"
                             "assert sorted(parts) == sorted(want), 'the union of the local grids of two parts of the points differs from the local grid of all points'\n")


def part_order(ctx, G, ck, base_args, mult):
    rng = ctx.rng
    L = r4._lit
    for _ in range(24 * mult):
        with G("periodicgrid.get_localgrid:order", "order of the points"):
            args = base_args(rng)
            if args["rtol"] != 1e-11 or len(args["weights"]) < 3:
                continue
            d, oned, k = args["d"], args["oned"], args["k"]
            p, w = np.asarray(args["points"], dtype=float), np.asarray(args["weights"], dtype=float)
            rv = None if args["realvecs"] is None else np.asarray(args["realvecs"], dtype=float)
            n = len(w)
            kind = rng.choice(["ascending", "descending", "shuffled", "reversed"])
            key = p if oned else p[:, 0]
            perm = {"ascending": np.argsort(key, kind="stable"), "descending": np.argsort(-key, kind="stable"), "reversed": np.arange(n)[::-1],
                    "shuffled": np.array(rng.sample(range(n), n))}[kind]
            with warnings.catch_warnings():
                warnings.simplefilter("ignore")
                g0 = ck.PG(p.copy(), w.copy(), None if rv is None else rv.copy(), wrap=args["wrap"])
                g1 = ck.PG(p[perm].copy(), w[perm].copy(), None if rv is None else rv.copy(), wrap=args["wrap"])
                a = r4._lat(g0, d)
                P0 = np.asarray(g0.points, dtype=float).reshape(n, d)
                scale = float(np.linalg.norm(a, axis=1).min()) if k else 1.0
                c = P0[rng.randrange(n)] + np.array([rng.uniform(-0.4, 0.4) for _ in range(d)]) * scale
                r = rng.choice([0.3, 0.8, 1.3]) * scale
                if k:
                    r = min(r, 8.0 / float(np.linalg.norm(np.linalg.pinv(a).T, axis=1).max()))
                want, r = r3.brute_np(P0, a, c, r, scale=scale)
                cobj = float(c[0]) if oned else c
                l0, l1 = g0.get_localgrid(cobj, r), g1.get_localgrid(cobj, r)
                s0, ok0 = r3._pairs(P0, l0, a, d)
                s1, ok1 = r3._pairs(np.asarray(g1.points, dtype=float).reshape(n, d), l1, a, d)
            s1m = sorted((int(perm[i]), j) for i, j in s1)
            ctx.count(["order", kind, d, k, n], nontrivial=True, tag="oracle:r5:order:" + kind)
            if s0 != want or s1m != want or not (ok0 and ok1) or not np.array_equal(np.asarray(l1.weights), w[perm][np.asarray(l1.indices, dtype=int)]):
                ctx.fail("oracle", "periodicgrid.get_localgrid:images:order",
                         f"points in {kind} order: {len(s1m)} (index, translation) pairs, in the given order {len(s0)}, direct enumeration {len(want)} "
                         f"(dim {d}, {k} lattice vector(s), wrap={args['wrap']})",
                         witness={"points": p.tolist(), "perm": perm.tolist(), "center": c.tolist(), "radius": r},
                         snippet=PRE + f"p = {L(p)}; w = {L(w)}; rv = {'None' if rv is None else L(rv)}; perm = {L(perm)}\n"
                         f"g0 = PeriodicGrid(p.copy(), w.copy(), rv, wrap={args['wrap']}); g1 = PeriodicGrid(p[perm].copy(), w[perm].copy(), rv, wrap={args['wrap']})\n"
                         f"c = {repr(float(c[0])) if oned else L(c)}; r = {r!r}\nl0, l1 = g0.get_localgrid(c, r), g1.get_localgrid(c, r)\n"
                         "key = lambda lg, pm: sorted((int(pm[i]), tuple(np.round(np.atleast_1d(x), 9))) for i, x in zip(lg.indices, lg.points))\n"
                         "assert key(l0, np.arange(len(w))) == key(l1, perm), 'the local grid depends on the order of the points'\n")


# ----------------------------------------------------------------------------
# (23) extended / reduced precision arguments given directly
# ----------------------------------------------------------------------------
def part_precision(ctx, G, ck, lattice, mult):
    rng = ctx.rng
    L = r4._lit
    for _ in range(24 * mult):
        with G("periodicgrid.get_localgrid:precision", "extended / reduced precision arguments"):
            oned = rng.random() < 0.25
            d = 1 if oned else rng.choice([1, 2, 3])
            k = 1 if oned else rng.randint(0, d)
            rv = lattice(rng, d, k, oned) if k else (np.zeros((0,)) if oned else np.zeros((0, d)))
            A = np.asarray(rv, dtype=float).reshape(k, d)
            n = rng.randint(1, 5)
            # values exactly representable in float16 (multiples of 1/64, |x| < 8): every kind holds the same numbers
            p64 = np.array([[rng.randrange(-256, 257) / 64.0 for _ in range(d)] for _ in range(n)])
            if len({tuple(x) for x in p64.tolist()}) < n:
                continue
            if k:
                fr = p64 @ np.linalg.pinv(A)
                if np.any((np.abs(fr - np.rint(fr)) < 1e-6) & p64.any(axis=1)[:, None]):
                    continue
            w64 = np.array([rng.randrange(1, 129) / 64.0 for _ in range(n)])
            c64 = p64[rng.randrange(n)] + np.array([rng.randrange(-32, 33) / 64.0 for _ in range(d)])
            scale = float(np.linalg.norm(A, axis=1).min()) if k else 1.0
            r64 = rng.choice([0.25, 0.5, 1.0, 1.5])
            if k:
                r64 = min(r64, 2.0 ** math.floor(math.log2(8.0 / float(np.linalg.norm(np.linalg.pinv(A).T, axis=1).max()))))
            kp, kw, kc, kr = (rng.choice(["float64", "longdouble", "float16", "float32"]) for _ in range(4))
            if rng.random() < 0.3 and np.array_equal(p64, np.rint(p64)):
                kp = "int64"
            p = (p64[:, 0] if oned else p64).astype(kp)
            w = w64.astype(kw)
            with warnings.catch_warnings():
                warnings.simplefilter("ignore")
                ref = ck.PG((p64[:, 0] if oned else p64).copy(), w64.copy(), np.array(rv, copy=True) if k else None, wrap=False)
                Pr = np.asarray(ref.points, dtype=float).reshape(n, d)
                want, r_used = r3.brute_np(Pr, A, c64, r64, scale=scale)
                if r_used != r64:
                    continue            # (a tie at a representable radius: another case)
                cobj = (np.dtype(kc).type(c64[0]) if oned else c64.astype(kc))
                robj = np.dtype(kr).type(r64)
                keep = [np.array(p, copy=True), np.array(w, copy=True), np.array(cobj, copy=True)]
                text = (PRE + f"p = {L(p)}; w = {L(w)}; rv = {L(np.asarray(rv)) if k else 'None'}\nc = {L(np.asarray(cobj))}{'[()]' if oned else ''}; r = np.{kr}({r64!r})\n"
                        "g = PeriodicGrid(p, w, rv)\nl1 = g.get_localgrid(c, r); l2 = g.get_localgrid(c, r)\n"
                        f"ref = PeriodicGrid(np.asarray(p, dtype=float), np.asarray(w, dtype=float), rv).get_localgrid({repr(float(c64[0])) if oned else L(c64)}, {r64!r})\n"
                        "assert sorted(map(int, l1.indices)) == sorted(map(int, ref.indices)) and np.array_equal(l1.indices, l2.indices), 'other points than the float64 computation'\n"
                        "assert np.allclose(np.sort(np.asarray(l1.points, dtype=float), axis=0), np.sort(np.asarray(ref.points, dtype=float), axis=0), atol=1e-3)\n")
                ctx.count(["precision", kp, kw, kc, kr, d, k], nontrivial=True, tag=f"oracle:r5:precision:points:{kp}")
                ctx.tagc(f"oracle:r5:precision:centre:{kc}")
                ctx.tagc(f"oracle:r5:precision:radius:{kr}")
                try:
                    g = ck.PG(p, w, np.array(rv, copy=True) if k else None, wrap=False)
                    l1 = g.get_localgrid(cobj, robj)
                    l2 = g.get_localgrid(cobj, robj)
                except Exception as e:  # noqa: BLE001
                    ctx.fail("oracle", "periodicgrid.get_localgrid:raises:precision", f"points {kp}, weights {kw}, centre {kc}, radius {kr}: {type(e).__name__}: {str(e)[:90]} "
                             "(the float64 computation is accepted)", witness={"points": p64.tolist(), "kinds": [kp, kw, kc, kr]}, snippet=text)
                    continue
            Pg = np.asarray(g.points, dtype=float).reshape(n, d)
            s1, ok1 = r3._pairs(Pg, l1, A, d)
            s2, ok2 = r3._pairs(Pg, l2, A, d)
            unchanged = np.array_equal(keep[0], p) and np.array_equal(keep[1], w) and np.array_equal(keep[2], np.asarray(cobj))
            wts = np.array_equal(np.asarray(l1.weights, dtype=float), w64[np.asarray(l1.indices, dtype=int)])
            if s1 != want or s2 != want or not (ok1 and ok2) or not unchanged or not wts:
                what = "the arguments were changed" if not unchanged else ("the second call with the same objects differs" if s1 == want and s2 != want else
                                                                          ("weights differ" if s1 == want else "other (index, translation) pairs than the float64 computation"))
                ctx.fail("oracle", "periodicgrid.get_localgrid:images:precision", f"points {kp}, weights {kw}, centre {kc}, radius {kr} (values exactly representable in every "
                         f"kind; dim {d}, {k} lattice vector(s)): {what}: {s1[:6]} vs {want[:6]}", witness={"points": p64.tolist(), "center": c64.tolist(), "radius": r64, "kinds": [kp, kw, kc, kr]},
                         snippet=text)
    # recorded only: lattice vectors in extended precision are rejected by numpy.linalg
    with G("periodicgrid.__init__:longdouble-realvecs", "longdouble lattice vectors"):
        try:
            with warnings.catch_warnings():
                warnings.simplefilter("ignore")
                ck.PG(np.array([[0.25, 0.5]]), np.ones(1), np.eye(2).astype(np.longdouble))
            ctx.info("PeriodicGrid accepts N-D lattice vectors of dtype longdouble")
        except TypeError as e:
            ctx.info(f"out of scope (rejection of the argument type): N-D lattice vectors of dtype longdouble / float16 raise TypeError from numpy.linalg ({str(e)[:60]})")


# ----------------------------------------------------------------------------
def oracle_r5(ctx, budget, M, base_args, lattice, G):
    ck = r4.Checker(ctx, M)
    mult = (1 if budget == "small" else 8) * (3 if ctx.thorough else 1)
    with G("periodicgrid:in-place-argument", "in-place edits between two uses of one array object"):
        part_inplace(ctx, G, ck, base_args, lattice, mult)
    with G("periodicgrid:two-instances", "two instances"):
        part_instances(ctx, G, ck, base_args, lattice, mult)
    with G("periodicgrid.get_localgrid:sizes", "sizes around block boundaries"):
        part_sizes(ctx, G, ck, 1)
    with G("periodicgrid.get_localgrid:order", "order of the points"):
        part_order(ctx, G, ck, base_args, mult)
    with G("periodicgrid.get_localgrid:precision", "precision of the arguments"):
        part_precision(ctx, G, ck, lattice, mult)

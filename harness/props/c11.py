"""C11 — periodic local grids contain every periodic image inside the sphere exactly once."""
import importlib
import itertools
import math

import numpy as np

from ..common import Ctx, driver_batch, f2b, fmat, fvec, vec
from . import c11_r3 as r3
from . import c11_r4 as r4

# (declarations for the runner follow the helpers)


def _mods():
    m = {}
    for n in ("basegrid", "periodicgrid"):
        m[n] = importlib.import_module("grid." + n)
    return m


# ----------------------------------------------------------------------------
# generators
# ----------------------------------------------------------------------------
def lattice(rng, d, k, oned):
    """k lattice vectors in dimension d: skewed / negative / long / short / axis-aligned."""
    if oned:
        return np.array([rng.choice([1.0, -1.0, 0.5, -2.5, 3.0, rng.uniform(0.3, 3), -rng.uniform(0.3, 3)])])
    style = rng.choice(["axis", "skew", "skew", "random", "longshort", "negative", "veryskew", "lengths"])
    if k == 0:
        return np.zeros((0, d))
    if style == "veryskew" and k >= 2:
        # a very skewed cell: the second vector is almost parallel to the first (5..12 degrees),
        # plane spacings far smaller than the vector lengths
        for _ in range(50):
            a = np.array([[rng.uniform(-1, 1) for _ in range(d)] for _ in range(k)])
            a[0] /= max(np.linalg.norm(a[0]), 1e-3)
            perp = a[1] - (a[1] @ a[0]) * a[0]
            if np.linalg.norm(perp) < 1e-2:
                continue
            perp /= np.linalg.norm(perp)
            ang = math.radians(rng.choice([5.0, 8.0, 12.0]))
            a[1] = rng.choice([1.0, -1.0, 1.7]) * (math.cos(ang) * a[0] + math.sin(ang) * perp)
            if k == 3:
                a[2] *= 1.0 / max(np.linalg.norm(a[2]), 1e-3)
            s = np.linalg.svd(a, compute_uv=False)
            if s.min() > 0.03 * s.max():
                return a
    if style == "lengths" and k >= 2:
        # lattice vectors of very different lengths (1 : 30 .. 1 : 200), moderately skewed
        for _ in range(50):
            a = np.array([[rng.uniform(-1, 1) for _ in range(d)] for _ in range(k)])
            for i in range(k):
                a[i] /= max(np.linalg.norm(a[i]), 1e-3)
            g = a @ a.T
            if np.abs(g - np.eye(k)).max() > 0.8:
                continue
            lens = [1.0] + [rng.choice([30.0, 100.0, 200.0, 1 / 30.0]) for _ in range(k - 1)]
            rng.shuffle(lens)
            return a * np.array(lens)[:, None]
    if style in ("veryskew", "lengths"):
        style = "skew"
    while True:
        if style == "axis":
            a = np.zeros((k, d))
            for i, j in enumerate(rng.sample(range(d), k)):
                a[i, j] = rng.choice([1.0, 0.5, 2.0, -1.0, -1.5])
        elif style == "skew":
            a = np.eye(d)[:k] * rng.choice([1.0, 1.5])
            a = a + np.array([[rng.choice([0.0, 0.25, -0.5, 0.75]) for _ in range(d)] for _ in range(k)]) * (1 - np.eye(d)[:k])
        elif style == "random":
            a = np.array([[rng.uniform(-1.5, 1.5) for _ in range(d)] for _ in range(k)])
        elif style == "longshort":
            a = np.array([[rng.uniform(-1, 1) for _ in range(d)] for _ in range(k)])
            for i in range(k):
                a[i] *= rng.choice([0.3, 1.0, 4.0]) / max(np.linalg.norm(a[i]), 1e-3)
        else:
            a = -np.eye(d)[:k] * rng.choice([1.0, 2.0]) + np.array([[rng.choice([0.0, -0.25]) for _ in range(d)] for _ in range(k)])
        s = np.linalg.svd(a, compute_uv=False)
        if s.min() > 0.15 * s.max():   # comfortably non-singular (image boxes stay small)
            return a


def periodic_args(rng):
    """-> dict(points, weights, realvecs|None, wrap, oned, d, k)"""
    oned = rng.random() < 0.2
    d = 1 if oned else rng.choice([1, 2, 2, 3, 3])
    k = rng.randrange(0, d + 1)
    if oned and k == 0:
        rv = None if rng.random() < 0.5 else np.zeros((0,))
    elif k == 0 and rng.random() < 0.5:
        rv = None
    else:
        rv = lattice(rng, d, k, oned)
    n = rng.choice([1, 1, 2, 3, 4, 6, 9])
    a = np.zeros((0, d)) if rv is None or rv.size == 0 else np.asarray(rv, dtype=float).reshape(k, d)
    spread = rng.choice(["cell", "cell", "outside", "wide"])
    # fractional coordinates along the lattice vectors (kept away from integers: wrapping
    # under rounding is not part of the claim) + a component off the lattice span
    lo, hi = {"cell": (0.03, 0.97), "outside": (-2.9, 3.9), "wide": (-0.45, 1.55)}[spread]
    pts = np.zeros((n, d))
    for i in range(n):
        while True:
            f = np.array([rng.uniform(lo, hi) for _ in range(k)])
            if all(abs(x - round(x)) > 1e-6 for x in f):
                break
        pts[i] = (f @ a if k else 0.0) + (np.array([rng.uniform(-1, 1) for _ in range(d)]) if k < d else 0.0)
        if k and k < d:
            pass
    if oned:
        pts = pts[:, 0]
    w = np.array([rng.choice([1.0, 0.5, rng.uniform(0.1, 2)]) for _ in range(n)])
    wrap = rng.random() < 0.4
    # dtype / memory layout of the array arguments (the float64 computation on the stored values is
    # the reference): at most one of points / realvecs in single precision
    from .c10 import _dress
    tags = []
    rtol = RTOL
    q = rng.random()
    if q < 0.35:
        pts = _dress(rng, pts, tags)
        if tags and tags[0] == "int" and k:
            # integral coordinates sit on cell boundaries of integral lattices: keep them off
            pts = np.asarray(pts, dtype=float) + 0.0
            pts = (pts + np.array([rng.uniform(0.05, 0.45) for _ in range(pts.size)]).reshape(pts.shape)).astype(np.float32)
            tags[0] = "f32"
        tags[0] = "points:" + tags[0]
    elif q < 0.5 and rv is not None and np.size(rv):
        if oned and rng.random() < 0.5 and float(rv[0]) == round(float(rv[0])):
            rv = rv.astype(np.int64)
            tags.append("realvecs:int-1d")
        elif oned or (lambda s: s.min() > 0.15 * s.max())(np.linalg.svd(np.asarray(rv, dtype=float).reshape(k, d), compute_uv=False)):
            # (single precision only for well-conditioned cells: the pseudo-inverse is then accurate to ~1e-6)
            rv = np.asarray(rv).astype(np.float32)
            rtol = 3e-6      # reciprocal vectors and spacings come out in single precision
            tags.append("realvecs:f32")
    if rng.random() < 0.3:
        wt = []
        w = _dress(rng, w, wt)
        tags.append("weights:" + wt[0])
    return dict(points=pts, weights=w, realvecs=rv, wrap=wrap, oned=oned, d=d, k=(0 if rv is None else k), spread=spread,
                dress=tags, rtol=rtol)


def build_periodic(rng, M):
    """A PeriodicGrid (for the history checks of C10)."""
    import warnings
    a = periodic_args(rng)
    with warnings.catch_warnings():
        warnings.simplefilter("ignore")
        g = M["periodicgrid"].PeriodicGrid(a["points"], a["weights"], a["realvecs"], wrap=a["wrap"])
    return g


def brute_images(pts, a, c, r, rng=None, scale=None, zero_tie_ok=False, margin=1.0):
    """All (i, j) with ||x_i + j.a - c|| <= r by direct enumeration over a generous per-point
    box.  The radius is moved away from every candidate distance (relative margin) first.
    a: (k, d) lattice vectors; pts: (n,) or (n, d).   -> (sorted list of (i, tuple j)), radius
    (With lattice vectors even the exact tie distance == radius == 0 is avoided: the integer box
    of the implementation is computed from rounded fractional coordinates.)"""
    rows = np.asarray(pts, dtype=float).reshape(len(pts), -1)
    a = np.asarray(a, dtype=float).reshape(-1, rows.shape[1]) if np.size(a) else np.zeros((0, rows.shape[1]))
    cc = np.atleast_1d(np.asarray(c, dtype=float))
    k = len(a)
    if scale is None:
        scale = float(np.linalg.norm(a, axis=1).min()) if k else 1.0
    b = np.linalg.pinv(a).T if k else np.zeros((0, rows.shape[1]))   # only to centre the search box
    bn = np.linalg.norm(b, axis=1) if k else np.zeros(0)

    def candidates(rr):
        out = []
        for i, x in enumerate(rows):
            mid = b @ (cc - x) if k else np.zeros(0)
            rngs = [range(int(math.floor(mid[t] - bn[t] * rr)) - 2, int(math.ceil(mid[t] + bn[t] * rr)) + 3) for t in range(k)]
            for j in itertools.product(*rngs):
                img = x + (np.array(j, dtype=float) @ a if k else 0.0)
                out.append((i, j, math.sqrt(math.fsum((u - v) ** 2 for u, v in zip(img, cc)))))
        return out

    for _ in range(80):
        cand = candidates(r * 1.001 + 1e-6 * scale)
        tie = [1 for (i, j, dd) in cand
               if abs(dd - r) <= margin * (1e-9 * scale + 1e-7 * max(dd, r)) and not (zero_tie_ok and dd == 0.0 and r == 0.0 and not any(j))]
        if not tie:
            break
        r = r * (1 + 3e-6) + 3e-9 * scale
    return sorted((i, tuple(int(t) for t in j)) for (i, j, dd) in cand if dd <= r), float(r)


# ----------------------------------------------------------------------------
# declarations for the runner
# ----------------------------------------------------------------------------
LEVEL = "proof"
LEVEL_TEXT = (
    "Lean theorems over the reals for any dimension d, any number K <= d of lattice vectors of any orientation/sign, "
    "assuming only the duality contract b_k.a_l = delta_kl of the reciprocal vectors (SVD pseudo-inverse in the code): "
    "completeness (every (point, integer translation) whose translated position is within r lies in the enumerated "
    "ceil/floor box and is found), soundness (every entry is within r, carries the parent's weight and index, stored "
    "position = parent point + lattice translation), no duplicates, the constructor/setter establish the interval "
    "invariant incl. wrapping into [0,1), K = 0 coincides with the plain grid of C10 for every finite radius, an empty "
    "sphere gives the empty grid. Tie to the code: PeriodicGrid.__init__, the points setter, __getitem__ and get_localgrid "
    "(incl. the loop body) are translated statement by statement (harness/translate/localgrid.py -> Gen/LocalGrid.lean, "
    "regenerated on every run) and proved equal to the hand model (gen_init_eq, gen_pquery_eq, ...), so the theorems hold "
    "for the generated text; the driver executes the generated definitions, compared with the implementation on random lattices "
    "(dims 1..3, K = 0..dim, skewed/negative/long/short, wrapped or not, points outside the cell, far centres). "
    "The constructor's warning block (the hard-coded 1.1) is translated separately (harness/translate/periodicgrid_init.py -> "
    "Gen/PeriodicGridInit.lean): it never raises, warns exactly when two stored points differ by more than 11/10 in a fractional "
    "coordinate, never with wrap=True, and without it get_localgrid tries at most 2r/s + 21/10 translations per lattice direction."
)
TECHNIQUE = "Lean 4 proof (Cauchy-Schwarz box bound, product-of-ranges enumeration) + differential runs + brute-force image enumeration"
GEN = ["localgrid", "periodicgrid_init"]
LEAN_MODULES = ["GridVerif.Props.C11", "GridVerif.Props.C11.Gen", "GridVerif.Props.C11.Warn", "GridVerif.Props.C11.Indep", "GridVerif.Props.C11.Handed"]
THEOREMS = [
    "GridVerif.C11.ilc_in_box",
    "GridVerif.C11.periodic_complete",
    "GridVerif.C11.periodic_sound",
    "GridVerif.C11.periodic_nodup",
    "GridVerif.C11.construct_inv",
    "GridVerif.C11.oned_dual",
    "GridVerif.C11.wrap_spec",
    "GridVerif.C11.setPoints_inv",
    "GridVerif.C11.setWeights_inv",
    "GridVerif.C11.step_inv",
    "GridVerif.C11.pinv_history",
    "GridVerif.C11.getLocalgrid_spec",
    "GridVerif.C11.periodic_localgrid_correct",
    "GridVerif.C11.periodic_empty_sphere",
    "GridVerif.C11.periodic_query_rejects",
    "GridVerif.C11.no_lattice_is_grid",
    "GridVerif.C11.periodic_getitem_spec",
    "GridVerif.C11.recivec_norm_pos",
    "GridVerif.C11.exDual",
    # tie to the source: theorems about the generated definitions (Gen/LocalGrid.lean)
    "GridVerif.C11.gen_psetter_effects",
    "GridVerif.C11.gen_ranges_eq",
    "GridVerif.C11.gen_init_eq",
    "GridVerif.C11.gen_ppoints_set_eq",
    "GridVerif.C11.gen_pweights_set_eq",
    "GridVerif.C11.gen_pgetitem_eq",
    "GridVerif.C11.pyFor_body_spec",
    "GridVerif.C11.gen_pquery_eq",
    "GridVerif.C11.genPStep_eq_step",
    "GridVerif.C11.genPRun_eq_run",
    "GridVerif.C11.gen_construct_inv",
    "GridVerif.C11.gen_wrap_spec",
    "GridVerif.C11.gen_setPoints_inv",
    "GridVerif.C11.gen_ilc_in_box",
    "GridVerif.C11.gen_getLocalgrid_spec",
    "GridVerif.C11.gen_periodic_localgrid_correct",
    "GridVerif.C11.gen_periodic_getitem_spec",
    # third round: the warning block of the constructor (Gen/PeriodicGridInit.lean, translated by
    # harness/translate/periodicgrid_init.py) — window of the hard-coded 1.1, "never when wrap==True"
    "GridVerif.C11.gen_init_warning_site",
    "GridVerif.C11.gen_init_warning_total",
    "GridVerif.C11.gen_init_warning_eq",
    "GridVerif.C11.gen_init_warning_iff",
    "GridVerif.C11.construct_intervals_attained",
    "GridVerif.C11.gen_init_warning_spec",
    "GridVerif.C11.gen_wrap_never_warns",
    "GridVerif.C11.gen_nowarn_range_small",
    # sixth round: which pairs are listed does not depend on the weights (stored change C11-i: hits with weight 0 dropped)
    "GridVerif.C11.gen_pquery_closed",
    "GridVerif.C11.gen_localgrid_pairs_independent_of_weights",
    # sixth round: stored reciprocal vectors dual to the lattice for either handedness (stored change C11-h)
    "GridVerif.C11.gen_init_recivecs_dual",
    "GridVerif.C11.exL_left_handed",
    "GridVerif.C11.exLDual",
    "GridVerif.C11.gen_init_left_handed",
]
RULE = (
    "one evaluation = one operation (constructor incl. wrapping, get_localgrid, points=, weights=, __getitem__) run on "
    "PeriodicGrid and on the Lean model (entries sorted by (integer translation, parent index); integers exact, floats "
    "rtol 1e-11 of the lattice scale); non-trivial = a query on a grid with >= 1 lattice vector whose result holds "
    ">= 2 distinct translations, or any query on a skewed/negative lattice (hash of the whole line); the constructor's "
    "warning (PeriodicGridWarning yes/no, category, attribution to the caller) is compared with the generated warning block; "
    "rejected constructor calls are compared by exception class"
)
TRUSTED_BASE = [
    "Lean 4.33 kernel; axioms propext, Classical.choice, Quot.sound only (audited per theorem)",
    "translator harness/translate/localgrid.py (Python AST -> Gen/LocalGrid.lean) and the vocabulary Model/LocalGridPy.lean (row-list form of 1-D/N-D arrays; the constructor's ndim/shape prelude is pinned text); generated definitions executed by the driver and compared with the implementation",
    "hand model Model/Periodic.lean of PeriodicGrid (proved equal to the generated definitions)",
    "duality contract of the reciprocal vectors (np.linalg.svd pseudo-inverse), checked numerically on every generated lattice",
    "contract of scipy cKDTree.query_ball_point; NumPy indexing, itertools.product order",
    "translator harness/translate/periodicgrid_init.py (the warning block of the constructor -> Gen/PeriodicGridInit.lean; vocabulary Model/PeriodicInitPy.lean); it checks that the block reads only the value just assigned to self._frac_intvls",
]
ASSUMPTIONS = [
    "exact real arithmetic: ties at distance == radius and fractional coordinates on a cell boundary under rounding are outside the claim (generated inputs keep a relative margin)",
    "radius is finite (the class rejects inf and nan for every number of lattice vectors)",
    "lattice vectors comfortably non-singular (the SVD singularity threshold is pinned text of the translator and is not part of "
    "the model; the oracle samples sigma_min/sigma_max at 1/100, 1/1.01, 1.01, 100 times eps*max(shape): rejected / accepted)",
]

RTOL = 1e-11


def _rows(a, d):
    a = np.asarray(a, dtype=float)
    return a.reshape(len(a), d) if len(a) else np.zeros((0, d))


def _fm(a, d):
    r = _rows(a, d)
    return fmat(r) if len(r) else f"0 {d}"


def _lat(g, d):
    rv = np.asarray(g.realvecs, dtype=float)
    if rv.size == 0:
        return np.zeros((0, d))
    return rv.reshape(-1, d) if rv.ndim > 1 else rv.reshape(1, 1)


def _header(args, g):
    d = args["d"]
    a = np.zeros((0, d)) if args["realvecs"] is None else _rows(np.asarray(args["realvecs"]).reshape(-1, d) if np.size(args["realvecs"]) else np.zeros((0, d)), d)
    reci = np.asarray(g.recivecs, dtype=float)
    reci = reci.reshape(len(a), d) if len(a) else np.zeros((0, d))
    return (f"C11.hist {int(args['oned'])} {d} {_fm(args['points'], d)} {fvec(args['weights'])} {_fm(a, d)} {_fm(reci, d)} "
            f"{int(args['wrap'])}"), a


def _close_arr(x, y, scale, rtol=None):
    rtol = RTOL if rtol is None else rtol
    x, y = np.asarray(x, dtype=float), np.asarray(y, dtype=float)
    if x.shape != y.shape:
        return False
    return bool(np.all(np.abs(x - y) <= rtol * scale + rtol * np.maximum(np.abs(x), np.abs(y))))


def _parse_mat(tok):
    r, c = int(tok.pop(0)), int(tok.pop(0))
    vals = [tok.pop(0) for _ in range(r * c)]
    return r, c, vals


def _fmat_of(tok):
    from ..common import b2f
    r, c, vals = _parse_mat(tok)
    return np.array([b2f(v) for v in vals], dtype=float).reshape(r, c)


def _imat_of(tok):
    r, c, vals = _parse_mat(tok)
    return [tuple(int(v) for v in vals[i * c:(i + 1) * c]) for i in range(r)]


def _fvec_of(tok):
    from ..common import b2f
    n = int(tok.pop(0))
    return np.array([b2f(tok.pop(0)) for _ in range(n)], dtype=float)


def _ivec_of(tok):
    n = int(tok.pop(0))
    return [int(tok.pop(0)) for _ in range(n)]


def recover_ilc(parent_pts, lg, a):
    """Integer translation of every local point: stored = parent - ilc @ a.  -> list of tuples, ok"""
    # (tolerances relative to the magnitude of the translations: centres may be 1e9 cells away)
    return r3.recover_far(parent_pts, lg, a, a.shape[1])


def _query_args(rng, g, a, d, oned, margin=1.0):
    """-> (centre object, numeric centre (d,), radius object, radius float, expected images, how)"""
    from .c10 import _centre_obj
    pts = _rows(g.points, d)
    scale = float(np.linalg.norm(a, axis=1).min()) if len(a) else 1.0
    how = rng.choice(["on", "near", "near", "far", "origin", "cellshift"])
    if how == "on":
        c = pts[rng.randrange(len(pts))].copy()
    elif how == "near":
        c = pts[rng.randrange(len(pts))] + np.array([rng.uniform(-0.4, 0.4) for _ in range(d)]) * scale
    elif how == "far":
        c = pts[rng.randrange(len(pts))] + (np.array([rng.choice([-7, 5, 11]) + rng.uniform(-0.5, 0.5) for _ in range(len(a))]) @ a if len(a) else rng.choice([-30.0, 40.0]))
    elif how == "cellshift" and len(a):
        c = pts[rng.randrange(len(pts))] + np.array([rng.choice([-2, -1, 1, 3]) for _ in range(len(a))]) @ a + np.array([rng.uniform(-0.2, 0.2) for _ in range(d)]) * scale
    else:
        c = np.zeros(d)
    c = np.asarray(c, dtype=float).reshape(d)
    q = rng.random()
    if q < 0.12:
        c = np.round(c)
    elif q < 0.3:
        c = c.astype(np.float32).astype(float)
    r = rng.choice([0.0, 1e-9, 0.05, 0.3, 0.3, 0.8, 0.8, 1.3, 1.7, 2.6]) * scale
    if len(a) and scale > 0:
        # keep the image enumeration small for cells whose plane spacings are far below the vector lengths
        b = np.linalg.pinv(a).T
        r = min(r, 12.0 / float(np.linalg.norm(b, axis=1).max()))
    robj = None
    rk = rng.choice(["float"] * 5 + ["f64", "f32", "f32", "int"])
    if rk == "f32":
        r0 = float(np.float32(r))
        want, r1 = brute_images(pts, a, c, r0, scale=scale, zero_tie_ok=(len(a) == 0), margin=margin)
        if r1 == r0:
            robj, r = np.float32(r0), r0
    elif rk == "int" and r >= 1:
        r0 = float(int(r))
        want, r1 = brute_images(pts, a, c, r0, scale=scale, zero_tie_ok=(len(a) == 0), margin=margin)
        if r1 == r0:
            robj, r = int(r0), r0
    if robj is None:
        want, r = brute_images(pts, a, c, r, scale=scale, zero_tie_ok=(len(a) == 0), margin=margin)
        robj = np.float64(r) if rk == "f64" else r
    cc, ck = _centre_obj(rng, float(c[0]) if oned else c, oned)
    cb, kb = r3.centre_bool(rng, cc, c, oned)          # (third round: bool centres, 0-d / float16 / bool radii)
    if kb:
        cc, ck = cb, kb
    if type(robj) is float and r > 0 and rng.random() < 0.2:
        robj, rkk = r3.radius_obj(rng, r)
        return cc, c, robj, r, want, how + ":" + ck + ":" + rkk
    return cc, c, robj, r, want, how + ":" + ck + ":" + type(robj).__name__


def _obs_equal(x, y):
    if isinstance(x, (tuple, list)) and isinstance(y, (tuple, list)):
        return len(x) == len(y) and all(_obs_equal(u, v) for u, v in zip(x, y))
    if isinstance(x, np.ndarray) or isinstance(y, np.ndarray):
        return np.array_equal(np.asarray(x), np.asarray(y))
    return x == y


def _arr_text(x):
    from .c10 import _descr
    return "None" if x is None else _descr(np.asarray(x))


def corr(ctx: Ctx):
    import warnings
    from .c10 import _clone, _descr, _index, _py_select
    M = _mods()
    PG = M["periodicgrid"].PeriodicGrid
    PGW = M["periodicgrid"].PeriodicGridWarning
    LG = M["basegrid"].LocalGrid
    rng = ctx.rng
    ncase = ctx.n(3400, 34000)
    cases, lines = [], []
    bad_cases, bad_lines = [], []
    last_warn = [None]

    def warn_obs(rec):
        """What the constructor's warning block did: (number of PeriodicGridWarnings, category name, attributed to this
        file — i.e. to the caller of the constructor —, number of other warnings)."""
        w = [x for x in rec if issubclass(x.category, PGW)]
        return (len(w), w[0].category.__name__ if w else "", bool(w) and w[0].filename == __file__, len(rec) - len(w))

    def build(args):
        """A new object from new array objects holding the arguments (the caller's own arrays: with
        wrap=False the grid keeps them, and a same-object reassignment edits them — legitimately)."""
        pin, win = _clone(args["points"]), _clone(args["weights"])
        rv_, wr_ = args["realvecs"], args["wrap"]
        # (class 15) every call form of the constructor: positional / keyword, the defaults omitted
        forms = [lambda: PG(pin, win, rv_, wrap=wr_), lambda: PG(pin, win, rv_, wr_), lambda: PG(pin, win, realvecs=rv_, wrap=wr_),
                 lambda: PG(points=pin, weights=win, realvecs=rv_, wrap=wr_), lambda: PG(wrap=wr_, weights=win, realvecs=rv_, points=pin)]
        if not wr_:
            forms += [lambda: PG(pin, win, rv_), lambda: PG(pin, win, realvecs=rv_)]
        if rv_ is None:
            forms += [lambda: PG(pin, win, wrap=wr_)] + ([lambda: PG(pin, win)] if not wr_ else [])
        fi = rng.randrange(len(forms)) if rng.random() < 0.5 else 0
        ctx.tagc(f"ctor-form:{fi}")
        with warnings.catch_warnings(record=True) as rec:
            warnings.simplefilter("always")
            g = forms[fi]()
        last_warn[0] = warn_obs(rec)
        if not np.array_equal(pin, args["points"]) or not np.array_equal(win, args["weights"]):
            ctx.fail("corr", "construct:caller-array", "the caller's points/weights array was modified by the constructor (wrap)",
                     witness={"points": args["points"], "realvecs": args["realvecs"], "wrap": args["wrap"]})
        return g

    def observe(op, g):
        try:
            with warnings.catch_warnings():
                warnings.simplefilter("ignore")
                return op(g)
        except Exception as e:  # noqa: BLE001
            return ("E", _errtag(e))

    GC = r4.Guard(ctx, kind="corr")     # (a crash of one case must not hide the others; re-raised at the end)
    for ci in range(ncase):
        with GC("corr:case", "one correspondence case"):
            if ci % 40 == 39:
                # rejected constructor calls: the generated constructor must reject them with the same exception class
                bp, bw, brv, bwrap, boned, bd, bwhat = r3.bad_ctor_args(rng)
                try:
                    with warnings.catch_warnings():
                        warnings.simplefilter("ignore")
                        PG(bp, bw, brv, wrap=bwrap)
                    tag_ = "accepted"
                except Exception as e:  # noqa: BLE001
                    tag_ = _errtag(e)
                brows = np.asarray(brv, dtype=float).reshape(-1, 1) if boned else np.asarray(brv, dtype=float)
                bcols = brows.shape[1] if brows.ndim == 2 and len(brows) else bd
                bad_cases.append((tag_, bwhat, f"PeriodicGrid({_arr_text(bp)}, {_arr_text(bw)}, {_arr_text(brv)}, wrap={bwrap})"))
                bad_lines.append(f"C11.hist {int(boned)} {bd} {_fm(bp, bd)} {fvec(bw)} {_fm(brows, bcols)} {_fm(np.zeros_like(brows), bcols)} {int(bwrap)} 0")
                continue
            args = r3.special_args(rng, periodic_args, lattice) if rng.random() < 0.22 else None
            if args is None and rng.random() < 0.06:
                # (fourth round) sparse grids, small spheres next to faces / edges / corners holding only neighbours' images
                args = r4.args_sparse(rng, lattice)
            if args is None:
                args = periodic_args(rng)
            d, oned = args["d"], args["oned"]
            orig = np.array(args["points"], copy=True)
            try:
                g = build(args)
            except Exception as e:  # noqa: BLE001
                ctx.count(["construct", repr(args)], nontrivial=False, tag="construct:raises")
                ctx.fail("corr", "construct", f"PeriodicGrid constructor raised {type(e).__name__}: {str(e)[:100]} on valid arguments",
                         witness={k: v for k, v in args.items()})
                continue
            head, a = _header(args, g)
            margin = 1.0 if args["rtol"] == RTOL else 3e3
            skew = bool(len(a)) and (bool(np.any(a < 0)) or np.count_nonzero(a) > len(a))

            def obs_c(g):
                return ("C", np.array(g.points, copy=True), np.array(g.recivecs, copy=True), np.array(g.spacings, copy=True),
                        np.array(g.frac_intvls, copy=True), last_warn[0])
            obs = [obs_c(g)]
            if args.get("r3"):
                ctx.tagc("r3:" + args["r3"])
            ops = []
            toks, nontriv = [], False
            text = [f"g = PeriodicGrid({_arr_text(args['points'])}, {_arr_text(args['weights'])}, {_arr_text(args['realvecs'])}, wrap={args['wrap']})"]
            for tg in args["dress"]:
                ctx.tagc("dtype:" + tg)
            for _ in range(rng.choice([1, 1, 2, 3, 4])):
                k = rng.choice(["q", "q", "q", "q", "sp", "sw", "gi"])
                n = len(g.weights)
                if k == "q":
                    sq = r3.special_query(rng, g, a, d, oned, thorough=ctx.thorough) if (len(a) and margin == 1.0 and rng.random() < 0.1) else None
                    if args.get("queries") and rng.random() < 0.85:
                        c0_, r0_ = args["queries"][rng.randrange(len(args["queries"]))]
                        want_, r0_ = r3.brute_np(_rows(g.points, d), a, c0_, r0_)
                        sq = (c0_, r0_, want_, "face", 1.0)
                    if sq is not None:
                        c, r, want, how, _m = sq
                        from .c10 import _centre_obj
                        cc, ck = _centre_obj(rng, float(c[0]) if oned else c, oned)
                        robj, rkk = r3.radius_obj(rng, r)
                        how = how + ":" + ck + ":" + rkk
                    else:
                        cc, c, robj, r, want, how = _query_args(rng, g, a, d, oned, margin)
                    bad = rng.random() < 0.05
                    if bad:
                        r = rng.choice([-1.0, math.nan, math.inf, -math.inf])
                        robj = rng.choice([r, np.float32(r)])
                    toks.append(("q s " + f2b(float(c[0])) if oned else "q v " + fvec(c)) + " " + f2b(r))
                    text.append(f"g.get_localgrid({_descr(cc)}, {_descr(robj)})")

                    def op(g, cc=cc, robj=robj, how=how):
                        parent = np.array(g.points, copy=True)
                        lg = g.get_localgrid(cc, robj)
                        if type(lg) is not LG or not np.array_equal(np.asarray(lg.center), np.asarray(cc)):
                            return ("X", "result is not a LocalGrid around the given centre")
                        ilc, ok = recover_ilc(parent, lg, a)
                        if not ok:
                            return ("X", "local points are not parent points minus integer lattice translations")
                        order = sorted(range(len(ilc)), key=lambda t: (ilc[t], int(lg.indices[t])))
                        return ("L", [ilc[t] for t in order], [int(lg.indices[t]) for t in order],
                                _rows(lg.points, d)[order] if len(order) else np.zeros((0, d)),
                                np.asarray(lg.weights, dtype=float)[order] if len(order) else np.zeros(0), how)
                elif k == "sp":
                    old = np.asarray(g.points, dtype=float)
                    how = rng.choice(["cells", "fresh", "permute"])
                    if how == "cells" and len(a):
                        new = old + (np.array([rng.choice([-5, -1, 2, 6]) for _ in range(len(a))]) @ a).reshape(old.shape[1:] if not oned else ())
                    elif how == "permute":
                        new = old[::-1].copy()
                    else:
                        new = old + np.array([rng.uniform(-1.5, 1.5) for _ in range(old.size)]).reshape(old.shape) * args.get("scale_factor", 1.0)
                    bad = rng.random() < 0.08
                    if bad:
                        new = np.concatenate([new, new[:1]])
                    cur = g.points
                    same_obj = (not bad) and rng.random() < 0.3 and cur.dtype == np.float64 and cur.flags.writeable
                    skind = None
                    if not same_obj and not bad and rng.random() < 0.3:
                        # (class 14) the new points in another dtype / layout: the grid then HOLDS an array of that kind
                        new, skind, _t = r4.dress4(rng, new, kinds=["f32", "int", "strided", "negstride", "readonly", "fortran"])
                        ctx.tagc("setpoints:kind:" + skind)
                    toks.append(f"sp {int(oned)} " + _fm(new, d))
                    text.append(f"p = g.points; p[...] = {_descr(new)}; g.points = p" if same_obj else f"g.points = {_descr(new)}")
                    ctx.tagc("setpoints:" + ("bad" if bad else how) + (":same-object" if same_obj else ""))

                    def op(g, new=new, same_obj=same_obj, skind=skind):
                        if same_obj:
                            p = g.points
                            p[...] = new
                            g.points = p
                        elif skind:
                            g.points = r4.make_kind(np.asarray(new, dtype=float), skind, np.asarray(new).dtype.type if skind == "int" else np.int64)[0]
                        else:
                            g.points = _clone(new)
                        return ("D", np.array(g.frac_intvls, copy=True))
                elif k == "sw":
                    new = np.array([rng.uniform(0.1, 2) for _ in range(n + (1 if rng.random() < 0.08 else 0))])
                    if rng.random() < 0.3:
                        new = r4.dress4(rng, new, kinds=["f32", "int", "bool", "strided", "negstride", "readonly"])[0]
                    toks.append("sw " + fvec(new))
                    text.append(f"g.weights = {_descr(new)}")

                    def op(g, new=new):
                        g.weights = _clone(new)
                        return ("D", None)
                else:
                    for _try in range(20):
                        ik, idx, tok = _index(rng, n)
                        try:
                            if _py_select(n, idx):
                                break
                        except (IndexError, ValueError):
                            break
                    else:
                        ik, idx, tok = "int", 0, "gi i 0"
                    toks.append(tok)
                    text.append(f"g[{_descr(idx)}]")
                    ctx.tagc("getitem:" + ik)

                    def op(g, idx=idx):
                        with warnings.catch_warnings(record=True) as rec:
                            warnings.simplefilter("always")
                            sub = g[idx]
                        if type(sub) is not PG or not np.array_equal(np.asarray(sub.realvecs), np.asarray(g.realvecs)):
                            return ("X", "selection is not a PeriodicGrid with the same lattice")
                        return ("G", np.array(sub.points), np.array(sub.weights), np.array(sub.frac_intvls), warn_obs(rec)[:2])
                ops.append(op)
                o = observe(op, g)
                obs.append(o)
                if o[0] == "L" and len(a) and (len(set(o[1])) >= 2 or skew):
                    nontriv = True
            # every fifth object is built a second time from the same arguments; the same history on the
            # second build must give the same observations (state carried between builds / calls)
            if ci % 5 == 0:
                try:
                    g2 = build(args)
                    obs2 = [obs_c(g2)] + [observe(op, g2) for op in ops]
                    ctx.tagc("second-build", len(obs2))
                    for j, (o1, o2) in enumerate(zip(obs, obs2)):
                        if not _obs_equal(o1, o2):
                            ctx.fail("corr", "hist:rebuild", f"PeriodicGrid (dim {d}, {len(a)} lattice vector(s)): step {j} of the same history on a second "
                                     f"build from the same arguments differs: `{text[j][:120]}`", witness={"history": text[: j + 1], "realvecs": a})
                            break
                except Exception as e:  # noqa: BLE001
                    ctx.fail("corr", "hist:rebuild", f"second build from the same arguments raised {type(e).__name__}: {e}", witness={"history": text})
            cases.append((args, a, obs, text, nontriv))
            lines.append(f"{head} {len(toks)} " + " ".join(toks))
    answers = driver_batch(lines)
    for (args, a, obs, text, nontriv), line, ans in zip(cases, lines, answers):
        d = args["d"]
        rt = args["rtol"]
        scale = max(1.0, float(np.abs(_rows(obs[0][1], d)).max())) if len(obs[0][1]) else 1.0
        sscale = rscale = 1.0
        if args.get("scale_factor"):
            # a scaled configuration: tolerances relative to the magnitudes that occur, not to 1
            scale = float(np.abs(_rows(obs[0][1], d)).max()) or float(args["scale_factor"])
            sscale, rscale = float(np.abs(obs[0][3]).max()), float(np.abs(obs[0][2]).max())
        tagbase = f"d{d}:k{len(a)}:" + ("wrap" if args["wrap"] else "nowrap") + ":" + args["spread"]
        ctx.count(line, nontrivial=nontriv, tag=tagbase, n=len(obs))
        ctx.traces += 1
        if not ans.startswith("ok "):
            ctx.fail("corr", "construct", f"model rejects the constructor arguments ({ans}) that the implementation accepts", witness={"history": text})
            continue
        outs = [o.split() for o in ans[3:].split("|")]
        if len(outs) != len(obs):
            ctx.fail("corr", "protocol", f"driver answered {len(outs)} outcomes for {len(obs)} ops", witness={"history": text})
            continue
        for j, (o, m) in enumerate(zip(obs, outs)):
            kind = m.pop(0)
            what = None
            if o[0] == "X":
                what = o[1]
            elif o[0] != kind:
                what = f"implementation {o[0]} {o[1] if o[0] == 'E' else ''}, model {kind} {' '.join(m[:2])}"
            elif kind == "C":
                mp, mr, ms, mi = _fmat_of(m), _fmat_of(m), _fvec_of(m), _fmat_of(m)
                k = len(a)
                if not _close_arr(_rows(o[1], d), mp.reshape(-1, d) if mp.size else np.zeros((0, d)), scale, rt):
                    what = "constructor: stored points differ (wrapping)"
                elif not _close_arr(np.asarray(o[2], dtype=float).reshape(k, d) if k else np.zeros((0, d)), mr.reshape(k, d) if k else np.zeros((0, d)), rscale, rt):
                    what = "constructor: reciprocal vectors differ"
                elif not _close_arr(np.asarray(o[3], dtype=float).reshape(-1), ms, sscale, rt):
                    what = f"constructor: spacings differ: implementation {np.asarray(o[3]).tolist()}, model {ms.tolist()}"
                elif not _close_arr(np.asarray(o[4], dtype=float).reshape(k, 2) if k else np.zeros((0, 2)), mi.reshape(k, 2) if k else np.zeros((0, 2)), scale, rt):
                    what = f"constructor: frac_intvls differ: implementation {np.asarray(o[4]).tolist()}, model {mi.tolist()}"
                else:
                    what = _warn_cmp(ctx, o[5], m.pop(0) if m else "W?", np.asarray(o[4], dtype=float).reshape(k, 2) if k else np.zeros((0, 2)),
                                     bool(args.get("r3", "").startswith("threshold")), "constructor")
            elif kind == "L":
                milc, midx, mp, mw = _imat_of(m), _ivec_of(m), _fmat_of(m), _fvec_of(m)
                if len(a) == 0:
                    milc = [() for _ in midx]
                ctx.tagc("query:" + o[5].split(":")[0] + (":empty" if not o[2] else (":multi" if len(set(o[1])) > 1 else ":single")))
                ctx.tagc("centre:" + o[5].split(":")[1])
                ctx.tagc("radius:" + o[5].split(":")[2])
                if milc != o[1] or midx != o[2]:
                    what = (f"get_localgrid: (translation, index) pairs differ: implementation {list(zip(o[1], o[2]))[:8]} ({len(o[2])} entries), "
                            f"model {list(zip(milc, midx))[:8]} ({len(midx)} entries)")
                elif not _close_arr(o[3], mp.reshape(-1, d) if mp.size else np.zeros((0, d)), scale * 30, rt):
                    what = "get_localgrid: stored positions differ"
                elif not np.array_equal(o[4], mw):
                    what = "get_localgrid: weights differ"
            elif kind == "D":
                if o[1] is not None:
                    mi = _fmat_of(m)
                    k = len(a)
                    if not _close_arr(np.asarray(o[1], dtype=float).reshape(k, 2) if k else np.zeros((0, 2)), mi.reshape(k, 2) if k else np.zeros((0, 2)), scale * 30, rt):
                        what = f"points setter: frac_intvls differ: implementation {np.asarray(o[1]).tolist()}, model {mi.tolist()}"
            elif kind == "G":
                mp, mw, mi = _fmat_of(m), _fvec_of(m), _fmat_of(m)
                k = len(a)
                if not _close_arr(_rows(o[1], d), mp.reshape(-1, d) if mp.size else np.zeros((0, d)), scale * 30, rt) \
                        or not np.array_equal(np.asarray(o[2], dtype=float), mw):
                    what = "__getitem__: selected points/weights differ"
                elif not _close_arr(np.asarray(o[3], dtype=float).reshape(k, 2) if k else np.zeros((0, 2)), mi.reshape(k, 2) if k else np.zeros((0, 2)), scale * 30, rt):
                    what = "__getitem__: frac_intvls of the selection differ"
                else:
                    what = _warn_cmp(ctx, o[4] + (None, 0), m.pop(0) if m else "W?", np.asarray(o[3], dtype=float).reshape(k, 2) if k else np.zeros((0, 2)),
                                     bool(args.get("r3", "").startswith("threshold")), "__getitem__ (constructor of the selection)")
            elif kind == "E":
                ctx.tagc("error:" + o[1])
                if [o[1]] != m[:1]:
                    what = f"implementation raised {o[1]}, model {m[:1]}"
            if what:
                ctx.fail("corr", "hist:" + {"C": "construct", "L": "get_localgrid", "D": "setter", "G": "getitem", "E": "error", "X": "shape"}.get(o[0], "op"),
                         f"PeriodicGrid (dim {d}, {len(a)} lattice vector(s), wrap={args['wrap']}): step {j}: {what}",
                         witness={"history": text[: j + 1], "realvecs": a, "rtol": rt})
                break
    for (tag_, bwhat, btext), line, ans in zip(bad_cases, bad_lines, driver_batch(bad_lines)):
        ctx.count(line, nontrivial=False, tag="construct:rejected:" + bwhat)
        if ans.split()[:1] != [tag_]:
            ctx.fail("corr", "construct:rejected", f"rejected constructor call ({bwhat}): implementation {tag_}, generated constructor {ans[:40]}",
                     witness={"history": ["g = " + btext]})
    GC.finish()


def _warn_cmp(ctx, impl, model, iv, exact, where):
    """The constructor's warning block: implementation (number of PeriodicGridWarnings, category, attributed to the caller,
    other warnings) against the generated block run by the driver (`W0` / `W1:<category>:<stacklevel>` / `WE:<error>` / `WU`).
    Next to the threshold (rounded fractional coordinates) either answer is accepted unless the data is exact."""
    n, cat, caller, other = impl
    width = float((iv[:, 1] - iv[:, 0]).max()) if len(iv) else 0.0
    ctx.tagc("ctor-warning:" + ("yes" if n else "no"))
    if other:
        return f"{where}: {other} warning(s) of another category"
    if not exact and abs(width - 1.1) <= 1e-7:
        return None
    if model == "W0":
        return None if n == 0 else f"{where}: implementation issued {n} {cat}(s) (widest interval {width!r}), the generated block none"
    if model.startswith("W1:"):
        _, mcat, lvl = model.split(":")
        if n != 1 or cat != mcat:
            return f"{where}: implementation issued {n} warning(s) {cat} (widest interval {width!r}), the generated block one {mcat}"
        if caller is not None and caller != (lvl == "2"):
            return f"{where}: the warning is {'not ' if not caller else ''}attributed to the caller of the constructor, the generated block has stacklevel={lvl}"
        return None
    return f"{where}: the generated warning block answers {model} (raises / leaves the modelled fragment) where the implementation constructs the object"


def _errtag(e):
    return {ValueError: "value-error", TypeError: "type-error", IndexError: "index-error",
            AttributeError: "attribute-error", AssertionError: "assertion-error"}.get(type(e), "other:" + type(e).__name__)


# ----------------------------------------------------------------------------
# oracle
# ----------------------------------------------------------------------------
SNIP = """import warnings; warnings.filterwarnings('ignore')
import itertools, numpy as np
from grid.periodicgrid import PeriodicGrid
pts = {pts}; w = {w}; rv = {rv}; wrap = {wrap}
g = PeriodicGrid(pts, w, rv, wrap=wrap)
{pre}
c = {c!r}; r = {r!r}
lg = g.get_localgrid(np.array(c) if np.ndim(c) else c, r)    # (an exception here is the failure)
d = 1 if pts.ndim == 1 else pts.shape[1]
a = np.zeros((0, d)) if rv is None or np.size(rv) == 0 else np.asarray(rv, dtype=float).reshape(-1, d)
P = np.asarray(g.points, dtype=float).reshape(len(w), d)
J = {box}
want = sorted((i, j) for i in range(len(P)) for j in itertools.product(*[range(-J, J + 1)] * len(a))
              if np.linalg.norm(P[i] + (np.array(j) @ a if len(a) else 0) - np.atleast_1d(c)) <= r)
b = np.linalg.pinv(a).T if len(a) else np.zeros((0, d))
L = np.asarray(lg.points, dtype=float).reshape(len(lg.indices), d)
got = sorted((int(i), tuple(int(v) for v in np.rint(b @ (L[t] - P[i])))) for t, i in enumerate(lg.indices))
assert got == want, f'(index, translation) pairs {{got}}, brute force {{want}}'
assert np.array_equal(np.asarray(lg.weights), np.asarray(g.weights)[np.asarray(lg.indices, dtype=int)]), 'weights are not those of the parent points'
J_ = np.array([np.rint(b @ (L[t] - P[i])) for t, i in enumerate(lg.indices)]).reshape(len(L), len(a))
assert np.allclose(L, P[np.asarray(lg.indices, dtype=int)] + J_ @ a, rtol=0, atol=1e-8 * (1 + np.abs(P).max()) + 16 * np.spacing(np.abs(L).max() if len(L) else 1.0)), 'stored positions are not parent point + lattice translation'
"""


def oracle_at(ctx: Ctx, failure):
    """A correspondence disagreement on a history -> the property itself on the implementation along
    that history: every accepted query against the brute-force image enumeration of the current points."""
    import ast
    import warnings
    w = failure.witness or {}
    hist = w.get("history") if isinstance(w, dict) else None
    if not (isinstance(hist, list) and hist and str(hist[0]).startswith("g = PeriodicGrid(")):
        return
    ns = {"np": np}
    exec("from grid.periodicgrid import PeriodicGrid", ns)
    try:
        with warnings.catch_warnings():
            warnings.simplefilter("ignore")
            exec(hist[0], ns)
    except Exception as e:  # noqa: BLE001
        ctx.info(f"oracle_at: the constructor of the disagreement raises {type(e).__name__}")
        return
    g = ns["g"]
    pts0 = np.asarray(g.points)
    d = 1 if pts0.ndim == 1 else pts0.shape[1]
    a = _lat(g, d)
    margin = 3e3 if (isinstance(w.get("rtol"), float) and w["rtol"] > RTOL) else 1.0
    for j, line in enumerate(hist[1:], 1):
        try:
            st = ast.parse(line).body[0]
        except SyntaxError:
            return
        if isinstance(st, ast.Expr) and isinstance(st.value, ast.Call) and ast.unparse(st.value.func) == "g.get_localgrid":
            c, r = (eval(ast.unparse(x), ns) for x in st.value.args)
            try:
                ok = np.asarray(c).shape == np.asarray(g.points).shape[1:] and math.isfinite(float(r)) and float(r) >= 0
            except Exception:  # noqa: BLE001
                ok = False
            if not ok:
                continue
            P = _rows(g.points, d)
            want, r2 = brute_images(P, a, np.atleast_1d(np.asarray(c, dtype=float)), float(r), zero_tie_ok=(len(a) == 0), margin=margin)
            if r2 != float(r):
                ctx.info("oracle_at: the radius of the disagreement ties with an image distance (outside the claim)")
                continue
            snippet = ("import warnings; warnings.filterwarnings('ignore')\nimport itertools, numpy as np\nfrom grid.periodicgrid import PeriodicGrid\n"
                       + "\n".join(hist[:j]) + f"\nlg = {line}\n"
                       f"want = {sorted(i for i, _ in want)!r}   # parent index of every periodic image inside the sphere (brute force)\n"
                       "assert sorted(map(int, lg.indices)) == want, (sorted(map(int, lg.indices)), want)\n")
            try:
                with warnings.catch_warnings():
                    warnings.simplefilter("ignore")
                    lg = g.get_localgrid(c, r)
            except Exception as e:  # noqa: BLE001
                ctx.fail("oracle", "periodicgrid.get_localgrid:" + ("empty" if not want else "raises"),
                         f"`{line[:100]}` raised {type(e).__name__}: {str(e)[:80]} after {j - 1} earlier op(s); {len(want)} image(s) lie inside the sphere",
                         witness={"history": hist[: j + 1], "expected": want[:40]}, snippet=snippet)
                continue
            ilc, okl = recover_ilc(P, lg, a)
            got = sorted((int(i), tuple(-t for t in jj)) for i, jj in zip(lg.indices, ilc))
            if got != want or not okl or not np.array_equal(np.asarray(lg.weights, dtype=float), np.asarray(g.weights, dtype=float)[np.asarray(lg.indices, dtype=int)]):
                sub = "duplicate" if len(set(got)) != len(got) else ("images" if got != want else "values")
                ctx.fail("oracle", f"periodicgrid.get_localgrid:{sub}",
                         f"`{line[:100]}` after {j - 1} earlier op(s): (index, translation) pairs {got[:10]} ({len(got)}), brute-force enumeration {want[:10]} ({len(want)})",
                         witness={"history": hist[: j + 1], "got": got[:60], "expected": want[:60]}, snippet=snippet)
        else:
            try:
                with warnings.catch_warnings():
                    warnings.simplefilter("ignore")
                    exec(line, ns)
            except Exception:  # noqa: BLE001 - a rejected operation
                continue
            # an accepted reassignment must store the values given (whatever kind of array the grid held before)
            if isinstance(st, ast.Assign) and len(st.targets) == 1 and ast.unparse(st.targets[0]) in ("g.points", "g.weights"):
                attr = ast.unparse(st.targets[0])[2:]
                try:
                    given = np.asarray(eval(ast.unparse(st.value), ns), dtype=float)
                    if not np.array_equal(np.asarray(getattr(g, attr), dtype=float), given):
                        ctx.fail("oracle", f"periodicgrid.{attr}:setter-values",
                                 f"after `{line[:120]}` ({j - 1} earlier op(s)) the grid holds {np.asarray(getattr(g, attr)).tolist()}, not the values given",
                                 witness={"history": hist[: j + 1]},
                                 snippet=("import warnings; warnings.filterwarnings('ignore')\nimport numpy as np\nfrom grid.periodicgrid import PeriodicGrid\n"
                                          + "\n".join(("try:\n    " + h + "\nexcept Exception:\n    pass") if i else h for i, h in enumerate(hist[:j])) + f"\n{line}\n"
                                          f"assert np.array_equal(np.asarray(g.{attr}, dtype=float), np.asarray({ast.unparse(st.value)}, dtype=float)), 'the grid does not hold the values given'\n"))
                except Exception:  # noqa: BLE001
                    pass


TIE_SNIP = """import warnings; warnings.filterwarnings('ignore')
import numpy as np, itertools
from fractions import Fraction as F
from grid.periodicgrid import PeriodicGrid
pts = np.array({pts!r}); lens = {lens!r}; c = np.array({c!r}); r = {r!r}; wrap = {wrap!r}
d = pts.shape[1]; K = len(lens)
a = np.zeros((K, d)); a[np.arange(K), np.arange(K)] = lens
g = PeriodicGrid(pts if d > 1 or not {flat!r} else pts[:, 0], np.ones(len(pts)), a if d > 1 or not {flat!r} else np.array(lens), wrap=wrap)
lg = g.get_localgrid(c if d > 1 or not {flat!r} else float(c[0]), r)
got = sorted((int(i), tuple(int(round(float(x))) for x in ((np.atleast_1d(p) - np.atleast_1d(g.points[i]))[:K] / np.array(lens)))) for i, p in zip(lg.indices, lg.points))
P = np.atleast_2d(np.asarray(g.points, dtype=float).reshape(len(pts), -1))
I = lambda x: int(round(float(x) * 8))      # exact: every number is a multiple of 1/8
want = []
for i in range(len(P)):
    rngs = [range(-(abs(I(P[i, j]) - I(c[j])) + I(r)) // abs(I(lens[j])) - 1, (abs(I(P[i, j]) - I(c[j])) + I(r)) // abs(I(lens[j])) + 2) for j in range(K)]
    for t in itertools.product(*rngs):
        q = [I(P[i, j]) + (t[j] * I(lens[j]) if j < K else 0) - I(c[j]) for j in range(d)]
        if sum(x * x for x in q) <= I(r) * I(r):
            want.append((i, tuple(t)))
assert got == sorted(want), f'images exactly on the sphere: got {{got}}, exact enumeration {{sorted(want)}}'
"""


def _oracle_exact_ties(ctx: Ctx, PG, n):
    """Exact arithmetic: dyadic points, axis-aligned lattice vectors of dyadic length (either sign), dyadic
    centre and a radius equal to the exact distance of one image (along a lattice axis), so that image lies
    exactly ON the sphere ("within the radius" includes equality).  Every number is exactly representable and every
    operation of the code is exact, so this is not a rounding tie; the reference decides with Fractions."""
    import itertools
    import warnings
    from fractions import Fraction as F
    rng = ctx.rng
    for _ in range(n):
        d = rng.choice([1, 1, 2, 3])
        K = rng.randint(1, d)
        flat = d == 1 and rng.random() < 0.5
        lens = [rng.choice([1.0, 0.5, 2.0, 0.25, 4.0]) * rng.choice([1, 1, -1]) for _ in range(K)]   # powers of two: exact reciprocals
        npts = rng.randint(1, 5)
        pts = np.array([[rng.randrange(-16, 17) / 8.0 for _ in range(d)] for _ in range(npts)])
        wrap = rng.random() < 0.4
        a = np.zeros((K, d))
        a[np.arange(K), np.arange(K)] = lens
        with warnings.catch_warnings():
            warnings.simplefilter("ignore")
            g = PG(pts[:, 0] if flat else pts, np.ones(npts), np.array(lens) if flat else a, wrap=wrap)
        P = np.asarray(g.points, dtype=float).reshape(npts, -1)
        i0, ax = rng.randrange(npts), rng.randrange(K)
        t0 = [rng.randint(-1, 1) for _ in range(K)]
        r = rng.choice([0.125, 0.25, 0.5, 1.0, 1.5, 2.0]) if K < 3 else rng.choice([0.125, 0.25, 0.5])
        c = P[i0].copy()
        c[:K] += np.array(t0) * np.array(lens)
        c[ax] += rng.choice([-1, 1]) * r          # the image (i0, t0) is now at distance exactly r, along a lattice axis
        c_given = c.copy()          # (the reference below is computed from a pristine copy of the centre: class 16)
        with warnings.catch_warnings():
            warnings.simplefilter("ignore")
            lg = g.get_localgrid(float(c[0]) if flat else c, r)
        if not np.array_equal(c, c_given):
            ctx.fail("oracle", "periodicgrid.get_localgrid:caller-array", f"get_localgrid changed the caller's centre array from {c_given.tolist()} to {c.tolist()}",
                     witness={"points": pts.tolist(), "lengths": lens, "center": c_given.tolist(), "radius": r},
                     snippet=("import warnings; warnings.filterwarnings('ignore')\nimport numpy as np\nfrom grid.periodicgrid import PeriodicGrid\n"
                              f"a = np.zeros(({K}, {d})); a[np.arange({K}), np.arange({K})] = {lens!r}\n"
                              f"g = PeriodicGrid(np.array({pts.tolist()!r}), np.ones({npts}), a, wrap={wrap})\nc = np.array({c_given.tolist()!r}); c0 = c.copy()\n"
                              f"g.get_localgrid(c, {r!r})\nassert np.array_equal(c, c0), 'the centre array of the caller was changed'\n"))
            c = c_given
        lp = np.asarray(lg.points, dtype=float).reshape(len(lg.indices), d)      # (0, d) for an empty local grid
        got = sorted((int(i), tuple(int(round(float(x))) for x in ((q - P[i])[:K] / np.array(lens)))) for i, q in zip(lg.indices, lp))
        # exact integer arithmetic in units of 1/8 (every number here is a multiple of 1/8)
        I = lambda x: int(round(float(x) * 8))
        assert all(abs(I(x) / 8 - float(x)) == 0 for x in list(P.ravel()) + list(c) + lens + [r])
        want = []
        for i in range(npts):
            rngs = [range(-(abs(I(P[i, j]) - I(c[j])) + I(r)) // abs(I(lens[j])) - 1, (abs(I(P[i, j]) - I(c[j])) + I(r)) // abs(I(lens[j])) + 2) for j in range(K)]
            for t in itertools.product(*rngs):
                q = [I(P[i, j]) + (t[j] * I(lens[j]) if j < K else 0) - I(c[j]) for j in range(d)]
                if sum(x * x for x in q) <= I(r) * I(r):
                    want.append((i, tuple(t)))
        ctx.count(["exact-tie", d, K, flat, lens, r], nontrivial=True, tag=f"oracle:exact-tie:d{d}:K{K}")
        if got != sorted(want):
            miss = sorted(set(want) - set(got))[:4]
            extra = sorted(set(got) - set(want))[:4]
            ctx.fail("oracle", "periodicgrid.get_localgrid:images:on-sphere",
                     f"exactly representable case (dim {d}, {K} lattice vector(s) {lens}, wrap={wrap}): images at distance exactly r = {r} — missing {miss}, spurious {extra}",
                     witness={"points": pts.tolist(), "lengths": lens, "center": c.tolist(), "radius": r, "wrap": wrap, "flat": flat},
                     snippet=TIE_SNIP.format(pts=pts.tolist(), lens=lens, c=c.tolist(), r=r, wrap=wrap, flat=flat))


def oracle(ctx: Ctx, budget: str):
    import warnings
    M = _mods()
    PG, Grid = M["periodicgrid"].PeriodicGrid, M["basegrid"].Grid
    rng = ctx.rng
    try:
        _oracle_exact_ties(ctx, PG, (60 if budget == "small" else 1500) * (4 if ctx.thorough else 1))
    except Exception as e:  # noqa: BLE001   (a crash of one part must not hide the failing inputs of the others)
        ctx.fail("oracle", "periodicgrid.get_localgrid:raises", f"exact-tie cases: {type(e).__name__}: {str(e)[:200]}")
    # Independent parts (fourth round): an exception in one part / case is recorded and never hides what the others find;
    # a harness exception is re-raised at the very end (G.finish()).
    from . import c11_r4 as r4
    G = r4.Guard(ctx)
    # fourth round first (cheap, deterministic count): sparse grids with small spheres next to faces / edges / corners for
    # every shape triple, arrays of other dtypes / layouts held by the grid, call forms, shared argument objects, weight
    # kinds, raising calls leave no trace, ill-conditioned cells
    with G("periodicgrid:fourth-round", "fourth-round classes"):
        r4.oracle_r4(ctx, budget, M, periodic_args, lattice, G)
    # fifth round: one array object overwritten in place between two constructions / calls (every array argument), two
    # instances differing in one dependency in either order, point counts around block sizes, point order, extended /
    # reduced precision arguments
    from . import c11_r5 as r5
    with G("periodicgrid:fifth-round", "fifth-round classes"):
        r5.oracle_r5(ctx, budget, M, periodic_args, lattice, G)
    # third round: exact lattices with points on cell faces / far centres / zero and denormal radii / radius = lattice
    # length, the 1.1 warning threshold, scaled cells, integer and bool points, centres 1e9 cells away, radius / spacing
    # ratios up to the cap, the singularity threshold, local grids modified by the caller
    with G("periodicgrid:third-round", "third-round classes"):
        r3.oracle_r3(ctx, budget, M, periodic_args, lattice, G)
    n = (800 if budget == "small" else 8000) * (4 if ctx.thorough else 1)
    for ci in range(n):
        with G("periodicgrid.get_localgrid:random", "random lattices"):
            args = periodic_args(rng)
            d, oned = args["d"], args["oned"]
            orig = np.array(args["points"], copy=True)
            single = args["rtol"] != RTOL          # lattice vectors given in single precision
            tol, margin = (1e-5, 3e3) if single else (1e-9, 1.0)
            rvtxt = "None" if args["realvecs"] is None else (_arr_text(args["realvecs"]) + f".reshape({np.asarray(args['realvecs']).shape})")
            base = dict(pts=_arr_text(args["points"]), w=_arr_text(args["weights"]), rv=rvtxt, wrap=args["wrap"])
            try:
                with warnings.catch_warnings():
                    warnings.simplefilter("ignore")
                    g = PG(args["points"], args["weights"], args["realvecs"], wrap=args["wrap"])
            except Exception as e:  # noqa: BLE001
                ctx.fail("oracle", "periodicgrid.__init__:raises" + (":1d-no-lattice" if oned and args["k"] == 0 else ""),
                         f"PeriodicGrid(points {args['points'].shape}, realvecs={rvtxt}, wrap={args['wrap']}) raised {type(e).__name__}: {str(e)[:100]}",
                         witness=base, snippet=SNIP.format(pre="", c=0.0 if oned else [0.0] * d, r=0.5, box=1, **base))
                continue
            a = _lat(g, d)
            k = len(a)
            P = _rows(g.points, d)
            scale = float(np.linalg.norm(a, axis=1).min()) if k else 1.0
            # (a) duality contract of the reciprocal vectors, (b) spacings
            if k:
                b = np.asarray(g.recivecs, dtype=float).reshape(k, d)
                if not np.allclose(b @ a.T, np.eye(k), atol=tol) or not np.allclose(b, (b @ np.linalg.pinv(a)) @ a, atol=tol):
                    ctx.fail("oracle", "periodicgrid.__init__:recivecs", f"reciprocal vectors are not dual to the lattice vectors (b.a^T = {(b @ a.T).tolist()})", witness=base)
                sp = np.asarray(g.spacings, dtype=float).reshape(-1)
                if not np.allclose(sp, 1 / np.linalg.norm(b, axis=1), rtol=tol / 10) or np.any(sp <= 0):
                    ctx.fail("oracle", "periodicgrid.__init__:spacings", f"plane spacings {sp.tolist()} are not 1/|b_k| = {(1 / np.linalg.norm(b, axis=1)).tolist()}",
                             witness=base, snippet=SNIP.format(pre="assert (np.asarray(g.spacings) > 0).all(), f'spacings {g.spacings}'", c=0.0 if oned else [0.0] * d, r=0.5, box=2, **base))
                fr = P @ b.T
                iv = np.asarray(g.frac_intvls, dtype=float).reshape(k, 2)
                if np.any(fr.min(axis=0) < iv[:, 0] - tol) or np.any(fr.max(axis=0) > iv[:, 1] + tol):
                    ctx.fail("oracle", "periodicgrid.__init__:frac-intvls", "frac_intvls do not contain the fractional coordinates of the stored points", witness=base)
                # (c) wrapping
                if args["wrap"]:
                    coef = (P - _rows(orig, d)) @ b.T
                    if (np.any(fr < -tol) or np.any(fr >= 1 + tol) or not np.allclose(coef, np.rint(coef), atol=100 * tol)
                            or not np.allclose(P, _rows(orig, d) + np.rint(coef) @ a, atol=tol * (1 + np.abs(P).max()))):
                        ctx.fail("oracle", "periodicgrid.__init__:wrap", "wrapped points are not in [0,1) fractional coordinates / not lattice translates of the given points", witness=base)
            if not np.array_equal(orig, args["points"]):
                ctx.fail("oracle", "periodicgrid.__init__:caller-array", "the constructor modified the caller's points array", witness=base)
            if not args["wrap"] and not np.array_equal(_rows(g.points, d), _rows(orig, d)):
                ctx.fail("oracle", "periodicgrid.__init__:points", "points changed although wrap=False", witness=base)
            # (e) queries, some of them after a reassignment of the points (history clause of C10
            # for this class: the image box must be the one of the current points)
            pre = ""
            reassigned = False      # (`pre` is the whole earlier history of this object as text: the snippet replays it)
            for qi in range(rng.choice([1, 2, 3])):
                if qi == 1 and rng.random() < 0.6:
                    old = np.asarray(g.points)
                    if k and rng.random() < 0.6:
                        new = old + (np.array([rng.choice([-5, -1, 2, 6]) for _ in range(k)]) @ a).reshape(old.shape[1:] if not oned else ())
                    else:
                        new = old + np.array([rng.uniform(-1.5, 1.5) for _ in range(old.size)]).reshape(old.shape)
                    cur = g.points
                    if rng.random() < 0.4 and cur.dtype == np.float64 and cur.flags.writeable:
                        cur[...] = new          # in-place update of the grid's own array, then the same object
                        g.points = cur          # is assigned again: still a reassignment
                        pre += f"p = g.points; p[...] = np.array({new.tolist()!r}); g.points = p\n"
                    else:
                        g.points = new
                        pre += f"g.points = np.array({new.tolist()!r})\n"
                    P = _rows(g.points, d)
                    reassigned = True
                elif qi == 1 and rng.random() < 0.5:
                    # (setter then query, class 10) new weights after the first query: the next local grid carries them
                    neww = np.array([rng.uniform(-2, 2) for _ in range(len(g.weights))])
                    g.weights = neww
                    pre += f"g.weights = np.array({neww.tolist()!r})\n"
                    ctx.tagc("oracle:weights-setter-then-query")
                cc, c, robj, r, want, how = _query_args(rng, g, a, d, oned, margin)
                from .c10 import _descr
                thisq = f"g.get_localgrid({_descr(cc)}, {_descr(robj)})\n"
                box = int(max([abs(t) for _, j in want for t in j] + [0])) + 2
                snippet = SNIP.format(pre=pre, c=(float(c[0]) if oned else c.tolist()), r=r, box=box, **base)
                wit = dict(base, center=c, radius=r, expected=want[:40], reassigned=pre)
                pre += thisq
                try:
                    with warnings.catch_warnings():
                        warnings.simplefilter("ignore")
                        lg = g.get_localgrid(cc, robj)
                except Exception as e:  # noqa: BLE001
                    sub = "empty" if not want else "raises"
                    ctx.fail("oracle", f"periodicgrid.get_localgrid:{sub}",
                             f"get_localgrid(center={c.tolist()}, radius={r}) raised {type(e).__name__}: {str(e)[:80]} (dim {d}, {k} lattice vector(s), wrap={args['wrap']}); "
                             f"{len(want)} image(s) lie inside the sphere", witness=dict(wit, raised=repr(e)), snippet=snippet)
                    continue
                ilc, ok = recover_ilc(P, lg, a)
                got = sorted((int(i), tuple(-t for t in j)) for i, j in zip(lg.indices, ilc))
                vals_ok = ok and np.array_equal(np.asarray(lg.weights), np.asarray(g.weights)[np.asarray(lg.indices, dtype=int)]) \
                    and isinstance(lg, M["basegrid"].LocalGrid)
                if got != want or not vals_ok:
                    dup = len(set(got)) != len(got)
                    sub = "duplicate" if dup else ("images" if got != want else "values")
                    if reassigned and got != want:
                        # the cause is the reassignment iff a fresh object with the same points answers correctly
                        try:
                            with warnings.catch_warnings():
                                warnings.simplefilter("ignore")
                                fresh = PG(np.array(g.points), np.array(g.weights), args["realvecs"]).get_localgrid(cc, robj)
                            filc, fok = recover_ilc(P, fresh, a)
                            if fok and sorted((int(i), tuple(-t for t in j)) for i, j in zip(fresh.indices, filc)) == want:
                                sub = "after-points-setter"
                        except Exception:  # noqa: BLE001
                            pass
                    ctx.fail("oracle", f"periodicgrid.get_localgrid:{sub}",
                             f"get_localgrid(center={c.tolist()}, radius={r}) (dim {d}, {k} lattice vector(s), wrap={args['wrap']}): "
                             f"(index, translation) pairs {got[:10]} ({len(got)}), brute-force enumeration {want[:10]} ({len(want)})",
                             witness=dict(wit, got=got[:60]), snippet=snippet)
                # (f) without lattice vectors: the plain grid
                if k == 0:
                    ref = Grid(np.array(g.points), np.array(g.weights)).get_localgrid(cc, robj)
                    if sorted(map(int, ref.indices)) != sorted(map(int, lg.indices)):
                        ctx.fail("oracle", "periodicgrid.get_localgrid:no-lattice", "PeriodicGrid without lattice vectors differs from the plain Grid", witness=wit, snippet=snippet)
    # (g) dtype of the lattice vectors: integers (the float64 computation is the reference)
    for rv, pts, c in ((np.array([[2, 0], [0, 1]]), np.array([[0.25, 0.5], [1.5, 0.25]]), np.array([0.25, 0.5])),
                       (np.array([[3, 0, 0], [0, 3, 0], [1, 0, 2]]), np.array([[0.5, 0.25, 0.75]]), np.zeros(3)),
                       (np.array([2]), np.array([0.25, 1.5]), 0.25)):
        with G("periodicgrid.__init__:int-realvecs", "integer lattice vectors"):
            w = np.ones(len(pts))
            snippet = ("import warnings; warnings.filterwarnings('ignore')\nimport numpy as np\nfrom grid.periodicgrid import PeriodicGrid\n"
                       f"rv = np.array({rv.tolist()!r})   # integer dtype\npts = np.array({pts.tolist()!r}); w = np.ones({len(pts)})\n"
                       f"c = {np.asarray(c).tolist()!r}\n"
                       "a = PeriodicGrid(pts, w, rv).get_localgrid(np.array(c) if np.ndim(c) else c, 1.25)        # (an exception here is the failure)\n"
                       "b = PeriodicGrid(pts, w, rv.astype(float)).get_localgrid(np.array(c) if np.ndim(c) else c, 1.25)\n"
                       "assert sorted(map(int, a.indices)) == sorted(map(int, b.indices))\n")
            try:
                with warnings.catch_warnings():
                    warnings.simplefilter("ignore")
                    la = PG(pts, w, rv).get_localgrid(c, 1.25)
                    lb = PG(pts, w, rv.astype(float)).get_localgrid(c, 1.25)
                if sorted(map(int, la.indices)) != sorted(map(int, lb.indices)) or not np.allclose(np.sort(np.asarray(la.points, dtype=float), axis=0),
                                                                                                   np.sort(np.asarray(lb.points, dtype=float), axis=0)):
                    ctx.fail("oracle", "periodicgrid.__init__:int-realvecs", f"integer lattice vectors {rv.tolist()} give another local grid than the same vectors as floats",
                             witness={"realvecs": rv, "points": pts}, snippet=snippet)
            except ValueError as e:
                # scope decision (DESIGN 8.3): lattice vectors of an integer dtype are rejected (np.finfo of an
                # integer dtype in the SVD branch) -- a rejection of the argument type, not a wrong local grid
                ctx.info(f"out of scope: PeriodicGrid with integer-dtype lattice vectors {rv.tolist()} raised ValueError: {str(e)[:70]}")
            except Exception as e:  # noqa: BLE001
                ctx.fail("oracle", "periodicgrid.__init__:int-realvecs",
                         f"PeriodicGrid(points, weights, realvecs=np.array({rv.tolist()}) [dtype {rv.dtype}]) raised {type(e).__name__}: {str(e)[:90]} "
                         "(the same lattice vectors as a float array are accepted)", witness={"realvecs": rv, "points": pts, "raised": repr(e)}, snippet=snippet)
    try:
        PG([[0.1, 0.2]], [1.0], [[1.0, 0.0]])
        ctx.info("PeriodicGrid accepts Python lists for points / weights / realvecs")
    except Exception as e:  # noqa: BLE001
        ctx.info(f"out of scope: PeriodicGrid (like Grid) requires NumPy arrays; Python lists for points/weights/realvecs raise {type(e).__name__} (documented types: np.ndarray)")
    # documented behaviour outside the property (recorded only)
    try:
        PG(np.array([[0.1, 0.2]]), np.array([1.0])).get_localgrid(np.zeros(2), np.inf)
        ctx.info("PeriodicGrid without lattice vectors accepts radius=inf")
    except ValueError:
        ctx.info("out of scope: PeriodicGrid rejects radius=inf (ValueError) for every number of lattice vectors, also K=0 where Grid returns the whole grid")
    G.finish()

"""C02 — every shipped angular grid is exact to its advertised degree."""
import concurrent.futures as cf
import importlib
import math
import os
import time

import numpy as np

from ..common import SRC, Ctx, Tokens, driver_batch

LEVEL = "exploration"
LEVEL_TEXT = (
    "Exploration, complete in the thorough tier: a finite statement about the numeric content of 450 data files. "
    "Every file that AngularGrid can construct (32 Lebedev, 163 spherical designs, 199 maximum-determinant, 56 "
    "Ahrens-Beylkin) is loaded through AngularGrid(degree, method) and handed to an independent executable oracle "
    "written in Lean and compiled into the driver (Model/Harmonics.lean: AngularCheck.file): deviation of the points "
    "from the unit sphere, size, sum of the weights and, for EVERY (l, m) with l <= advertised degree, "
    "|sum_i w_i Y_lm(p_i) - sqrt(4 pi) delta_l0| with the fully normalised recursion (Cartesian input, no libm "
    "function except sqrt). Thorough tier: all files, all (l, m) (exhaustive: true). Quick tier: all Lebedev and "
    "Ahrens-Beylkin files, all files of degree <= 30, and a VERIF_SEED-chosen 10 % of the rest completely; every remaining "
    "file is screened for all l <= degree on the orders |m| in {0, 1, 2, 3} and five VERIF_SEED-chosen ones. The oracle is anchored "
    "by the C08 theorems about the code-shaped recursion (row order, normalisation, closed forms l <= 3) and by the Lean "
    "theorem ylm_norm_eq_code (over the reals the normalised recursion of the oracle returns the rows of the code-shaped "
    "recursion, every l_max); the array implementation that runs on the files is tied to the generic Lean recursions "
    "ylmNorm/ylmCode and to the library's own harmonics by differential runs. "
    "Proof tier (partial, in addition): the 20 smallest tables (Lebedev degree <= 11, spherical designs <= 11, maximum-determinant <= 9) are "
    "regenerated from the .npz files on every run into Gen/AngularData/*.lean as exact dyadic rationals; in each generated file the kernel "
    "decides (decide +kernel, exact integer arithmetic) that every monomial x^a y^b z^c of total degree <= the advertised degree is "
    "integrated to 1e-13 and that every node is on the unit sphere to 1e-13; Props/C02/Sound.lean turns this into statements about the "
    "rational quadrature sums (allOkUnit_sound, allOk4pi_sound with Mathlib's 20-digit enclosure of pi) and, by linearity, about every "
    "polynomial of that degree (poly_bound). The closed form of the monomial means over the sphere is stated, not derived (checked "
    "against numerical integration by the correspondence). For the other 430 files no theorem is claimed (kernel cost: 2.2 GB at degree 13)."
)
TECHNIQUE = ("complete enumeration with a native Lean oracle (normalised spherical-harmonic recursion), cross-checked against "
             "the library's own harmonics and, for failing files, a 30-digit mpmath evaluation of the definition")
GEN = ["angular_data"]
LEAN_MODULES = ["GridVerif.Props.C08", "GridVerif.Props.C02.Exact"]
CARRIED = ["lebedev_3_6", "lebedev_5_18", "lebedev_7_26", "lebedev_9_38", "lebedev_11_50", "spherical_1_2", "spherical_3_6", "spherical_5_12",
           "spherical_7_32", "spherical_9_48", "spherical_11_70", "maxdet_1_4", "maxdet_2_9", "maxdet_3_16", "maxdet_4_25", "maxdet_5_36",
           "maxdet_6_49", "maxdet_7_64", "maxdet_8_81", "maxdet_9_100"]
# no theorem about the data; these C08 theorems anchor the harmonics the oracle integrates (order, normalisation, sign)
THEOREMS = [
    "GridVerif.C08.row_index_bij",
    "GridVerif.C08.ylm_rows_spec",
    "GridVerif.C08.ylm_normalisation",
    "GridVerif.C08.ylm_low_degree",
    "GridVerif.C08.ylm_norm_eq_code",
    "GridVerif.C08.weights_sum",
    # proof tier: the 20 smallest shipped tables, regenerated into Lean as exact dyadic rationals, integrate every monomial of
    # degree <= advertised degree to 1e-13 (kernel-decided integer statements + soundness over Q / R + linearity)
    "GridVerif.C02.allOkUnit_sound", "GridVerif.C02.allOk4pi_sound", "GridVerif.C02.quadQ_eq", "GridVerif.C02.poly_bound",
    "GridVerif.C02.carried_eq", "GridVerif.C02.lebedev_11_50_poly",
] + [f"GridVerif.C02.{n}_exact" for n in CARRIED]
RULE = (
    "one evaluation = one data file loaded through AngularGrid(degree, method) and checked by the Lean oracle for all (l, m) "
    "with l <= advertised degree (quick tier: the files outside the full selection are screened on 9 orders m, all l; "
    "plus: moments of small files compared between the array oracle, the generic Lean "
    "recursions ylmNorm / ylmCode and the library's own harmonics, and on a synthetic point set at degree 200..325 with "
    "ylmNorm checked against the 300-digit mpmath definition on sampled rows; library-side integration of its own harmonics for "
    "files of degree <= 40 quick / <= 75 thorough compared with the oracle's per-degree errors). "
    "non-trivial = advertised degree >= 2"
)
TRUSTED_BASE = [
    "Lean compiler/runtime for Float (the oracle is a native executable, not a kernel computation)",
    "hand-written oracle Model/Harmonics.lean (AngularCheck.file, ylmNorm); tied to ylmCode (the model the C08 theorems "
    "are about) and to both library implementations by differential runs up to degree 60, on whole files up to degree 75",
    "np.load / AngularGrid loader as the route by which the data reach the oracle",
    "IEEE double rounding: integration errors are accepted up to 1e-9 (measured over all 450 files: every passing file "
    "<= 3.3e-12 at every degree; the two defective files 7e-6 .. 0.26 at their failing degrees) - three orders of margin on either side",
]
ASSUMPTIONS = [
    "the advertised degree of a file is the degree in the tables of angular.py (= the file name)",
    "files in the data directories that no table entry points to (lebedev_3_8, _3_12, _5_14, ...) cannot be constructed "
    "and are not part of the property",
]

METHODS = ["lebedev", "spherical", "maxdet", "ahrens_beylkin"]
PREFIX = {"lebedev": "LEBEDEV", "spherical": "SPHERICAL", "maxdet": "MAX_DET", "ahrens_beylkin": "AHRENS_BEYLKIN"}
DIRS = {"lebedev": "lebedev", "spherical": "spherical_design", "maxdet": "maxdet", "ahrens_beylkin": "ahrens_beylkin"}
THRESH = 1e-9          # integration error (justification: see TRUSTED_BASE, measured maximum goes to the evidence)
SPHERE_TOL = 1e-12     # | |p| - 1 |
FOUR_PI = 4 * math.pi

_REPORTS = {}          # (method, degree) -> report dict, shared by corr and oracle within one run


def all_files(ang):
    """[(method, degree, size)] of everything AngularGrid can construct."""
    out = []
    for m in METHODS:
        for d, s in getattr(ang, PREFIX[m] + "_DEGREES").items():
            out.append((m, int(d), int(s)))
    return out


def select(ctx: Ctx, files, everything: bool):
    if everything:
        return list(files)
    keep, rest = [], []
    for f in files:
        (keep if f[0] in ("lebedev", "ahrens_beylkin") or f[1] <= 30 else rest).append(f)
    k = max(1, round(0.10 * len(rest)))
    return keep + ctx.rng.sample(rest, k)


def load(ang, m, d):
    import warnings
    with warnings.catch_warnings():
        warnings.simplefilter("ignore")
        return ang.AngularGrid(degree=d, method=m, cache=False)


def _bits(a):
    return " ".join(map(str, np.ascontiguousarray(a, dtype="<f8").reshape(-1).view("<u8").tolist()))


def file_line(op, points, weights, degree):
    return f"{op} {degree} {3 * len(weights)} {_bits(points)} {len(weights)} {_bits(weights)}"


def _run_one(job):
    """job = (method, degree, size[, orders]) -> report via a driver process of its own; with `orders` only the screen
    restricted to those orders |m| (and m = 0) is evaluated."""
    ang = importlib.import_module("grid.angular")
    m, d, s = job[:3]
    orders = job[3] if len(job) > 3 else None
    t0 = time.time()
    g = load(ang, m, d)
    rep = {"method": m, "degree": d, "size": s, "grid_degree": int(g.degree), "grid_size": int(g.size),
           "impl_sumw": float(np.sum(g.weights)), "impl_dev": float(np.max(np.abs(np.linalg.norm(g.points, axis=1) - 1.0))),
           "shape_ok": g.points.shape == (g.size, 3) and g.weights.shape == (g.size,)}
    if orders is None:
        ans = driver_batch([file_line("C02.file", g.points, g.weights, d)], timeout=7200)[0]
    else:
        op = f"C02.screen {d} {len(orders)} " + " ".join(map(str, orders))
        line = file_line("X", g.points, g.weights, d)
        ans = driver_batch([op + line[len(f"X {d}"):]], timeout=7200)[0]
    rep["orders"] = orders
    rep["answer"] = ans[:40]
    if ans.startswith("ok "):
        T = Tokens(ans[3:])
        rep["n"] = T.nat()
        rep["dev"] = T.flt()
        rep["sumw"] = T.flt()
        rep["err"] = np.array(T.fvec())
        rep["arg"] = T.vec(int)
    rep["wall"] = time.time() - t0
    return rep


def run_files(jobs):
    """Reports for the jobs not yet evaluated in this process; several driver processes in parallel."""
    key = lambda j: (j[0], j[1], None if len(j) < 4 else tuple(j[3]))
    todo = [j for j in jobs if key(j) not in _REPORTS]
    todo.sort(key=lambda j: -j[2] * (j[1] + 1) * ((j[1] + 1) if len(j) < 4 else 2 * len(j[3])))
    nproc = int(os.environ.get("VERIF_JOBS", "0")) or (os.cpu_count() or 4)
    if todo:
        with cf.ThreadPoolExecutor(max_workers=nproc) as ex:
            for j, rep in zip(todo, ex.map(_run_one, todo)):
                _REPORTS[key(j)] = rep
    return [_REPORTS[key(j)] for j in jobs]


def lib_moments(ut, g, L, chunk=4000):
    """sum_i w_i Y_lm(p_i) with the library's own conversion and recursion (long double)."""
    acc = np.zeros((L + 1) ** 2, dtype=np.longdouble)
    for a in range(0, g.size, chunk):
        sph = ut.convert_cart_to_sph(g.points[a:a + chunk])
        Y = ut.generate_real_spherical_harmonics(L, sph[:, 1], sph[:, 2])
        acc += Y @ g.weights[a:a + chunk].astype(np.longdouble)
    return acc


def err_by_degree(mom, L):
    e = np.zeros(L + 1)
    for l in range(L + 1):
        blk = np.array(mom[l * l:(l + 1) ** 2], dtype=float)
        if l == 0:
            blk = blk - math.sqrt(FOUR_PI)
        e[l] = np.max(np.abs(blk))
    return e


# --------------------------------------------------------------------------------------
# correspondence: the oracle against the generic Lean recursions and the library's harmonics
# --------------------------------------------------------------------------------------
def _corr_carried(ctx: Ctx, ang):
    """The tables carried into Lean (Gen/AngularData/*.lean): (a) the integers of the generated file denote exactly the arrays
    the loader hands to AngularGrid; (b) the exact rational moments of that table, times 4 pi where the constructor multiplies,
    agree with AngularGrid(...).integrate of the monomial; (c) the closed form of the sphere means used by the theorems agrees
    with an independent numerical integration (mpmath, product Gauss-Legendre x trapezoid, exact for these polynomials)."""
    import re
    from fractions import Fraction
    from ..common import LEAN
    from ..translate import angular_data as ad
    import mpmath as mp

    def dfact(n):
        return 1 if n <= 1 else n * dfact(n - 2)

    def mean(a, b, c):
        if a % 2 or b % 2 or c % 2:
            return Fraction(0)
        return Fraction(dfact(a - 1) * dfact(b - 1) * dfact(c - 1), dfact(a + b + c + 1))
    # (c) closed form vs numerical integration
    with mp.workdps(30):
        for a, b, c in [(0, 0, 0), (2, 0, 0), (0, 2, 2), (4, 2, 0), (2, 2, 2), (6, 0, 4), (1, 2, 0), (3, 3, 2), (8, 2, 0), (4, 4, 2)] + \
                [tuple(ctx.rng.randrange(0, 7) for _ in range(3)) for _ in range(6)]:
            num = mp.quad(lambda th: mp.quad(lambda ph: (mp.sin(th) * mp.cos(ph)) ** a * (mp.sin(th) * mp.sin(ph)) ** b * mp.cos(th) ** c * mp.sin(th),
                                             [0, mp.pi, 2 * mp.pi]), [0, mp.pi / 2, mp.pi]) / (4 * mp.pi)
            ctx.count(["sphere-mean", a, b, c], nontrivial=True, tag="sphere-mean")
            if abs(num - mp.mpf(mean(a, b, c).numerator) / mean(a, b, c).denominator) > mp.mpf(10) ** -15:
                ctx.fail("corr", "sphere-mean", f"closed form of the mean of x^{a} y^{b} z^{c} over the sphere is {mean(a, b, c)}, numerical integration gives {mp.nstr(num, 18)}")
    for meth, d, kind, deg, size in ad.selected():
        name = ad.camel(meth, deg, size)
        text = (LEAN / "GridVerif" / "Gen" / "AngularData" / f"{name}.lean").read_text()
        m = re.search(r"def table : Table := ⟨(\d+), (\d+), \[(.*?)\]⟩", text, re.S)
        rows = [tuple(int(x) for x in r.split(",")) for r in re.findall(r"\(([-\d, ]+)\)", m.group(3))]
        kp, kw = int(m.group(1)), int(m.group(2))
        P, W = ang.AngularGrid._load_precomputed_angular_grid(deg, size, meth)
        P, W = np.asarray(P, dtype=float), np.asarray(W, dtype=float)
        ctx.count(["carried", meth, deg, size], nontrivial=True, tag="carried:" + meth)
        same = len(rows) == len(W) == size and all(
            Fraction(r[0], 2 ** kw) == Fraction(float(W[i])) and all(Fraction(r[1 + k], 2 ** kp) == Fraction(float(P[i, k])) for k in range(3))
            for i, r in enumerate(rows))
        if not same:
            ctx.fail("corr", f"carried:{meth}_{deg}_{size}", f"Gen/AngularData/{name}.lean does not denote the arrays the loader returns for {meth}_{deg}_{size}")
            continue
        g = ang.AngularGrid(degree=deg, method=meth, cache=False)
        for a, b, c in [(0, 0, 0)] + [tuple(t) for t in ([ctx.rng.randrange(0, deg + 1) for _ in range(3)] for _ in range(12)) if sum(t) <= deg][:5]:
            exact = sum(Fraction(r[0], 2 ** kw) * Fraction(r[1], 2 ** kp) ** a * Fraction(r[2], 2 ** kp) ** b * Fraction(r[3], 2 ** kp) ** c for r in rows)
            model = float(exact) * (4 * math.pi if kind == "Unit" else 1.0)
            impl = float(g.integrate(g.points[:, 0] ** a * g.points[:, 1] ** b * g.points[:, 2] ** c))
            ctx.count(["carried-moment", meth, deg, a, b, c], nontrivial=a + b + c > 0, tag="carried-moment")
            if not abs(impl - model) <= 1e-13 * 4 * math.pi or not abs(model - 4 * math.pi * float(mean(a, b, c))) <= 2e-12:
                ctx.fail("corr", f"carried:{meth}_{deg}_{size}:moment", f"{meth}_{deg}_{size}: x^{a} y^{b} z^{c}: AngularGrid.integrate {impl!r}, exact table moment {model!r}, "
                         f"4 pi x sphere mean {4 * math.pi * float(mean(a, b, c))!r}", witness={"method": meth, "degree": deg, "monomial": [a, b, c]})


def corr(ctx: Ctx):
    ang = importlib.import_module("grid.angular")
    ut = importlib.import_module("grid.utils")
    from ..common import f2b
    files = all_files(ang)
    _corr_carried(ctx, ang)

    # (1) array oracle vs generic ylmNorm / ylmCode (Lean) vs library, on whole small files: full moment vectors
    small = [f for f in files if f[2] <= 120 and f[1] <= 20]
    for m, d, s in ctx.rng.sample(small, min(len(small), ctx.n(10, 40))) + [("lebedev", 3, 6), ("ahrens_beylkin", 1, 2) if ("ahrens_beylkin", 1, 2) in files else small[0]]:
        g = load(ang, m, d)
        ans = driver_batch([file_line("C02.moments", g.points, g.weights, d)])[0]
        fast = np.array(Tokens(ans[3:]).fvec()) if ans.startswith("ok ") else None
        sph = ut.convert_cart_to_sph(g.points)
        gen = {}
        for op in ("ylmNorm", "ylmCode"):
            rows = driver_batch([f"C08.{op} {d} {f2b(t)} {f2b(p)}" for _, t, p in sph])
            Y = np.array([Tokens(r[3:]).fvec() for r in rows]).T
            gen[op] = Y @ g.weights
        lib = np.asarray(lib_moments(ut, g, d), dtype=float)
        ctx.count(["moments", m, d, s], nontrivial=d >= 2, tag=f"moments:{m}")
        tol = 1e-13 * (d + 1) * max(1.0, float(np.sum(np.abs(g.weights))))
        for name, other in (("ylmNorm", gen["ylmNorm"]), ("ylmCode", gen["ylmCode"]), ("library", lib)):
            if fast is None or fast.shape != other.shape or not np.all(np.abs(fast - other) <= tol):
                i = int(np.argmax(np.abs(fast - other))) if fast is not None and fast.shape == other.shape else -1
                ctx.fail("corr", f"moments:{name}", f"{m}_{d}_{s}: moment row {i}: array oracle {None if fast is None else fast[i]!r}, {name} {other[i] if i >= 0 else None!r}",
                         witness={"method": m, "degree": d, "size": s, "row": i})
    # (1b) high degree: the array oracle on a synthetic weighted point set (incl. both poles and an equator point) against the
    #      generic ylmNorm, all (L+1)^2 moments; and ylmNorm against the 50+-digit definition on sampled rows up to l = 325
    import mpmath as mp
    from .c08 import mp_ylm, row_index
    for L in ([325] if ctx.thorough else [ctx.rng.choice([200, 260, 325])]):
        k = 5
        dirs = ctx.np_rng.normal(size=(k, 3))
        dirs /= np.linalg.norm(dirs, axis=1)[:, None]
        dirs = np.vstack([dirs, [[0.0, 0.0, 1.0], [0.0, 0.0, -1.0], [1.0, 0.0, 0.0]]])
        wts = ctx.np_rng.uniform(0.5, 2.0, size=len(dirs))
        ans = driver_batch([file_line("C02.moments", dirs, wts, L)])[0]
        fast = np.array(Tokens(ans[3:]).fvec()) if ans.startswith("ok ") else None
        sph = ut.convert_cart_to_sph(dirs)
        rows = driver_batch([f"C08.ylmNorm {L} {f2b(t)} {f2b(p)}" for _, t, p in sph])
        Y = np.array([Tokens(r[3:]).fvec() for r in rows]).T
        gen = Y @ wts
        ctx.count(["moments-synthetic", L, dirs.tolist(), wts.tolist()], nontrivial=True, tag="moments:synthetic-high-degree")
        if fast is None or fast.shape != gen.shape or not np.all(np.abs(fast - gen) <= 1e-11 * np.sum(wts)):
            i = int(np.nanargmax(np.abs(fast - gen))) if fast is not None and fast.shape == gen.shape else -1
            ctx.fail("corr", "moments:synthetic", f"degree {L}, {len(dirs)} points: moment row {i}: array oracle {None if fast is None else fast[i]!r}, ylmNorm {gen[i] if i >= 0 else None!r}",
                     witness={"degree": L, "points": dirs.tolist(), "weights": wts.tolist(), "row": i})
        mp.mp.dps = 60 + L
        for j in ctx.rng.sample(range(len(dirs)), 2):
            _, t, p = (float(v) for v in sph[j])
            for _ in range(ctx.n(6, 25)):
                l = ctx.rng.randrange(L // 2, L + 1)
                m = ctx.rng.randrange(-l, l + 1)
                want = float(mp_ylm(mp, l, m, t, p))
                got = float(Y[row_index(l, m), j])
                ctx.count(["ylmNorm-vs-definition", L, l, m, t, p], nontrivial=True, tag="ylmNorm:mpmath-high-degree")
                if not abs(got - want) <= 1e-11:
                    ctx.fail("corr", "ylmNorm:definition", f"ylmNorm({L}, theta={t!r}, phi={p!r}) row (l={l}, m={m}) = {got!r}, definition ({mp.mp.dps} digits) {want!r}",
                             witness={"l_max": L, "theta": t, "phi": p, "l": l, "m": m, "got": got, "want": want})
    # malformed lines
    for bad, want in (("C02.file 2 3 0 0 0 2 0 0", "value-error"), ("C02.file 2 3 0 0", "bad-op"), ("C02.file x 0 0", "bad-op")):
        ctx.count(["malformed", bad], nontrivial=False, tag="malformed")
        if driver_batch([bad])[0] != want:
            ctx.fail("corr", "file:malformed", f"driver answered {driver_batch([bad])[0]} to {bad!r}, expected {want}")

    # (2) per-degree errors: oracle report vs the library integrating its own harmonics, files of moderate degree
    sel = select(ctx, files, ctx.thorough)
    dmax = 75 if ctx.thorough else 40
    aff = [f for f in sel if f[1] <= dmax]
    if not ctx.thorough:
        aff = [f for f in aff if f[1] <= 12] + ctx.rng.sample([f for f in aff if f[1] > 12], min(30, len([f for f in aff if f[1] > 12])))
    reps = run_files(aff)
    for (m, d, s), rep in zip(aff, reps):
        ctx.count(["lib-vs-oracle", m, d, s], nontrivial=d >= 2, tag=f"lib-vs-oracle:{m}")
        if "err" not in rep:
            ctx.fail("corr", "file:answer", f"{m}_{d}_{s}: driver answered {rep['answer']}")
            continue
        g = load(ang, m, d)
        e = err_by_degree(lib_moments(ut, g, d), d)
        tol = 1e-12 * (d + 1) * max(1.0, float(np.sum(np.abs(g.weights))) / FOUR_PI)
        bad = np.nonzero(~(np.abs(e - rep["err"]) <= tol + 1e-6 * np.maximum(e, rep["err"])))[0]
        if len(bad):
            l = int(bad[0])
            ctx.fail("corr", f"lib-vs-oracle:{m}", f"{m}_{d}_{s}: integration error at l={l}: library harmonics {e[l]!r}, Lean oracle {rep['err'][l]!r}",
                     witness={"method": m, "degree": d, "size": s, "l": l, "library": float(e[l]), "oracle": float(rep["err"][l])})
        if rep["n"] != g.size or not abs(rep["sumw"] - rep["impl_sumw"]) <= 1e-12 * max(1.0, abs(rep["impl_sumw"])) \
                or not abs(rep["dev"] - rep["impl_dev"]) <= 4e-16:
            ctx.fail("corr", f"report:{m}", f"{m}_{d}_{s}: oracle size/sum/deviation {rep['n']}, {rep['sumw']!r}, {rep['dev']!r} vs NumPy "
                     f"{g.size}, {rep['impl_sumw']!r}, {rep['impl_dev']!r}")


# --------------------------------------------------------------------------------------
# oracle: the property itself, file by file
# --------------------------------------------------------------------------------------
SNIPPET = """import warnings; warnings.filterwarnings('ignore')
import numpy as np
from scipy.special import sph_harm_y
from grid.angular import AngularGrid
method, degree, size, l = {method!r}, {degree}, {size}, {l}
g = AngularGrid(degree=degree, method=method, cache=False)
assert g.degree == degree and g.size == size, f'AngularGrid(degree={{degree}}, method={{method}}) has degree {{g.degree}}, size {{g.size}}'
assert np.max(np.abs(np.linalg.norm(g.points, axis=1) - 1)) <= 1e-12, 'points are not on the unit sphere'
x, y, z = g.points.T
pol, az = np.arccos(np.clip(z, -1, 1)), np.arctan2(y, x)
worst = 0.0
for m in range(0, l + 1):                      # independent of the library: SciPy's complex harmonics
    v = np.sum(g.weights * sph_harm_y(l, m, pol, az))
    if l == 0: v = v - np.sqrt(4*np.pi)
    worst = max(worst, abs(v.real), abs(v.imag))
assert worst <= 1e-9, f'{{method}}_{{degree}}_{{size}}: |sum_i w_i Y_(l={{l}},m)(p_i) - sqrt(4 pi) delta_l0| = {{worst:.3e}} for some m, advertised degree {{degree}}'
"""


def confirm_mp(g, l, m):
    """30-digit evaluation of the definition: |sum_i w_i Y_lm(p_i) - sqrt(4 pi) delta_l0| for one (l, m), m < 0 = sine row
    (explicit sum for the Legendre function, no recursion; principal angles from the Cartesian coordinates)."""
    import mpmath as mp
    mp.mp.dps = 30 + l // 2
    a = abs(m)
    cs = [(l - 2 * k - a, mp.mpf((-1) ** k * math.comb(l, k) * math.comb(2 * l - 2 * k, l) * math.factorial(l - 2 * k)) /
           (math.factorial(l - 2 * k - a) * 2 ** l)) for k in range((l - a) // 2 + 1)]
    nrm = mp.sqrt(mp.mpf(2 * l + 1) / (4 * mp.pi) * mp.factorial(l - a) / mp.factorial(l + a)) * (1 if m == 0 else mp.sqrt(2))
    tot = mp.mpf(0)
    for p, w in zip(g.points, g.weights):
        x, y, z = (mp.mpf(float(v)) for v in p)
        rho = mp.sqrt(x * x + y * y)
        r = mp.sqrt(x * x + y * y + z * z)
        az = mp.atan2(y, x) if rho != 0 else mp.mpf(0)
        zc = z / r
        z2 = zc * zc
        # Horner in z^2 (exponents descend by 2)
        acc = mp.mpf(0)
        for e, c in cs:
            acc = acc * z2 + c
        plm = (rho / r) ** a * acc * zc ** cs[-1][0]
        tot += mp.mpf(float(w)) * nrm * plm * (mp.cos(a * az) if m >= 0 else mp.sin(a * az))
    if l == 0:
        tot -= mp.sqrt(4 * mp.pi)
    return float(abs(tot))


SPELL_SNIPPET = """import warnings; warnings.filterwarnings('ignore')
import numpy as np
from grid.angular import AngularGrid
a = AngularGrid({kw}={val}, method={spell!r}, cache={cache})
b = AngularGrid({kw}={val}, method={low!r}, cache=False)
assert np.array_equal(a.points, b.points) and np.array_equal(a.weights, b.weights), 'the grid depends on the spelling of the method name'
assert abs(a.weights.sum() - 4 * np.pi) < 1e-9, a.weights.sum()
"""


STATE_SNIPPET = """import numpy as np
from grid.angular import AngularGrid
first = AngularGrid(degree={d}, method={m!r})
p, w = first.points.copy(), first.weights.copy()
first.points[...] *= 3.0; first.weights[...] *= 2.5      # the owner turns its grid into a radial shell
g = AngularGrid(method={m!r}, **{kw!r})
assert abs(g.weights.sum() - 4 * np.pi) < 1e-9 and np.array_equal(g.points, p) and np.array_equal(g.weights, w), (g.weights.sum(), 4 * np.pi)
"""


def _oracle_call_paths(ctx: Ctx, ang):
    """Every way of constructing the same quadrature gives the same grid: spelling of the method name (the API
    lower-cases it), degree= vs size=, cache on/off, first and repeated construction."""
    methods = ["lebedev", "spherical", "maxdet", "ahrens_beylkin"]
    for m in methods:
        degs = sorted(ang.AngularGrid._get_degree_and_size(degree=d, size=None, method=m)[0] for d in (3, 9, 14))
        for d in sorted(set(degs))[:2]:
            if (m, d) in (("ahrens_beylkin", 39), ("ahrens_beylkin", 127)):
                continue
            ref = ang.AngularGrid(degree=d, method=m, cache=False)
            for spell in (m.upper(), m.title(), m[0].upper() + m[1:]):
                for kw, val in (("degree", d), ("size", ref.size)):
                    for cache in (False, True, True):
                        try:
                            g = ang.AngularGrid(**{kw: val}, method=spell, cache=cache)
                        except ValueError:
                            ctx.info(f"method spelling {spell!r} is rejected")
                            break
                        ctx.count(["call-path", spell, kw, val, cache], nontrivial=True, tag="call-path:" + m)
                        if not (np.array_equal(g.points, ref.points) and np.array_equal(g.weights, ref.weights)
                                and abs(float(g.weights.sum()) - 4 * np.pi) < 1e-9):
                            ctx.fail("oracle", f"angular.AngularGrid:{m}:method-spelling",
                                     f"AngularGrid({kw}={val}, method={spell!r}, cache={cache}) differs from the grid built with method={m!r} "
                                     f"(sum of weights {float(g.weights.sum())!r}, 4 pi = {4 * np.pi!r})",
                                     witness={"method": spell, kw: val, "cache": cache},
                                     snippet=SPELL_SNIPPET.format(kw=kw, val=val, spell=spell, low=m, cache=cache))
    # state between constructions: the owner of a grid scales it in place (a radial shell: points *= r, weights *= r^2 w);
    # every grid constructed afterwards must still be the shipped quadrature
    for m in methods:
        d = ang.AngularGrid._get_degree_and_size(degree=ctx.rng.choice([3, 5, 9, 14]), size=None, method=m)[0]
        if (m, d) in (("ahrens_beylkin", 39), ("ahrens_beylkin", 127)):
            continue
        first = ang.AngularGrid(degree=d, method=m)
        ref_p, ref_w = first.points.copy(), first.weights.copy()
        first.points[...] *= 3.0
        first.weights[...] *= 2.5
        for how, kw in (("degree, cache=True", dict(degree=d)), ("size, cache=True", dict(size=len(ref_w))), ("degree, cache=False", dict(degree=d, cache=False))):
            g = ang.AngularGrid(method=m, **kw)
            ctx.count(["state", m, d, how], nontrivial=True, tag="state:" + m)
            if not (np.array_equal(g.points, ref_p) and np.array_equal(g.weights, ref_w)):
                ctx.fail("oracle", f"angular.AngularGrid:{m}:after-inplace-edit",
                         f"AngularGrid({how}, method={m!r}, degree {d}) constructed after an earlier grid of the same degree was scaled in place by its "
                         f"owner is not the shipped quadrature: weights sum to {float(g.weights.sum())!r} (4 pi = {4 * np.pi!r}), "
                         f"max |p| = {float(np.abs(np.linalg.norm(g.points, axis=1)).max())!r}",
                         witness={"method": m, "degree": d, "construction": how},
                         snippet=STATE_SNIPPET.format(m=m, d=d, kw=kw))
    for c in ("LEBEDEV_CACHE", "SPHERICAL_CACHE", "MAX_DET_CACHE", "AHRENS_BEYLKIN_CACHE"):
        getattr(ang, c).clear()


def oracle(ctx: Ctx, budget: str):
    ang = importlib.import_module("grid.angular")
    _oracle_call_paths(ctx, ang)
    files = all_files(ang)
    everything = ctx.thorough or budget == "large"
    sel = select(ctx, files, everything)
    # quick tier: every file that is not fully checked in this run is screened on a few orders m (all l <= degree):
    # m = 1, 2, 3 and five VERIF_SEED-chosen ones
    chosen = set(sel)
    screen = []
    for f in files:
        if f not in chosen:
            pool = list(range(4, f[1] + 1))
            screen.append((*f, sorted([1, 2, 3] + ctx.rng.sample(pool, min(5, len(pool))))))
    t0 = time.time()
    reps = run_files(sel + screen)
    sreps = reps[len(sel):]
    reps = reps[:len(sel)]
    ctx.extra["oracle_wall_s"] = round(time.time() - t0, 1)
    ctx.extra["files_screened_on_8_orders"] = len(screen)
    ctx.extra["files_total"] = len(files)
    ctx.extra["files_checked"] = len(sel)
    ctx.extra["files_by_method"] = {m: sum(1 for f in sel if f[0] == m) for m in METHODS}
    ctx.extra["harmonics_integrated"] = int(sum((f[1] + 1) ** 2 for f in sel))
    ctx.exhaustive = everything and len(sel) == len(files)
    worst_pass = 0.0
    for job, rep in list(zip(sel, reps)) + list(zip(screen, sreps)):
        m, d, s = job[:3]
        name = f"{m}_{d}_{s}"
        key = f"angular:{name}"
        ctx.count(["file", m, d, s] + ([job[3]] if len(job) > 3 else []), nontrivial=d >= 2,
                  tag=(f"file:{m}" if len(job) == 3 else f"screen:{m}"))
        if "err" not in rep:
            ctx.fail("corr", "file:answer", f"{name}: driver answered {rep['answer']}")
            continue
        # loader / table / normalisation in the loop
        if rep["grid_degree"] != d or rep["grid_size"] != s or rep["n"] != s or not rep["shape_ok"]:
            ctx.fail("oracle", key, f"{name}: AngularGrid(degree={d}, method={m}) has degree {rep['grid_degree']}, size {rep['grid_size']} "
                     f"({rep['n']} points reached the oracle); advertised size {s}", witness=_wit(rep))
            continue
        if not max(rep["dev"], rep["impl_dev"]) <= SPHERE_TOL:
            ctx.fail("oracle", key, f"{name}: points are off the unit sphere by {max(rep['dev'], rep['impl_dev']):.3e}", witness=_wit(rep))
            continue
        err = rep["err"]
        bad = np.nonzero(~(err <= THRESH))[0]
        if len(bad) == 0:
            worst_pass = max(worst_pass, float(np.max(err)))
            if not abs(rep["sumw"] - FOUR_PI) <= 1e-9:      # implied by l = 0, kept as a separate visible clause
                ctx.fail("oracle", key, f"{name}: weights sum to {rep['sumw']!r}, not 4 pi", witness=_wit(rep))
            continue
        first, worst = int(bad[0]), int(np.nanargmax(np.where(np.isnan(err), np.inf, err)))
        g = load(ang, m, d)
        scr = "" if rep["orders"] is None else f" [screen on the orders |m| in {[0] + rep['orders']}]"
        conf = confirm_mp(g, worst, rep["arg"][worst])
        conf_first = confirm_mp(g, first, rep["arg"][first]) if first != worst else conf
        what = (f"{name}: not exact to its advertised degree {d}: max_m |sum_i w_i Y_lm(p_i) - sqrt(4 pi) delta_l0| = "
                f"{err[worst]:.3e} at l = {worst} (first degree above {THRESH:g}: l = {first}, {err[first]:.3e}; {len(bad)} degrees fail; "
                f"sum of weights - 4 pi = {rep['sumw'] - FOUR_PI:.3e}); mpmath (30+ digits, definition): "
                f"{conf:.3e} at (l, m) = ({worst}, {rep['arg'][worst]})" + scr)
        if not abs(conf - err[worst]) <= 1e-9 + 1e-6 * conf:
            # the oracle and the independent evaluation disagree: that is a broken tie, not a finding
            ctx.fail("corr", f"oracle-vs-mpmath:{name}", f"{name}: Lean oracle reports {err[worst]:.3e} at l={worst}, mpmath {conf:.3e}")
            continue
        w = _wit(rep)
        w.update(first_bad_l=first, worst_l=worst, worst_m=rep["arg"][worst], worst_err=float(err[worst]), mpmath_worst=conf, mpmath_first=conf_first,
                 failing_degrees=[int(b) for b in bad[:40]])
        ctx.fail("oracle", key, what, witness=w, snippet=SNIPPET.format(method=m, degree=d, size=s, l=worst))
    ctx.extra["max_integration_error_of_passing_files"] = worst_pass
    ctx.extra["threshold"] = THRESH
    # data files no table entry points to
    extra = []
    for m in METHODS:
        known = {f"{m}_{d}_{s}.npz" for mm, d, s in files if mm == m}
        for p in sorted((SRC / "data" / DIRS[m]).glob("*.npz")):
            if p.name not in known:
                extra.append(p.name)
    if extra:
        ctx.info(f"data files not reachable through AngularGrid (not part of the property): {', '.join(extra)}")


def _wit(rep):
    return {k: v for k, v in rep.items() if k not in ("err", "arg", "answer")}

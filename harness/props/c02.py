"""C02 — every shipped angular grid is exact to its advertised degree."""
import concurrent.futures as cf
import importlib
import math
import os
import time

import numpy as np

from ..common import SRC, Ctx, Tokens, driver_batch

LEVEL = "exploration"
LEVEL_TEXT = (
    "Exploration, complete in the thorough tier: a finite statement about the numeric content of 450 data files. "
    "Every file that AngularGrid can construct (32 Lebedev, 163 spherical designs, 199 maximum-determinant, 56 "
    "Ahrens-Beylkin) is loaded through AngularGrid(degree, method) and handed to an independent executable oracle "
    "written in Lean and compiled into the driver (Model/Harmonics.lean: AngularCheck.file): deviation of the points "
    "from the unit sphere, size, sum of the weights and, for EVERY (l, m) with l <= advertised degree, "
    "|sum_i w_i Y_lm(p_i) - sqrt(4 pi) delta_l0| with the fully normalised recursion (Cartesian input, no libm "
    "function except sqrt). Thorough tier: all files, all (l, m) (exhaustive: true). Quick tier: all Lebedev and "
    "Ahrens-Beylkin files, all files of degree <= 30, and a VERIF_SEED-chosen 10 % of the rest completely; every remaining "
    "file is screened for all l <= degree on the orders |m| in {0, 1, 2, 3} and five VERIF_SEED-chosen ones. The oracle is anchored "
    "by the C08 theorems about the code-shaped recursion (row order, normalisation, closed forms l <= 3) and by the Lean "
    "theorem ylm_norm_eq_code (over the reals the normalised recursion of the oracle returns the rows of the code-shaped "
    "recursion, every l_max); the array implementation that runs on the files is tied to the generic Lean recursions "
    "ylmNorm/ylmCode and to the library's own harmonics by differential runs. "
    "Proof tier (partial, in addition): the 28 smallest tables (Lebedev degree <= 17, spherical designs <= 13, maximum-determinant <= 12, "
    "Ahrens-Beylkin 14) are "
    "regenerated from the .npz files on every run into Gen/AngularData/*.lean as exact dyadic rationals; in each generated file the kernel "
    "decides (decide +kernel, exact integer arithmetic) that every monomial x^a y^b z^c of total degree <= the advertised degree is "
    "integrated to 1e-13 and that every node is on the unit sphere to 1e-13 (the 8 larger tables: one kernel statement per first exponent, "
    "per-node moments by iterated multiplication; Props/C02/Slice.lean proves that the sliced evaluation computes the same integer moments, "
    "sliceMoments_eq / allOkUnit_of_slices / allOk4pi_of_slices); Props/C02/Sound.lean turns this into statements about the "
    "rational quadrature sums (allOkUnit_sound, allOk4pi_sound with Mathlib's 20-digit enclosure of pi) and, by linearity, about every "
    "polynomial of that degree (poly_bound); onSphere_sound / all_on_sphere: | |p|^2 - 1 | <= 1e-13 for every node of every carried table. "
    "The closed form of the monomial means over the sphere is stated, not derived (checked "
    "against numerical integration by the correspondence). For the other 422 files no theorem is claimed (kernel cost grows with "
    "nodes x monomials: about 0.3 .. 0.6 ms and 10 kB per pair; spherical_15_120 and maxdet_13_196 need more than 60 s of CPU)."
)
TECHNIQUE = ("complete enumeration with a native Lean oracle (normalised spherical-harmonic recursion), cross-checked against "
             "the library's own harmonics and, for failing files, a 30-digit mpmath evaluation of the definition")
GEN = ["angular_data"]
LEAN_MODULES = ["GridVerif.Props.C08", "GridVerif.Props.C02.Exact", "GridVerif.Props.C02.OnSphere"]
CARRIED = ["lebedev_3_6", "lebedev_5_18", "lebedev_7_26", "lebedev_9_38", "lebedev_11_50", "spherical_1_2", "spherical_3_6", "spherical_5_12",
           "spherical_7_32", "spherical_9_48", "spherical_11_70", "maxdet_1_4", "maxdet_2_9", "maxdet_3_16", "maxdet_4_25", "maxdet_5_36",
           "maxdet_6_49", "maxdet_7_64", "maxdet_8_81", "maxdet_9_100"]
# round 3: kernel check stated slice by slice (translate/angular_data.py COST_MAX)
CARRIED_SLICED = ["lebedev_13_74", "lebedev_15_86", "lebedev_17_110", "spherical_13_94", "maxdet_10_121", "maxdet_11_144", "maxdet_12_169",
                  "ahrens_beylkin_14_72"]
# no theorem about the data; these C08 theorems anchor the harmonics the oracle integrates (order, normalisation, sign)
THEOREMS = [
    "GridVerif.C08.row_index_bij",
    "GridVerif.C08.ylm_rows_spec",
    "GridVerif.C08.ylm_normalisation",
    "GridVerif.C08.ylm_low_degree",
    "GridVerif.C08.ylm_norm_eq_code",
    "GridVerif.C08.weights_sum",
    # proof tier: the 20 smallest shipped tables, regenerated into Lean as exact dyadic rationals, integrate every monomial of
    # degree <= advertised degree to 1e-13 (kernel-decided integer statements + soundness over Q / R + linearity)
    "GridVerif.C02.allOkUnit_sound", "GridVerif.C02.allOk4pi_sound", "GridVerif.C02.quadQ_eq", "GridVerif.C02.poly_bound",
    "GridVerif.C02.carried_eq", "GridVerif.C02.lebedev_11_50_poly",
] + [f"GridVerif.C02.{n}_exact" for n in CARRIED] + [
    # round 3: the sliced kernel evaluation computes the same integer moments (so the 8 larger tables are exact too), and the
    # integer test onSphere means | |p|^2 - 1 | <= 1e-13 for every node of every carried table
    "GridVerif.C02.sliceMoments_eq", "GridVerif.C02.sliceOkUnit_iff", "GridVerif.C02.sliceOk4pi_iff",
    "GridVerif.C02.allOkUnit_of_slices", "GridVerif.C02.allOk4pi_of_slices", "GridVerif.C02.slices_of_allOkUnit",
    "GridVerif.C02.lebedev_17_110_poly",
    "GridVerif.C02.onSphere_sound", "GridVerif.C02.norm_window", "GridVerif.C02.all_on_sphere", "GridVerif.C02.carried_sizes",
] + [f"GridVerif.C02.{n}_exact" for n in CARRIED_SLICED] + [f"GridVerif.C02.{n}_on_sphere" for n in CARRIED + CARRIED_SLICED]
RULE = (
    "one evaluation = one data file loaded through AngularGrid(degree, method) and checked by the Lean oracle for all (l, m) "
    "with l <= advertised degree (quick tier: the files outside the full selection are screened on 9 orders m, all l; "
    "plus: moments of small files compared between the array oracle, the generic Lean "
    "recursions ylmNorm / ylmCode and the library's own harmonics, and on a synthetic point set at degree 200..325 with "
    "ylmNorm checked against the 300-digit mpmath definition on sampled rows; library-side integration of its own harmonics for "
    "files of degree <= 40 quick / <= 75 thorough compared with the oracle's per-degree errors; "
    "construction histories: one evaluation = one history of constructions by every route (spelling, degree / size, exact / rounded up, NumPy "
    "integers, cache on / off), in-place edits and setter assignments on grids handed out earlier, uses of the public methods in any order, "
    "every construction and every unedited grid compared with the .npz file; the same in fresh interpreters starting with cache=False; requests "
    "at both ends of every table; the carried tables: all monomials in exact integer arithmetic at 1e-13; "
    "round 4: EVERY file every run built by degree and by size and compared with the content of its .npz file (points exactly, weights up to "
    "the 4 pi of the normalised families); every documented argument combination (positional / keyword / None / explicit defaults, degree and "
    "size together) on the smallest grids of every method; refused calls (constructor and methods) inside the histories: no trace; integrate of "
    "complex / single / long double / integer values of the complex harmonics; the library's harmonics on shipped nodes with randomly "
    "modulated weights, row by row against the oracle, above degree 150 in the thorough tier; "
    "round 5: EVERY constructible grid through the library's own AngularGrid(...).integrate with one, two and three value arrays (1, Y_00, sectoral "
    "and next-to-sectoral harmonics up to the advertised degree, orthonormality products, SciPy's (l, m) where affordable) against the sum over "
    ".points / .weights and the exact integral; refilled / other-precision value arrays; plain grids of sizes at and next to block boundaries; "
    "degree / size given in other number types). "
    "non-trivial = advertised degree >= 2"
)
TRUSTED_BASE = [
    "Lean compiler/runtime for Float (the oracle is a native executable, not a kernel computation)",
    "hand-written oracle Model/Harmonics.lean (AngularCheck.file, ylmNorm); tied to ylmCode (the model the C08 theorems "
    "are about) and to both library implementations by differential runs up to degree 60, on whole files up to degree 75",
    "np.load / AngularGrid loader as the route by which the data reach the oracle",
    "IEEE double rounding: integration errors are accepted up to 1e-9 (measured over all 450 files: every passing file "
    "<= 3.3e-12 at every degree; the two defective files 7e-6 .. 0.26 at their failing degrees) - three orders of margin on either side",
]
ASSUMPTIONS = [
    "the advertised degree of a file is the degree in the tables of angular.py (= the file name)",
    "files in the data directories that no table entry points to (lebedev_3_8, _3_12, _5_14, ...) cannot be constructed "
    "and are not part of the property",
]

METHODS = ["lebedev", "spherical", "maxdet", "ahrens_beylkin"]
PREFIX = {"lebedev": "LEBEDEV", "spherical": "SPHERICAL", "maxdet": "MAX_DET", "ahrens_beylkin": "AHRENS_BEYLKIN"}
DIRS = {"lebedev": "lebedev", "spherical": "spherical_design", "maxdet": "maxdet", "ahrens_beylkin": "ahrens_beylkin"}
THRESH = 1e-9          # integration error (justification: see TRUSTED_BASE, measured maximum goes to the evidence)
SPHERE_TOL = 1e-12     # | |p| - 1 |
FOUR_PI = 4 * math.pi

_REPORTS = {}          # (method, degree) -> report dict, shared by corr and oracle within one run


def _library_raised(e):
    """did the exception come out of the library (innermost frame inside src/grid, not its tests)?"""
    import traceback
    tb = traceback.extract_tb(e.__traceback__)
    return bool(tb) and str(SRC) in tb[-1].filename and "/tests/" not in tb[-1].filename


def _parts(ctx: Ctx, stage, parts):
    """Round 4: the stage runs as independent parts.  An exception ends only the part it occurs in: when the library raised
    on the (legitimate) inputs of that part it is a failing input of the property (`angular:<part>:raises`); anything else
    (driver, translator, the harness itself) is kept, the remaining parts still run, and the first such exception is raised
    again at the end, where the runner reports it as a broken tie."""
    import traceback
    first = None
    for name, fn in parts:
        try:
            fn()
        except Exception as e:
            if _library_raised(e) and not isinstance(e, AssertionError):
                ctx.fail("oracle", f"angular:{name}:raises", f"{stage} part `{name}`: the library raised {type(e).__name__}: {str(e)[:300]} on an admissible input",
                         witness={"part": name, "traceback": traceback.format_exc()[-1800:]})
            elif first is None:
                first = e
                ctx.info(f"{stage} part `{name}` raised {type(e).__name__}: {str(e)[:200]} (the other parts were still run)")
    if first is not None:
        raise first


def all_files(ang):
    """[(method, degree, size)] of everything AngularGrid can construct."""
    out = []
    for m in METHODS:
        for d, s in getattr(ang, PREFIX[m] + "_DEGREES").items():
            out.append((m, int(d), int(s)))
    return out


def select(ctx: Ctx, files, everything: bool):
    if everything:
        return list(files)
    keep, rest = [], []
    for f in files:
        (keep if f[0] in ("lebedev", "ahrens_beylkin") or f[1] <= 30 else rest).append(f)
    k = max(1, round(0.10 * len(rest)))
    return keep + ctx.rng.sample(rest, k)


def load(ang, m, d):
    import warnings
    with warnings.catch_warnings():
        warnings.simplefilter("ignore")
        return ang.AngularGrid(degree=d, method=m, cache=False)


def _bits(a):
    return " ".join(map(str, np.ascontiguousarray(a, dtype="<f8").reshape(-1).view("<u8").tolist()))


def file_line(op, points, weights, degree):
    return f"{op} {degree} {3 * len(weights)} {_bits(points)} {len(weights)} {_bits(weights)}"


def _run_one(job):
    """One file; an exception (the loader rejecting the file, a dead driver) is part of the report of that file and does not
    take the other files down."""
    try:
        return _run_one_raw(job)
    except Exception as e:
        import traceback
        return {"method": job[0], "degree": job[1], "size": job[2], "orders": job[3] if len(job) > 3 else None,
                "answer": "", "error": f"{type(e).__name__}: {str(e)[:300]}", "library": _library_raised(e),
                "traceback": traceback.format_exc()[-1500:]}


def _run_one_raw(job):
    """job = (method, degree, size[, orders]) -> report via a driver process of its own; with `orders` only the screen
    restricted to those orders |m| (and m = 0) is evaluated."""
    ang = importlib.import_module("grid.angular")
    m, d, s = job[:3]
    orders = job[3] if len(job) > 3 else None
    t0 = time.time()
    g = load(ang, m, d)
    rep = {"method": m, "degree": d, "size": s, "grid_degree": int(g.degree), "grid_size": int(g.size),
           "impl_sumw": float(np.sum(g.weights)), "impl_dev": float(np.max(np.abs(np.linalg.norm(g.points, axis=1) - 1.0))),
           "shape_ok": g.points.shape == (g.size, 3) and g.weights.shape == (g.size,)}
    if orders is None:
        ans = driver_batch([file_line("C02.file", g.points, g.weights, d)], timeout=7200)[0]
    else:
        op = f"C02.screen {d} {len(orders)} " + " ".join(map(str, orders))
        line = file_line("X", g.points, g.weights, d)
        ans = driver_batch([op + line[len(f"X {d}"):]], timeout=7200)[0]
    rep["orders"] = orders
    rep["answer"] = ans[:40]
    if ans.startswith("ok "):
        T = Tokens(ans[3:])
        rep["n"] = T.nat()
        rep["dev"] = T.flt()
        rep["sumw"] = T.flt()
        rep["err"] = np.array(T.fvec())
        rep["arg"] = T.vec(int)
    rep["wall"] = time.time() - t0
    return rep


def run_files(jobs):
    """Reports for the jobs not yet evaluated in this process; several driver processes in parallel."""
    key = lambda j: (j[0], j[1], None if len(j) < 4 else tuple(j[3]))
    todo = [j for j in jobs if key(j) not in _REPORTS]
    todo.sort(key=lambda j: -j[2] * (j[1] + 1) * ((j[1] + 1) if len(j) < 4 else 2 * len(j[3])))
    nproc = int(os.environ.get("VERIF_JOBS", "0")) or (os.cpu_count() or 4)
    if todo:
        with cf.ThreadPoolExecutor(max_workers=nproc) as ex:
            for j, rep in zip(todo, ex.map(_run_one, todo)):
                _REPORTS[key(j)] = rep
    return [_REPORTS[key(j)] for j in jobs]


def lib_moments(ut, g, L, chunk=4000):
    """sum_i w_i Y_lm(p_i) with the library's own conversion and recursion (long double)."""
    acc = np.zeros((L + 1) ** 2, dtype=np.longdouble)
    for a in range(0, g.size, chunk):
        sph = ut.convert_cart_to_sph(g.points[a:a + chunk])
        Y = ut.generate_real_spherical_harmonics(L, sph[:, 1], sph[:, 2])
        acc += Y @ g.weights[a:a + chunk].astype(np.longdouble)
    return acc


def err_by_degree(mom, L):
    e = np.zeros(L + 1)
    for l in range(L + 1):
        blk = np.array(mom[l * l:(l + 1) ** 2], dtype=float)
        if l == 0:
            blk = blk - math.sqrt(FOUR_PI)
        e[l] = np.max(np.abs(blk))
    return e


# --------------------------------------------------------------------------------------
# correspondence: the oracle against the generic Lean recursions and the library's harmonics
# --------------------------------------------------------------------------------------
def _corr_carried(ctx: Ctx, ang):
    """The tables carried into Lean (Gen/AngularData/*.lean): (a) the integers of the generated file denote exactly the arrays
    the loader hands to AngularGrid; (b) the exact rational moments of that table, times 4 pi where the constructor multiplies,
    agree with AngularGrid(...).integrate of the monomial; (c) the closed form of the sphere means used by the theorems agrees
    with an independent numerical integration (mpmath, product Gauss-Legendre x trapezoid, exact for these polynomials)."""
    import re
    from fractions import Fraction
    from ..common import LEAN
    from ..translate import angular_data as ad
    import mpmath as mp

    def dfact(n):
        return 1 if n <= 1 else n * dfact(n - 2)

    def mean(a, b, c):
        if a % 2 or b % 2 or c % 2:
            return Fraction(0)
        return Fraction(dfact(a - 1) * dfact(b - 1) * dfact(c - 1), dfact(a + b + c + 1))
    # (c) closed form vs numerical integration
    with mp.workdps(30):
        for a, b, c in [(0, 0, 0), (2, 0, 0), (0, 2, 2), (4, 2, 0), (2, 2, 2), (6, 0, 4), (1, 2, 0), (3, 3, 2), (8, 2, 0), (4, 4, 2)] + \
                [tuple(ctx.rng.randrange(0, 10) for _ in range(3)) for _ in range(12)]:
            # the integrand (sin th cos ph)^a (sin th sin ph)^b cos^c th sin th is a product of a function of th and one of ph
            # (Fubini): two one-dimensional quadratures instead of a nested one (the nested form took 5 .. 15 s per monomial)
            num = (mp.quad(lambda th: mp.sin(th) ** (a + b + 1) * mp.cos(th) ** c, [0, mp.pi / 2, mp.pi])
                   * mp.quad(lambda ph: mp.cos(ph) ** a * mp.sin(ph) ** b, [0, mp.pi / 2, mp.pi, 3 * mp.pi / 2, 2 * mp.pi])) / (4 * mp.pi)
            ctx.count(["sphere-mean", a, b, c], nontrivial=True, tag="sphere-mean")
            if abs(num - mp.mpf(mean(a, b, c).numerator) / mean(a, b, c).denominator) > mp.mpf(10) ** -15:
                ctx.fail("corr", "sphere-mean", f"closed form of the mean of x^{a} y^{b} z^{c} over the sphere is {mean(a, b, c)}, numerical integration gives {mp.nstr(num, 18)}")
    for meth, d, kind, deg, size in ad.selected():
        name = ad.camel(meth, deg, size)
        text = (LEAN / "GridVerif" / "Gen" / "AngularData" / f"{name}.lean").read_text()
        m = re.search(r"def table : Table := ⟨(\d+), (\d+), \[(.*?)\]⟩", text, re.S)
        rows = [tuple(int(x) for x in r.split(",")) for r in re.findall(r"\(([-\d, ]+)\)", m.group(3))]
        kp, kw = int(m.group(1)), int(m.group(2))
        P, W = ang.AngularGrid._load_precomputed_angular_grid(deg, size, meth)
        P, W = np.asarray(P, dtype=float), np.asarray(W, dtype=float)
        ctx.count(["carried", meth, deg, size], nontrivial=True, tag="carried:" + meth)
        same = len(rows) == len(W) == size and all(
            Fraction(r[0], 2 ** kw) == Fraction(float(W[i])) and all(Fraction(r[1 + k], 2 ** kp) == Fraction(float(P[i, k])) for k in range(3))
            for i, r in enumerate(rows))
        if not same:
            ctx.fail("corr", f"carried:{meth}_{deg}_{size}", f"Gen/AngularData/{name}.lean does not denote the arrays the loader returns for {meth}_{deg}_{size}")
            continue
        # (d) the integer tests of Model/SphereQuad.lean run natively (driver op C02.table) on the integers of the generated file:
        #     the sliced moments are the exact integer moments, sliced and direct test accept the table, and both reject it after
        #     one coordinate lost its sign (still on the sphere): the test can fail
        def table_line(rs, a):
            return f"C02.table {'unit' if kind == 'Unit' else '4pi'} {kp} {kw} {deg} {ad.TOL_INV} {a} {4 * len(rs)} " + " ".join(str(v) for r in rs for v in r)
        slices = sorted({0, deg, ctx.rng.randrange(0, deg + 1), ctx.rng.randrange(0, deg + 1)})
        i_big = max(range(len(rows)), key=lambda i: abs(rows[i][1]))
        flipped = [r if i != i_big else (r[0], -r[1], r[2], r[3]) for i, r in enumerate(rows)]
        answers = driver_batch([table_line(rows, a) for a in slices] + [table_line(flipped, 1 if deg >= 1 else 0)])
        for a, ans in zip(slices, answers):
            ctx.count(["carried-slice", meth, deg, size, a], nontrivial=True, tag="carried-slice")
            want = [sum(r[0] * r[1] ** a * r[2] ** b * r[3] ** c for r in rows) for b in range(deg + 1 - a) for c in range(deg + 1 - a - b)]
            got = None
            if ans.startswith("ok "):
                T = Tokens(ans[3:])
                flags = (T.nat(), T.nat(), T.nat())
                got = T.vec(int)
            if got != want or flags != (1, 1, 1):
                ctx.fail("corr", f"carried:{meth}_{deg}_{size}:slice", f"{meth}_{deg}_{size}, slice a = {a}: the native evaluation of sliceMoments / sliceOk / direct test / onSphere "
                         f"answers {ans[:60]!r}; the exact integer moments {'agree' if got == want else 'differ'}", witness={"method": meth, "degree": deg, "slice": a})
        ans = answers[-1]
        if deg >= 1 and abs(2 * rows[i_big][0] * rows[i_big][1]) * ad.TOL_INV > 2 ** (kw + kp) * (1 if kind == "Unit" else 13) and not ans.startswith("ok 0 0 1 "):
            ctx.fail("corr", f"carried:{meth}_{deg}_{size}:slice", f"{meth}_{deg}_{size} with the sign of x[{i_big}] flipped: the integer tests answer {ans[:40]!r}, expected rejection "
                     f"(`ok 0 0 1 …`: sliced and direct test fail, nodes still on the sphere)", witness={"method": meth, "degree": deg, "node": i_big})
        g = ang.AngularGrid(degree=deg, method=meth, cache=False)
        for a, b, c in [(0, 0, 0)] + [tuple(t) for t in ([ctx.rng.randrange(0, deg + 1) for _ in range(3)] for _ in range(12)) if sum(t) <= deg][:5]:
            exact = sum(Fraction(r[0], 2 ** kw) * Fraction(r[1], 2 ** kp) ** a * Fraction(r[2], 2 ** kp) ** b * Fraction(r[3], 2 ** kp) ** c for r in rows)
            model = float(exact) * (4 * math.pi if kind == "Unit" else 1.0)
            impl = float(g.integrate(g.points[:, 0] ** a * g.points[:, 1] ** b * g.points[:, 2] ** c))
            ctx.count(["carried-moment", meth, deg, a, b, c], nontrivial=a + b + c > 0, tag="carried-moment")
            if not abs(impl - model) <= 1e-13 * 4 * math.pi or not abs(model - 4 * math.pi * float(mean(a, b, c))) <= 2e-12:
                ctx.fail("corr", f"carried:{meth}_{deg}_{size}:moment", f"{meth}_{deg}_{size}: x^{a} y^{b} z^{c}: AngularGrid.integrate {impl!r}, exact table moment {model!r}, "
                         f"4 pi x sphere mean {4 * math.pi * float(mean(a, b, c))!r}", witness={"method": meth, "degree": deg, "monomial": [a, b, c]})


def corr(ctx: Ctx):
    ang = importlib.import_module("grid.angular")
    ut = importlib.import_module("grid.utils")
    files = all_files(ang)
    _parts(ctx, "corr", [
        ("carried-tables", lambda: _corr_carried(ctx, ang)),
        ("moments-small-files", lambda: _corr_moments(ctx, ang, ut, files)),
        ("moments-synthetic-high-degree", lambda: _corr_synthetic(ctx, ut)),
        ("malformed-lines", lambda: _corr_malformed(ctx)),
        ("library-vs-oracle", lambda: _corr_lib_vs_oracle(ctx, ang, ut, files)),
        ("library-vs-oracle-above-150", lambda: _corr_lib_high(ctx, ang, ut, files)),
    ])


def _corr_moments(ctx: Ctx, ang, ut, files):
    from ..common import f2b
    # (1) array oracle vs generic ylmNorm / ylmCode (Lean) vs library, on whole small files: full moment vectors
    small = [f for f in files if f[2] <= 120 and f[1] <= 20]
    for m, d, s in ctx.rng.sample(small, min(len(small), ctx.n(10, 40))) + [("lebedev", 3, 6), ("ahrens_beylkin", 1, 2) if ("ahrens_beylkin", 1, 2) in files else small[0]]:
        g = load(ang, m, d)
        ans = driver_batch([file_line("C02.moments", g.points, g.weights, d)])[0]
        fast = np.array(Tokens(ans[3:]).fvec()) if ans.startswith("ok ") else None
        sph = ut.convert_cart_to_sph(g.points)
        gen = {}
        for op in ("ylmNorm", "ylmCode"):
            rows = driver_batch([f"C08.{op} {d} {f2b(t)} {f2b(p)}" for _, t, p in sph])
            Y = np.array([Tokens(r[3:]).fvec() for r in rows]).T
            gen[op] = Y @ g.weights
        lib = np.asarray(lib_moments(ut, g, d), dtype=float)
        ctx.count(["moments", m, d, s], nontrivial=d >= 2, tag=f"moments:{m}")
        tol = 1e-13 * (d + 1) * max(1.0, float(np.sum(np.abs(g.weights))))
        for name, other in (("ylmNorm", gen["ylmNorm"]), ("ylmCode", gen["ylmCode"]), ("library", lib)):
            if fast is None or fast.shape != other.shape or not np.all(np.abs(fast - other) <= tol):
                i = int(np.argmax(np.abs(fast - other))) if fast is not None and fast.shape == other.shape else -1
                ctx.fail("corr", f"moments:{name}", f"{m}_{d}_{s}: moment row {i}: array oracle {None if fast is None else fast[i]!r}, {name} {other[i] if i >= 0 else None!r}",
                         witness={"method": m, "degree": d, "size": s, "row": i})


def _corr_synthetic(ctx: Ctx, ut):
    from ..common import f2b
    # (1b) high degree: the array oracle on a synthetic weighted point set (incl. both poles and an equator point) against the
    #      generic ylmNorm, all (L+1)^2 moments; and ylmNorm against the 50+-digit definition on sampled rows up to l = 325
    import mpmath as mp
    from .c08 import mp_ylm, row_index
    for L in ([325] if ctx.thorough else [ctx.rng.choice([200, 260, 325])]):
        k = 5
        dirs = ctx.np_rng.normal(size=(k, 3))
        dirs /= np.linalg.norm(dirs, axis=1)[:, None]
        dirs = np.vstack([dirs, [[0.0, 0.0, 1.0], [0.0, 0.0, -1.0], [1.0, 0.0, 0.0]]])
        wts = ctx.np_rng.uniform(0.5, 2.0, size=len(dirs))
        ans = driver_batch([file_line("C02.moments", dirs, wts, L)])[0]
        fast = np.array(Tokens(ans[3:]).fvec()) if ans.startswith("ok ") else None
        sph = ut.convert_cart_to_sph(dirs)
        rows = driver_batch([f"C08.ylmNorm {L} {f2b(t)} {f2b(p)}" for _, t, p in sph])
        Y = np.array([Tokens(r[3:]).fvec() for r in rows]).T
        gen = Y @ wts
        ctx.count(["moments-synthetic", L, dirs.tolist(), wts.tolist()], nontrivial=True, tag="moments:synthetic-high-degree")
        if fast is None or fast.shape != gen.shape or not np.all(np.abs(fast - gen) <= 1e-11 * np.sum(wts)):
            i = int(np.nanargmax(np.abs(fast - gen))) if fast is not None and fast.shape == gen.shape else -1
            ctx.fail("corr", "moments:synthetic", f"degree {L}, {len(dirs)} points: moment row {i}: array oracle {None if fast is None else fast[i]!r}, ylmNorm {gen[i] if i >= 0 else None!r}",
                     witness={"degree": L, "points": dirs.tolist(), "weights": wts.tolist(), "row": i})
        mp.mp.dps = 60 + L
        for j in ctx.rng.sample(range(len(dirs)), 2):
            _, t, p = (float(v) for v in sph[j])
            for _ in range(ctx.n(6, 25)):
                l = ctx.rng.randrange(L // 2, L + 1)
                m = ctx.rng.randrange(-l, l + 1)
                want = float(mp_ylm(mp, l, m, t, p))
                got = float(Y[row_index(l, m), j])
                ctx.count(["ylmNorm-vs-definition", L, l, m, t, p], nontrivial=True, tag="ylmNorm:mpmath-high-degree")
                if not abs(got - want) <= 1e-11:
                    ctx.fail("corr", "ylmNorm:definition", f"ylmNorm({L}, theta={t!r}, phi={p!r}) row (l={l}, m={m}) = {got!r}, definition ({mp.mp.dps} digits) {want!r}",
                             witness={"l_max": L, "theta": t, "phi": p, "l": l, "m": m, "got": got, "want": want})


def _corr_malformed(ctx: Ctx):
    # malformed lines
    for bad, want in (("C02.file 2 3 0 0 0 2 0 0", "value-error"), ("C02.file 2 3 0 0", "bad-op"), ("C02.file x 0 0", "bad-op")):
        ctx.count(["malformed", bad], nontrivial=False, tag="malformed")
        if driver_batch([bad])[0] != want:
            ctx.fail("corr", "file:malformed", f"driver answered {driver_batch([bad])[0]} to {bad!r}, expected {want}")



def _corr_lib_vs_oracle(ctx: Ctx, ang, ut, files):
    # (2) per-degree errors: oracle report vs the library integrating its own harmonics, files of moderate degree
    sel = select(ctx, files, ctx.thorough)
    dmax = 75 if ctx.thorough else 40
    aff = [f for f in sel if f[1] <= dmax]
    if not ctx.thorough:
        aff = [f for f in aff if f[1] <= 12] + ctx.rng.sample([f for f in aff if f[1] > 12], min(30, len([f for f in aff if f[1] > 12])))
    reps = run_files(aff)
    for (m, d, s), rep in zip(aff, reps):
        ctx.count(["lib-vs-oracle", m, d, s], nontrivial=d >= 2, tag=f"lib-vs-oracle:{m}")
        if "err" not in rep:
            ctx.fail("corr", "file:answer", f"{m}_{d}_{s}: driver answered {rep['answer']}")
            continue
        g = load(ang, m, d)
        e = err_by_degree(lib_moments(ut, g, d), d)
        tol = 1e-12 * (d + 1) * max(1.0, float(np.sum(np.abs(g.weights))) / FOUR_PI)
        bad = np.nonzero(~(np.abs(e - rep["err"]) <= tol + 1e-6 * np.maximum(e, rep["err"])))[0]
        if len(bad):
            l = int(bad[0])
            ctx.fail("corr", f"lib-vs-oracle:{m}", f"{m}_{d}_{s}: integration error at l={l}: library harmonics {e[l]!r}, Lean oracle {rep['err'][l]!r}",
                     witness={"method": m, "degree": d, "size": s, "l": l, "library": float(e[l]), "oracle": float(rep["err"][l])})
        if rep["n"] != g.size or not abs(rep["sumw"] - rep["impl_sumw"]) <= 1e-12 * max(1.0, abs(rep["impl_sumw"])) \
                or not abs(rep["dev"] - rep["impl_dev"]) <= 4e-16:
            ctx.fail("corr", f"report:{m}", f"{m}_{d}_{s}: oracle size/sum/deviation {rep['n']}, {rep['sumw']!r}, {rep['dev']!r} vs NumPy "
                     f"{g.size}, {rep['impl_sumw']!r}, {rep['impl_dev']!r}")



def _lib_vs_oracle_modulated(ctx: Ctx, ang, ut, m, d, s, tag, chunk=4000, nodes=None):
    """On an exact rule every moment of degree l > 0 is ~0 whatever the harmonics are, so the comparison of the integration
    errors says little about the harmonics the library integrates.  Here the weights of the shipped grid are multiplied by
    random factors in [0.5, 2]: every moment sum_i w_i f_i Y_lm(p_i) is then O(0.1), and the library's harmonics on the shipped
    nodes (poles and axes included) are compared row by row with the Lean oracle's (driver op C02.moments)."""
    from types import SimpleNamespace
    g = load(ang, m, d)
    if nodes is not None and g.size > nodes:       # a subset of the shipped nodes (the first 26 - for Lebedev the axis nodes - always)
        idx = np.sort(np.concatenate([np.arange(26), 26 + ctx.np_rng.choice(g.size - 26, size=nodes - 26, replace=False)]))
        g = SimpleNamespace(points=g.points[idx], weights=g.weights[idx], size=len(idx))
    w2 = g.weights * ctx.np_rng.uniform(0.5, 2.0, size=g.size)
    ans = driver_batch([file_line("C02.moments", g.points, w2, d)], timeout=7200)[0]
    fast = np.array(Tokens(ans[3:]).fvec()) if ans.startswith("ok ") else None
    lib = np.asarray(lib_moments(ut, SimpleNamespace(points=g.points, weights=w2, size=g.size), d, chunk=chunk), dtype=float)
    ctx.count([tag, m, d, s], nontrivial=True, tag=f"{tag}:{m}")
    tol = 1e-14 * (d + 1) * float(np.sum(np.abs(w2)))          # measured on the pinned tree: <= 1e-3 of this, degrees 8 .. 175
    if fast is None or fast.shape != lib.shape or not np.all(np.abs(fast - lib) <= tol):
        i = int(np.nanargmax(np.where(np.isnan(fast - lib), np.inf, np.abs(fast - lib)))) if fast is not None and fast.shape == lib.shape else -1
        l = int(math.isqrt(i)) if i >= 0 else -1
        ctx.fail("corr", f"lib-vs-oracle-modulated:{m}", f"{m}_{d}_{s} with randomly modulated weights: moment row {i} (l = {l}): library harmonics {lib[i] if i >= 0 else None!r}, "
                 f"Lean oracle {None if fast is None or i < 0 else fast[i]!r} (tolerance {tol:.1e})",
                 witness={"method": m, "degree": d, "size": s, "row": i, "l": l, "kind": "library-harmonics"})
    return None if fast is None or fast.shape != lib.shape else float(np.nanmax(np.abs(fast - lib)) / tol)


def _corr_lib_high(ctx: Ctx, ang, ut, files):
    """class 19 (round 4): the library's own harmonics where they are extreme - degrees above 150, where the running
    normalisation factor sqrt((l+m)!/(l-m)!) leaves the double range and the routine works in long double - evaluated on the
    nodes of a shipped grid of such a degree (thorough tier, about 40 s), and on three files of moderate degree in every run."""
    mod = [f for f in files if 8 <= f[1] <= 45 and f[2] <= 2500]
    worst = 0.0
    for m, d, s in ctx.rng.sample(mod, 3):
        worst = max(worst, _lib_vs_oracle_modulated(ctx, ang, ut, m, d, s, "lib-vs-oracle-modulated") or 0.0)
    # above 150 on 600 of the shipped nodes, every run (about 3 s); thorough tier: a whole file, and degree 325 on 600 nodes
    m, d, s = ctx.rng.choice([f for f in files if 151 <= f[1] <= 260])
    worst = max(worst, _lib_vs_oracle_modulated(ctx, ang, ut, m, d, s, "lib-vs-oracle-modulated-above-150", chunk=150, nodes=600) or 0.0)
    if ctx.thorough:
        worst = max(worst, _lib_vs_oracle_modulated(ctx, ang, ut, "spherical", 325, 52978, "lib-vs-oracle-modulated-above-150", chunk=100, nodes=600) or 0.0)
        cand = sorted((f for f in files if 151 <= f[1] <= 175), key=lambda f: f[2])[:12]
        m, d, s = ctx.rng.choice(cand)
        worst = max(worst, _lib_vs_oracle_modulated(ctx, ang, ut, m, d, s, "lib-vs-oracle-modulated-above-150", chunk=1000) or 0.0)
    ctx.extra["modulated_moments_worst_over_tolerance"] = round(worst, 4)


# --------------------------------------------------------------------------------------
# oracle: the property itself, file by file
# --------------------------------------------------------------------------------------
SNIPPET = """import warnings; warnings.filterwarnings('ignore')
import numpy as np
from scipy.special import sph_harm_y
from grid.angular import AngularGrid
method, degree, size, l = {method!r}, {degree}, {size}, {l}
g = AngularGrid(degree=degree, method=method, cache=False)
assert g.degree == degree and g.size == size, f'AngularGrid(degree={{degree}}, method={{method}}) has degree {{g.degree}}, size {{g.size}}'
assert np.max(np.abs(np.linalg.norm(g.points, axis=1) - 1)) <= 1e-12, 'points are not on the unit sphere'
x, y, z = g.points.T
pol, az = np.arccos(np.clip(z, -1, 1)), np.arctan2(y, x)
worst = 0.0
for m in range(0, l + 1):                      # independent of the library: SciPy's complex harmonics
    v = np.sum(g.weights * sph_harm_y(l, m, pol, az))
    if l == 0: v = v - np.sqrt(4*np.pi)
    worst = max(worst, abs(v.real), abs(v.imag))
assert worst <= 1e-9, f'{{method}}_{{degree}}_{{size}}: |sum_i w_i Y_(l={{l}},m)(p_i) - sqrt(4 pi) delta_l0| = {{worst:.3e}} for some m, advertised degree {{degree}}'
"""


def confirm_mp(g, l, m):
    """30-digit evaluation of the definition: |sum_i w_i Y_lm(p_i) - sqrt(4 pi) delta_l0| for one (l, m), m < 0 = sine row
    (explicit sum for the Legendre function, no recursion; principal angles from the Cartesian coordinates)."""
    import mpmath as mp
    mp.mp.dps = 30 + l // 2
    a = abs(m)
    cs = [(l - 2 * k - a, mp.mpf((-1) ** k * math.comb(l, k) * math.comb(2 * l - 2 * k, l) * math.factorial(l - 2 * k)) /
           (math.factorial(l - 2 * k - a) * 2 ** l)) for k in range((l - a) // 2 + 1)]
    nrm = mp.sqrt(mp.mpf(2 * l + 1) / (4 * mp.pi) * mp.factorial(l - a) / mp.factorial(l + a)) * (1 if m == 0 else mp.sqrt(2))
    tot = mp.mpf(0)
    for p, w in zip(g.points, g.weights):
        x, y, z = (mp.mpf(float(v)) for v in p)
        rho = mp.sqrt(x * x + y * y)
        r = mp.sqrt(x * x + y * y + z * z)
        az = mp.atan2(y, x) if rho != 0 else mp.mpf(0)
        zc = z / r
        z2 = zc * zc
        # Horner in z^2 (exponents descend by 2)
        acc = mp.mpf(0)
        for e, c in cs:
            acc = acc * z2 + c
        plm = (rho / r) ** a * acc * zc ** cs[-1][0]
        tot += mp.mpf(float(w)) * nrm * plm * (mp.cos(a * az) if m >= 0 else mp.sin(a * az))
    if l == 0:
        tot -= mp.sqrt(4 * mp.pi)
    return float(abs(tot))


SPELL_SNIPPET = """import warnings; warnings.filterwarnings('ignore')
import numpy as np
from grid.angular import AngularGrid
a = AngularGrid({kw}={val}, method={spell!r}, cache={cache})
b = AngularGrid({kw}={val}, method={low!r}, cache=False)
assert np.array_equal(a.points, b.points) and np.array_equal(a.weights, b.weights), 'the grid depends on the spelling of the method name'
assert abs(a.weights.sum() - 4 * np.pi) < 1e-9, a.weights.sum()
"""


STATE_SNIPPET = """import numpy as np
from grid.angular import AngularGrid
first = AngularGrid(degree={d}, method={m!r})
p, w = first.points.copy(), first.weights.copy()
first.points[...] *= 3.0; first.weights[...] *= 2.5      # the owner turns its grid into a radial shell
g = AngularGrid(method={m!r}, **{kw!r})
assert abs(g.weights.sum() - 4 * np.pi) < 1e-9 and np.array_equal(g.points, p) and np.array_equal(g.weights, w), (g.weights.sum(), 4 * np.pi)
"""


def _oracle_call_paths(ctx: Ctx, ang):
    """Every way of constructing the same quadrature gives the same grid: spelling of the method name (the API
    lower-cases it), degree= vs size=, cache on/off, first and repeated construction."""
    methods = ["lebedev", "spherical", "maxdet", "ahrens_beylkin"]
    for m in methods:
        degs = sorted(ang.AngularGrid._get_degree_and_size(degree=d, size=None, method=m)[0] for d in (3, 9, 14))
        for d in sorted(set(degs))[:2]:
            if (m, d) in (("ahrens_beylkin", 39), ("ahrens_beylkin", 127)):
                continue
            ref = ang.AngularGrid(degree=d, method=m, cache=False)
            for spell in (m.upper(), m.title(), m[0].upper() + m[1:]):
                for kw, val in (("degree", d), ("size", ref.size)):
                    for cache in (False, True, True):
                        try:
                            g = ang.AngularGrid(**{kw: val}, method=spell, cache=cache)
                        except ValueError:
                            ctx.info(f"method spelling {spell!r} is rejected")
                            break
                        ctx.count(["call-path", spell, kw, val, cache], nontrivial=True, tag="call-path:" + m)
                        if not (np.array_equal(g.points, ref.points) and np.array_equal(g.weights, ref.weights)
                                and abs(float(g.weights.sum()) - 4 * np.pi) < 1e-9):
                            ctx.fail("oracle", f"angular.AngularGrid:{m}:method-spelling",
                                     f"AngularGrid({kw}={val}, method={spell!r}, cache={cache}) differs from the grid built with method={m!r} "
                                     f"(sum of weights {float(g.weights.sum())!r}, 4 pi = {4 * np.pi!r})",
                                     witness={"method": spell, kw: val, "cache": cache},
                                     snippet=SPELL_SNIPPET.format(kw=kw, val=val, spell=spell, low=m, cache=cache))
    # state between constructions: the owner of a grid scales it in place (a radial shell: points *= r, weights *= r^2 w);
    # every grid constructed afterwards must still be the shipped quadrature
    for m in methods:
        d = ang.AngularGrid._get_degree_and_size(degree=ctx.rng.choice([3, 5, 9, 14]), size=None, method=m)[0]
        if (m, d) in (("ahrens_beylkin", 39), ("ahrens_beylkin", 127)):
            continue
        first = ang.AngularGrid(degree=d, method=m)
        ref_p, ref_w = first.points.copy(), first.weights.copy()
        first.points[...] *= 3.0
        first.weights[...] *= 2.5
        for how, kw in (("degree, cache=True", dict(degree=d)), ("size, cache=True", dict(size=len(ref_w))), ("degree, cache=False", dict(degree=d, cache=False))):
            g = ang.AngularGrid(method=m, **kw)
            ctx.count(["state", m, d, how], nontrivial=True, tag="state:" + m)
            if not (np.array_equal(g.points, ref_p) and np.array_equal(g.weights, ref_w)):
                ctx.fail("oracle", f"angular.AngularGrid:{m}:after-inplace-edit",
                         f"AngularGrid({how}, method={m!r}, degree {d}) constructed after an earlier grid of the same degree was scaled in place by its "
                         f"owner is not the shipped quadrature: weights sum to {float(g.weights.sum())!r} (4 pi = {4 * np.pi!r}), "
                         f"max |p| = {float(np.abs(np.linalg.norm(g.points, axis=1)).max())!r}",
                         witness={"method": m, "degree": d, "construction": how},
                         snippet=STATE_SNIPPET.format(m=m, d=d, kw=kw))
    for c in ("LEBEDEV_CACHE", "SPHERICAL_CACHE", "MAX_DET_CACHE", "AHRENS_BEYLKIN_CACHE"):
        getattr(ang, c).clear()


# --------------------------------------------------------------------------------------
# round 3, part A: construction histories (classes 7, 9, 10, 11, 12 of AGENT_ROUND3.md)
# --------------------------------------------------------------------------------------
# The reference of every check below is the .npz file itself (np.load, broadcast of a single weight, 4 pi for the two
# normalised families), never another AngularGrid.  A history is a list of Python source lines; the same lines are executed
# here and form the replay snippet.
HIST_HEADER = """import os, math, warnings; warnings.filterwarnings('ignore')
import numpy as np
import grid
import grid.angular as A
from grid.angular import AngularGrid
DATA = {data}
DIRS = {{'lebedev': 'lebedev', 'spherical': 'spherical_design', 'maxdet': 'maxdet', 'ahrens_beylkin': 'ahrens_beylkin'}}
def shipped(m, d, s):
    with np.load(os.path.join(DATA, DIRS[m], f'{{m}}_{{d}}_{{s}}.npz')) as z:
        P, W = np.array(z['points'], dtype=float), np.array(z['weights'], dtype=float)
    if W.size == 1:
        W = np.full(len(P), float(W[0]))
    if m in ('lebedev', 'spherical'):
        W = W * (4 * math.pi)
    return P, W
def check(g, m, d, s, what):
    P, W = shipped(m, d, s)
    assert g.degree == d and g.size == s and g.method == m, f'{{what}}: degree/size/method {{g.degree}}/{{g.size}}/{{g.method}}, expected {{d}}/{{s}}/{{m}}'
    assert g.points.shape == P.shape and g.weights.shape == W.shape and g.points.dtype == np.float64 and g.weights.dtype == np.float64, \\
        f'{{what}}: shapes/dtypes {{g.points.shape}} {{g.points.dtype}} {{g.weights.shape}} {{g.weights.dtype}}'
    assert np.array_equal(g.points, P), f'{{what}}: points are not those of {{m}}_{{d}}_{{s}}.npz (max |p| = {{np.abs(np.linalg.norm(g.points, axis=1)).max()!r}}, max difference {{np.abs(g.points - P).max()!r}})'
    assert np.allclose(g.weights, W, rtol=1e-12, atol=0.0), f'{{what}}: weights are not those of {{m}}_{{d}}_{{s}}.npz (sum {{float(g.weights.sum())!r}}, 4 pi = {{4 * math.pi!r}}, max relative difference {{np.abs(g.weights / W - 1).max()!r}})'
def rejects(**kw):
    try:
        AngularGrid(**kw)
    except ValueError:
        return
    raise AssertionError(f'AngularGrid(**{{kw}}) did not raise ValueError')
def maybe(m, d, s, **kw):   # class 23: a request in another number type is either refused or gives the grid of the integer it denotes
    try:
        g = AngularGrid(method=m, **kw)
    except (ValueError, TypeError):
        return
    check(g, m, d, s, f'AngularGrid(method={{m!r}}, **{{kw}})')
def attempt(f):          # a call that is expected to be refused (class 18): whatever it does, it must leave no trace
    try:
        f()
    except Exception:
        pass
def clear_caches():
    for k, v in vars(A).items():
        if k.endswith('_CACHE') and isinstance(v, dict):
            v.clear()
"""
HIST_DATA_SNIPPET = "os.path.join(os.path.dirname(grid.__file__), 'data')"

DAMAGE = [          # in-place edits by the owner of a grid (class 9) - `{g}` is the variable
    "{g}.points[...] *= 3.0; {g}.weights[...] *= 2.5",
    "{g}.weights *= -1.0",
    "{g}.points[:, 0] *= -1.0",
    "{g}.weights.fill(0.0)",
    "{g}.points[...] = 0.0",
    "np.negative({g}.points, out={g}.points); np.sqrt(np.abs({g}.weights), out={g}.weights)",
    "{g}.points[::2] += 1.0; {g}.weights[1::2] = np.nan",
    "t = {g}.weights; t *= 0.5; {g}.weights = t",                              # same object assigned again through the setter
    "t = {g}.points; t[...] = t[::-1].copy(); {g}.points = t",
    "{g}.points = {g}.points * 2.0; {g}.weights = np.ones({g}.size)",        # setters with new arrays
    "{g}.points.sort(axis=0)",
    "l = {g}.get_localgrid(np.zeros(3), np.inf); l.weights[...] = 7.0; l.points[...] += 1.0",   # the whole-grid local grid shares the arrays
]
USE = [             # public methods / accessors of one object, any order (class 10); none of them may change the grid
    "_ = ({g}.weights, {g}.points, {g}.size, {g}.degree, {g}.method)",
    "_ = ({g}.method, {g}.degree, {g}.size, {g}.points, {g}.weights)",
    "_ = {g}.integrate(np.ones({g}.size))",
    "_ = {g}.integrate({g}.points[:, 2] ** 2, {g}.points[:, 0])",
    "l = {g}.get_localgrid(np.array([0.0, 0.0, 1.0]), 0.7); l.weights[...] = 7.0; l.points[...] += 1.0",
    "l = {g}.get_localgrid(np.array([0.3, -0.2, 0.1]), 5.0); l.weights[...] *= 0.0; l.points[...] *= -2.0",
    "l = {g}.get_localgrid(np.array([0.0, 1.0, 0.0]), 0.0)",
    "_ = {g}.moments(2, np.zeros((1, 3)), np.ones({g}.size), type_mom='cartesian')",
    "_ = {g}.moments(1, np.array([[0.0, 0.0, 1.0], [1.0, 0.0, 0.0]]), {g}.points[:, 1] ** 2, type_mom='pure')",
]
REFUSED_CTOR = [    # class 18: constructor calls that end in an exception; `{m}` a method name, `{d}` a degree it has
    "attempt(lambda: AngularGrid(degree=10 ** 6, method={m!r}))",
    "attempt(lambda: AngularGrid(size=10 ** 9, method={m!r}))",
    "attempt(lambda: AngularGrid(degree=-1, method={m!r}))",
    "attempt(lambda: AngularGrid(size=-3, method={m!r}, cache=False))",
    "attempt(lambda: AngularGrid(degree={d}.5, method={m!r}))",
    "attempt(lambda: AngularGrid(degree='{d}', method={m!r}))",
    "attempt(lambda: AngularGrid(degree=[{d}], method={m!r}))",
    "attempt(lambda: AngularGrid(degree=None, method={m!r}))",
    "attempt(lambda: AngularGrid(degree=None, size=None, method={m!r}, cache=False))",
    "attempt(lambda: AngularGrid(degree={d}, method={m!r} + 'x'))",
    "attempt(lambda: AngularGrid(degree={d}, method=None))",
    "attempt(lambda: AngularGrid(degree={d}, method=3))",
    "attempt(lambda: AngularGrid({d}, 6, method={m!r}))",
    "attempt(lambda: AngularGrid(degree={d}, method={m!r}, cache=True, store=True))",
    "attempt(lambda: AngularGrid(degree={d}, size=np.array([6, 26]), method={m!r}))",
    "attempt(lambda: AngularGrid._load_precomputed_angular_grid({d}, 7, {m!r}))",
    "attempt(lambda: AngularGrid._get_degree_and_size(degree=None, size=None, method={m!r}))",
    "attempt(lambda: AngularGrid.convert_angular_sizes_to_degrees(np.array([6, 10 ** 9]), {m!r}))",
]
REFUSED_USE = [     # class 18: refused calls on a grid object
    "attempt(lambda: {g}.integrate())",
    "attempt(lambda: {g}.integrate(np.ones({g}.size + 1)))",
    "attempt(lambda: {g}.integrate([1.0] * {g}.size))",
    "attempt(lambda: {g}.get_localgrid(np.zeros(2), 1.0))",
    "attempt(lambda: {g}.get_localgrid(np.zeros(3), -1.0))",
    "attempt(lambda: {g}.get_localgrid(np.zeros(3), np.nan))",
    "attempt(lambda: setattr({g}, 'points', np.zeros(({g}.size + 1, 3))))",
    "attempt(lambda: setattr({g}, 'weights', np.zeros({g}.size + 1)))",
    "attempt(lambda: setattr({g}, 'degree', 3))",
    "attempt(lambda: {g}[0])",
    "attempt(lambda: {g}[1:3])",
    "attempt(lambda: {g}.moments(2, np.zeros((1, 2)), np.ones({g}.size), type_mom='cartesian'))",
    "attempt(lambda: {g}.moments(2, np.zeros((1, 3)), np.ones({g}.size + 1), type_mom='pure'))",
    "attempt(lambda: {g}.moments(1, np.zeros((1, 3)), np.ones({g}.size), type_mom='nope'))",
]
BROKEN_FILES = {("ahrens_beylkin", 39), ("ahrens_beylkin", 127)}


def _tables(ang):
    return {m: {int(d): int(s) for d, s in getattr(ang, PREFIX[m] + "_DEGREES").items()} for m in METHODS}


def _resolve(tab, degree=None, size=None):
    """smallest shipped (degree, size) not below the request, by brute force over the table"""
    if degree is not None:
        d = min(k for k in tab if k >= degree)
        return d, tab[d]
    s = min(v for v in tab.values() if v >= size)
    return next(k for k, v in tab.items() if v == s), s


def _spellings(ctx, m):
    return ctx.rng.choice([m, m, m.upper(), m.title(), m[0].upper() + m[1:], "".join(c.upper() if i % 2 else c for i, c in enumerate(m))])


def _request(ctx, tab, d, s):
    """a constructor request that must resolve to (d, s): exact / rounded up, by degree / by size, int kinds (classes 6, 7)"""
    below_d = max([k for k in tab if k < d], default=-1)
    below_s = max([v for v in tab.values() if v < s], default=-1)
    kind = ctx.rng.choice(["degree", "degree", "size", "size", "degree-up", "size-up", "degree-just-above-previous", "size-just-above-previous",
                           "np-degree", "np-size", "positional", "both", "positional-and-size", "none-and-size", "degree-and-none"])
    if kind == "both":                     # class 15: both alternatives at once - the constructor documents that the size wins
        other = ctx.rng.choice([k for k in tab if k != d] or [d])
        return f"degree={other}, size={s}"
    if kind == "positional-and-size":
        return f"{ctx.rng.choice(list(tab))}, size={ctx.rng.randint(below_s + 1, s)}"
    if kind == "none-and-size":
        return ctx.rng.choice([f"None, size={s}", f"degree=None, size={s}"])
    if kind == "degree-and-none":
        return ctx.rng.choice([f"degree={d}, size=None", f"{d}, size=None"])
    if kind == "degree":
        return f"degree={d}"
    if kind == "size":
        return f"size={s}"
    if kind == "degree-up":
        return f"degree={ctx.rng.randint(below_d + 1, d)}"
    if kind == "size-up":
        return f"size={ctx.rng.randint(below_s + 1, s)}"
    if kind == "degree-just-above-previous":
        return f"degree={below_d + 1}"
    if kind == "size-just-above-previous":
        return f"size={below_s + 1}"
    if kind == "np-degree":
        return f"degree=np.{ctx.rng.choice(['int64', 'int32', 'int16', 'uint16'])}({d})"
    if kind == "np-size":
        return f"size=np.{ctx.rng.choice(['int64', 'int32', 'uint32'])}({s})"
    return f"{d}"


def _run_history(ctx, lines, key, tag, case):
    """exec the lines one by one (fresh namespace); a failing line is a failing input of the property"""
    ns = {}
    exec(HIST_HEADER.format(data=repr(str(SRC / "data"))), ns)
    ctx.count(case, nontrivial=True, tag=tag)
    for i, ln in enumerate(lines):
        try:
            exec(ln, ns)
        except Exception as e:          # AssertionError of `check`, or a construction that raises
            ctx.fail("oracle", key, f"construction history fails at step {i + 1} `{ln[:160]}`: {type(e).__name__}: {str(e)[:400]}",
                     witness={"history": lines[:i + 1]},
                     snippet=HIST_HEADER.format(data=HIST_DATA_SNIPPET) + "\n".join(lines[:i + 1]) + "\n")
            return False
    return True


def _make_history(ctx, tabs, nsteps, pool):
    """A random history over a pool of (method, degree): constructions by every route, in-place edits of grids handed out
    earlier, uses of their public methods in any order; after every step every grid that its owner has not edited must still be
    the shipped quadrature, and every new construction must be the shipped quadrature."""
    lines = []
    if ctx.rng.random() < 0.5:
        lines.append("clear_caches()")
    live = []                      # (var, m, d, s, intact)
    k = 0
    for step in range(nsteps):
        r = ctx.rng.random()
        just = None
        if r < 0.2:                       # class 18: a call that ends in an exception, on the constructor or on a live grid
            if live and ctx.rng.random() < 0.5:
                lines.append(ctx.rng.choice(REFUSED_USE).format(g=ctx.rng.choice(live)[0]))
            else:
                m, d = ctx.rng.choice(pool["same"])
                lines.append(ctx.rng.choice(REFUSED_CTOR).format(m=m, d=d))
        elif r < 0.6 or not live:
            m, d = ctx.rng.choice(pool["same"] if ctx.rng.random() < 0.8 else pool["other"])   # mostly one degree, under every method that has it
            s = tabs[m][d]
            req = _request(ctx, tabs[m], d, s)
            cache = ctx.rng.choice(["", "", ", cache=True", ", cache=False"])
            var = f"g{k}"
            k += 1
            lines.append(f"{var} = AngularGrid({req}, method={_spellings(ctx, m)!r}{cache})")
            lines.append(f"check({var}, {m!r}, {d}, {s}, 'step {step + 1}: {var} as constructed')")
            live.append([var, m, d, s, True])
            just = var
        elif r < 0.8:
            g = live[-1] if ctx.rng.random() < 0.5 else ctx.rng.choice(live)    # mostly the grid handed out last
            lines.append(ctx.rng.choice(DAMAGE).format(g=g[0]))
            g[4] = False
        else:
            g = ctx.rng.choice(live)
            lines.append(ctx.rng.choice(USE).format(g=g[0]))
        for var, m, d, s, intact in live:
            if intact and var != just:
                lines.append(f"check({var}, {m!r}, {d}, {s}, 'after step {step + 1}: {var}, which nobody edited')")
    return lines


def _oracle_histories(ctx: Ctx, ang):
    tabs = _tables(ang)
    small = [(m, d) for m in METHODS for d, s in tabs[m].items() if s <= 400 and (m, d) not in BROKEN_FILES]
    # degrees that exist under two methods (a cache keyed too coarsely shows there) are preferred
    shared = [(m, d) for m, d in small if sum(1 for mm in METHODS if d in tabs[mm]) >= 2]
    for h in range(ctx.n(16, 60)):
        mb = METHODS[h % 4]                                  # every method is the base of a quarter of the histories
        base = ctx.rng.choice([x for x in shared if x[0] == mb])
        same = [base] + [(mm, base[1]) for mm in METHODS if mm != mb and base[1] in tabs[mm] and (mm, base[1]) not in BROKEN_FILES and tabs[mm][base[1]] <= 400]
        pool = {"same": same, "other": ctx.rng.sample(small, 2)}
        lines = _make_history(ctx, tabs, ctx.rng.randint(5, 12), pool)
        if not _run_history(ctx, lines, "angular.AngularGrid:history", "history", ["history", lines]):
            break
    # the same degree under two methods, every ordered pair of methods (a cache or a memo keyed by the degree alone), with an
    # in-place edit of the second grid in between
    for m1 in METHODS:
        for m2 in METHODS:
            both = [d for d in tabs[m1] if m1 != m2 and d in tabs[m2] and tabs[m1][d] <= 400 and tabs[m2][d] <= 400
                    and (m1, d) not in BROKEN_FILES and (m2, d) not in BROKEN_FILES]
            if not both:
                continue
            d = ctx.rng.choice(both)
            s1, s2 = tabs[m1][d], tabs[m2][d]
            c2 = ctx.rng.choice(["", ", cache=False"])
            lines = ["clear_caches()",
                     f"a = AngularGrid(degree={d}, method={m1!r})", f"check(a, {m1!r}, {d}, {s1}, 'first grid')",
                     f"b = AngularGrid(degree={d}, method={m2!r}{c2})", f"check(b, {m2!r}, {d}, {s2}, 'same degree under the other method')",
                     ctx.rng.choice(DAMAGE).format(g="b"),
                     f"c = AngularGrid(size={s1}, method={m1!r})", f"check(c, {m1!r}, {d}, {s1}, 'first method again, by size')",
                     f"e = AngularGrid(size={s2}, method={m2!r})", f"check(e, {m2!r}, {d}, {s2}, 'second method again, by size')",
                     f"check(a, {m1!r}, {d}, {s1}, 'the first grid, which nobody edited')"]
            if not _run_history(ctx, lines, "angular.AngularGrid:history:two-methods", "history:two-methods", ["two-methods", lines]):
                break
    # class 7 / 12: requests at the ends of every table (smallest and largest shipped grid, one below / at the maximum), the
    # two-point design, degree 0 and 1, size 0 and 1; rejected requests (above the maximum) must raise, not return something else
    for m in METHODS:
        tab = tabs[m]
        dmax, smax = max(tab), max(tab.values())
        dmin = min(tab)
        reqs = [("degree=0", 0, None), ("degree=1", 1, None), ("degree=2", 2, None), ("degree=3", 3, None), (f"degree={dmin}", dmin, None),
                ("size=0", None, 0), ("size=1", None, 1), ("size=2", None, 2), ("size=3", None, 3), ("size=4", None, 4), ("size=5", None, 5),
                ("0", 0, None), ("1, cache=True", 1, None), ("degree=50, size=2", None, 2), ("None, size=4", None, 4), ("degree=np.int64(1)", 1, None),
                ("size=np.int16(3)", None, 3),
                (f"size={tab[dmin]}", None, tab[dmin]), (f"size={tab[dmin] + 1}", None, tab[dmin] + 1),
                (f"degree={dmax}", dmax, None), (f"degree={dmax - 1}", dmax - 1, None), (f"size={smax}", None, smax), (f"size={smax - 1}", None, smax - 1)]
        ctx.rng.shuffle(reqs)
        lines = ["clear_caches()"] if ctx.rng.random() < 0.5 else []
        for i, (req, dq, sq) in enumerate(reqs):
            d, s = _resolve(tab, degree=dq, size=sq)
            if (m, d) in BROKEN_FILES:
                continue
            cache = "" if "cache" in req else ctx.rng.choice(["", ", cache=False"])
            lines.append(f"e{i} = AngularGrid({req}, method={m!r}{cache})")
            label = f"AngularGrid({req}, method={m!r}{cache})"
            lines.append(f"check(e{i}, {m!r}, {d}, {s}, {label!r})")
        for bad in (f"degree={dmax + 1}", f"size={smax + 1}", "degree=-1", "size=-1"):
            lines.append(f"rejects({bad}, method={m!r})")
        _run_history(ctx, lines, f"angular.AngularGrid:{m}:table-ends", "table-ends:" + m, ["table-ends", m, lines])
    for c in ("LEBEDEV_CACHE", "SPHERICAL_CACHE", "MAX_DET_CACHE", "AHRENS_BEYLKIN_CACHE"):
        getattr(ang, c, {}).clear()


def _oracle_fresh_process(ctx: Ctx, ang):
    """class 11: the first construction of a fresh interpreter with a non-default option (cache=False, size=, mixed-case
    method name, a request that is rounded up), followed by a short history - each scenario in a process of its own."""
    import subprocess
    import sys
    tabs = _tables(ang)
    small = [(m, d) for m in METHODS for d, s in tabs[m].items() if s <= 400 and (m, d) not in BROKEN_FILES]
    jobs = []
    for j in range(ctx.n(4, 16)):
        m, d = ctx.rng.choice(small)
        s = tabs[m][d]
        first = ctx.rng.choice([f"size={s}", f"size={max(1, s - 1)}" if _resolve(tabs[m], size=max(1, s - 1)) == (d, s) else f"size={s}",
                                f"degree={d}", f"degree={d}"])
        spell = ctx.rng.choice([m, m.upper(), m.title()])
        c0 = ctx.rng.choice(["False", "False", "False", "True"])
        lines = [ctx.rng.choice(REFUSED_CTOR).format(m=m, d=d)] if ctx.rng.random() < 0.4 else []
        lines += [f"f0 = AngularGrid({first}, method={spell!r}, cache={c0})", f"check(f0, {m!r}, {d}, {s}, 'first construction of the process')"]
        lines += _make_history(ctx, tabs, ctx.rng.randint(2, 5), {"same": [(m, d)] + [(mm, d) for mm in METHODS if mm != m and (mm, d) in small],
                                                                   "other": ctx.rng.sample(small, 1)})
        lines = [ln for ln in lines if ln != "clear_caches()"]
        jobs.append((m, lines))

    def run1(lines):
        script = HIST_HEADER.format(data=repr(str(SRC / "data"))) + "\n".join(lines) + "\n"
        env = dict(os.environ, PYTHONPATH=str(SRC.parent), OMP_NUM_THREADS="1")
        p = subprocess.run([sys.executable, "-c", script], capture_output=True, text=True, cwd="/", env=env, timeout=600)
        return p.returncode, p.stderr.strip().splitlines()[-1] if p.stderr.strip() else ""

    def run(job):
        return run1(job[1])
    with cf.ThreadPoolExecutor(max_workers=4) as ex:
        for (m, lines), (rc, err) in zip(jobs, ex.map(run, jobs)):
            ctx.count(["fresh-process", lines], nontrivial=True, tag="fresh-process")
            if rc != 0:
                # shortest failing prefix (each prefix in a fresh interpreter again)
                for k in range(1, len(lines)):
                    if lines[k - 1].startswith("check(") or k == len(lines) - 1:
                        rc_k, err_k = run1(lines[:k])
                        if rc_k != 0:
                            lines, err = lines[:k], err_k
                            break
                ctx.fail("oracle", "angular.AngularGrid:fresh-process", f"in a fresh interpreter the history `{'; '.join(lines)[:300]}` fails: {err[:400]}",
                         witness={"history": lines}, snippet=HIST_HEADER.format(data=HIST_DATA_SNIPPET) + "\n".join(lines) + "\n")


CARRIED_SNIPPET = """from fractions import Fraction
import numpy as np
from grid.angular import AngularGrid
P, W = AngularGrid._load_precomputed_angular_grid({deg}, {size}, {meth!r})     # what the constructor is handed
W = np.ones(len(P)) * W
a, b, c = {mono}
q = sum(Fraction(float(w)) * Fraction(float(p[0])) ** a * Fraction(float(p[1])) ** b * Fraction(float(p[2])) ** c for p, w in zip(P, W))
def df(n): return 1 if n <= 1 else n * df(n - 2)
mean = Fraction(df(a - 1) * df(b - 1) * df(c - 1), df(a + b + c + 1)) if a % 2 == b % 2 == c % 2 == 0 else Fraction(0)
norm = {norm}                                                                  # the family is normalised to 1 resp. 4 pi
assert len(P) == {size} and abs(q - norm * mean) <= Fraction(1, 10 ** 13), f'{meth}_{deg}_{size}: sum_i w_i x^{{a}} y^{{b}} z^{{c}} = {{float(q)!r}}, {{float(norm)!r}} x mean over the sphere = {{float(norm * mean)!r}} (exact rational arithmetic on the doubles of the file)'
"""
FOUR_PI_Q = (4 * 314159265358979323846, 10 ** 20)        # the enclosure the Lean statement uses (Model/SphereQuad.lean: fourPiNum / fourPiDen)


def _oracle_carried_exact(ctx: Ctx, ang):
    """The tables of the proof tier, at the tolerance of the theorems (1e-13) and with their arithmetic (exact rationals, here
    Python integers; the same inequalities as okUnit / ok4pi / onSphere of Model/SphereQuad.lean): every monomial of degree <=
    advertised degree and every node on the sphere.  When a changed data file breaks a kernel statement this gives the
    concrete monomial."""
    from ..translate import angular_data as ad

    def dfact(n):
        return 1 if n <= 1 else n * dfact(n - 2)
    T = 10 ** 13
    for meth, d, kind, deg, size in ad.selected():
        key = f"angular:{meth}_{deg}_{size}"
        try:
            P, W = ang.AngularGrid._load_precomputed_angular_grid(deg, size, meth)
            kp, Pi = ad._scaled(P)
            kw, Wi = ad._scaled(np.ones(len(P)) * W)
        except Exception as e:
            ctx.fail("oracle", key, f"{meth}_{deg}_{size}: the loader raises {type(e).__name__}: {e}")
            continue
        n = len(Wi)
        X, Y, Z = Pi[0::3], Pi[1::3], Pi[2::3]
        ctx.count(["carried-exact", meth, deg, size], nontrivial=True, tag="carried-exact:" + meth)
        one = 1 << (2 * kp)
        off = max((abs(x * x + y * y + z * z - one) for x, y, z in zip(X, Y, Z)), default=0)
        if n != size or len(X) != n or off * T > one:
            ctx.fail("oracle", key, f"{meth}_{deg}_{size}: {n} nodes (advertised {size}), max | |p|^2 - 1 | = {off / one:.3e} > 1e-13 (exact arithmetic)",
                     witness={"method": meth, "degree": deg, "size": size, "nodes": n, "off_sphere": off / one})
            continue
        fn, fd = (1, 1) if kind == "Unit" else FOUR_PI_Q
        worst = (-1.0, None)
        xa = list(Wi)
        for a in range(deg + 1):
            ya = list(xa)
            for b in range(deg + 1 - a):
                za = list(ya)
                for c in range(deg + 1 - a - b):
                    mom = sum(za)                                     # 2^(kw + kp (a+b+c)) sum_i w_i x^a y^b z^c
                    even = a % 2 == 0 and b % 2 == 0 and c % 2 == 0
                    num, den = (dfact(a - 1) * dfact(b - 1) * dfact(c - 1) if even else 0), dfact(a + b + c + 1)
                    sc = 1 << (kw + kp * (a + b + c))
                    lhs, rhs = abs(mom * den * fd - num * fn * sc) * T, den * fd * sc
                    if lhs > rhs:
                        err = lhs / rhs / T
                        if err > worst[0]:
                            worst = (err, (a, b, c))
                    za = [t * z for t, z in zip(za, Z)]
                ya = [t * y for t, y in zip(ya, Y)]
            xa = [t * x for t, x in zip(xa, X)]
        if worst[1] is not None:
            mono = worst[1]
            ctx.fail("oracle", key,
                     f"{meth}_{deg}_{size}: not exact to its advertised degree {deg} in exact arithmetic: | sum_i w_i x^{mono[0]} y^{mono[1]} z^{mono[2]} - "
                     f"{'4 pi x ' if kind != 'Unit' else ''}mean over the sphere | = {worst[0]:.3e} > 1e-13 (worst monomial of degree <= {deg})",
                     witness={"method": meth, "degree": deg, "size": size, "monomial": list(mono), "error": worst[0]},
                     snippet=CARRIED_SNIPPET.format(meth=meth, deg=deg, size=size, mono=tuple(mono),
                                                    norm="Fraction(1)" if kind == "Unit" else f"Fraction({FOUR_PI_Q[0]}, {FOUR_PI_Q[1]})"))


EVERY_FILE_SNIPPET = """import os, math, warnings; warnings.filterwarnings('ignore')
import numpy as np, grid
from grid.angular import AngularGrid
m, d, s, folder = {m!r}, {d}, {s}, {folder!r}
with np.load(os.path.join(os.path.dirname(grid.__file__), 'data', folder, f'{{m}}_{{d}}_{{s}}.npz')) as z:
    P, W = np.array(z['points'], dtype=float), np.array(z['weights'], dtype=float)
if W.size == 1:
    W = np.full(len(P), float(W[0]))
if m in ('lebedev', 'spherical'):
    W = W * (4 * math.pi)
g = AngularGrid({req}, method=m, cache={cache})
assert g.degree == d and g.size == s == len(P) and g.points.shape == (s, 3) and g.weights.shape == (s,), (g.degree, g.size, g.points.shape, g.weights.shape)
assert np.array_equal(g.points, P), 'points differ from the file'
assert np.allclose(g.weights, W, rtol=1e-12, atol=0.0), f'weights differ from the file (x 4 pi for the normalised families): sum {{g.weights.sum()!r}}, file {{W.sum()!r}}'
"""


def _oracle_every_file(ctx: Ctx, ang):
    """Round 4 (implementation only, no driver, no translator; 450 files in about 2 s): EVERY file every run - the grid built
    by degree (cache off) and by size (cache on, then once more from the cache) is the content of the .npz file: the points
    exactly, the weights up to the 4 pi of the two normalised families (1e-15 relative), the advertised size, three columns,
    | |p| - 1 | <= 1e-12 and, apart from the two files listed as findings, sum w = 4 pi to 1e-9."""
    import warnings
    files = all_files(ang)
    for m, d, s in files:
        key = f"angular:{m}_{d}_{s}"
        ctx.count(["every-file", m, d, s], nontrivial=d >= 2, tag="every-file:" + m)
        with np.load(SRC / "data" / DIRS[m] / f"{m}_{d}_{s}.npz") as z:
            P, W = np.array(z["points"], dtype=float), np.array(z["weights"], dtype=float)
        if W.size == 1:
            W = np.full(len(P), float(W[0]))
        if m in ("lebedev", "spherical"):
            W = W * FOUR_PI
        for req, cache in ((f"degree={d}", False), (f"size={s}", True), (f"degree={d}", True)):
            try:
                with warnings.catch_warnings():
                    warnings.simplefilter("ignore")
                    g = ang.AngularGrid(**{req.split("=")[0]: int(req.split("=")[1])}, method=m, cache=cache)
                what = None
                if not (g.degree == d and g.size == s == len(P) and g.points.shape == (s, 3) and g.weights.shape == (s,)):
                    what = f"degree/size/shapes {g.degree}/{g.size}/{g.points.shape}/{g.weights.shape}, the file holds {len(P)} points, advertised {d}/{s}"
                elif not np.array_equal(g.points, P):
                    what = f"the points differ from the file (max difference {float(np.abs(g.points - P).max())!r})"
                elif not np.allclose(g.weights, W, rtol=1e-12, atol=0.0):
                    what = (f"the weights differ from the file{' x 4 pi' if m in ('lebedev', 'spherical') else ''}: sum {float(g.weights.sum())!r}, "
                            f"file {float(W.sum())!r}, max difference {float(np.abs(g.weights - W).max())!r}")
                elif not float(np.abs(np.linalg.norm(g.points, axis=1) - 1.0).max()) <= SPHERE_TOL:
                    what = f"points off the unit sphere by {float(np.abs(np.linalg.norm(g.points, axis=1) - 1.0).max()):.3e}"
                elif not abs(float(g.weights.sum()) - FOUR_PI) <= 1e-9:
                    what = f"weights sum to {float(g.weights.sum())!r}, not 4 pi"
            except Exception as e:
                what = f"raises {type(e).__name__}: {str(e)[:200]}"
            if what:
                ctx.fail("oracle", key, f"{m}_{d}_{s}: AngularGrid({req}, method={m!r}, cache={cache}): {what}",
                         witness={"method": m, "degree": d, "size": s, "request": req, "cache": cache},
                         snippet=EVERY_FILE_SNIPPET.format(m=m, d=d, s=s, folder=DIRS[m], req=req, cache=cache))
                break
    for c in ("LEBEDEV_CACHE", "SPHERICAL_CACHE", "MAX_DET_CACHE", "AHRENS_BEYLKIN_CACHE"):
        getattr(ang, c, {}).clear()


def _oracle_arguments(ctx: Ctx, ang):
    """class 15 (and 20): every documented argument combination on the smallest grids of every method (2, 4, 6 ... points:
    fewer points than columns) and on one seed-chosen grid: positional / keyword degree, omitted / None / explicit default for
    every parameter, degree and size given together (the constructor documents that the size wins)."""
    tabs = _tables(ang)
    for m in METHODS:
        tab = tabs[m]
        smallest = sorted(tab)[:3]
        d50, s50 = _resolve(tab, degree=50)              # the default degree
        mk = "" if m == "lebedev" else f", method={m!r}"
        lines = ["clear_caches()"] if ctx.rng.random() < 0.5 else []
        n = 0
        for d in smallest + [ctx.rng.choice([k for k in tab if tab[k] <= 1500 and (m, k) not in BROKEN_FILES])]:
            if (m, d) in BROKEN_FILES:
                continue
            s = tab[d]
            other_d = ctx.rng.choice([k for k in tab if k != d])
            forms = [f"{d}", f"degree={d}", f"{d}, size=None", f"degree={d}, size=None, cache=True", f"None, size={s}", f"degree=None, size={s}",
                     f"size={s}", f"degree={other_d}, size={s}", f"{other_d}, size={s}, cache=False", f"50, size={s}", f"size={s}, cache=True, degree=50",
                     f"size={s}, degree={d}", f"cache=False, size={s}", f"degree={d}, cache=False"]
            ctx.rng.shuffle(forms)
            for f in forms:
                for meth in ([f", method={m!r}"] if m != "lebedev" else ["", ", method='lebedev'"]):
                    lines.append(f"a{n} = AngularGrid({f}{meth})")
                    label = f"AngularGrid({f}{meth})"
                    lines.append(f"check(a{n}, {m!r}, {d}, {s}, {label!r})")
                    n += 1
        # class 23 (round 5): degree / size as integral floats, long double, single, half, small and unsigned NumPy integers, NumPy bool
        for d in [smallest[0], ctx.rng.choice([k for k in tab if tab[k] <= 1500 and (m, k) not in BROKEN_FILES])]:
            for arg, val in (("degree", d), ("size", tab[d])):
                kinds = ["float({v})", "np.float64({v})", "np.longdouble({v})", "np.float32({v})", "np.int8({v})", "np.uint8({v})", "np.uint64({v})", "np.int64({v})"]
                kinds += ["np.float16({v})"] if val < 2048 else []
                for kd in kinds:
                    if ("int8" in kd and val > 127) or ("uint8" in kd and val > 255):
                        continue
                    lines.append(f"maybe({m!r}, {d}, {tab[d]}, {arg}={kd.format(v=val)})")
        d1, s1 = _resolve(tab, degree=1)
        lines.append(f"maybe({m!r}, {d1}, {s1}, degree=np.bool_(True))")
        lines.append(f"maybe({m!r}, {d1}, {s1}, degree=True)")
        if (m, d50) not in BROKEN_FILES:
            for f in (["AngularGrid()", "AngularGrid(cache=False)", "AngularGrid(50)", "AngularGrid(degree=50, size=None, cache=True, method='lebedev')"] if m == "lebedev"
                      else [f"AngularGrid(method={m!r})", f"AngularGrid(method={m!r}, cache=False)", f"AngularGrid(size=None, method={m!r})"]):
                lines.append(f"a{n} = {f}")
                lines.append(f"check(a{n}, {m!r}, {d50}, {s50}, {f!r})")
                n += 1
        _run_history(ctx, lines, f"angular.AngularGrid:{m}:arguments", "arguments:" + m, ["arguments", m, lines])
    for c in ("LEBEDEV_CACHE", "SPHERICAL_CACHE", "MAX_DET_CACHE", "AHRENS_BEYLKIN_CACHE"):
        getattr(ang, c, {}).clear()


KIND_SNIPPET = """import warnings; warnings.filterwarnings('ignore')
import numpy as np
from scipy.special import sph_harm_y
from grid.angular import AngularGrid
g = AngularGrid(degree={d}, method={m!r}, cache=False)
x, y, z = g.points.T
Y = sph_harm_y({l}, {mm}, np.arccos(np.clip(z, -1, 1)), np.arctan2(y, x))          # complex harmonic Y_({l},{mm})
v = {expr}
got = g.integrate(*v)
want = np.sum(g.weights * np.prod([np.asarray(a, dtype=complex) for a in v], axis=0))       # the float64 / complex128 quadrature sum
assert abs(complex(got) - complex(want)) <= {tol} and abs(complex(want) - {exact}) <= {tol}, (got, want, {exact})
"""


def _oracle_value_kinds(ctx: Ctx, ang):
    """class 17 (labelled extension: the property speaks of the real harmonics; integration is linear, so the complex ones
    and other value kinds of the same data must give the same numbers): g.integrate of complex128 / complex64 / float32 /
    long double / integer / boolean function values on shipped grids against the float64 (complex128) quadrature sum and the
    exact value sqrt(4 pi) delta_l0 resp. delta_(l l') delta_(m m')."""
    from scipy.special import sph_harm_y
    tabs = _tables(ang)
    pool = [(m, d) for m in METHODS for d, s in tabs[m].items() if 2 <= d <= 20 and (m, d) not in BROKEN_FILES]
    for m, d in ctx.rng.sample(pool, ctx.n(6, 24)) + [("spherical", 1), ("maxdet", 1)]:
        g = load(ang, m, d)
        x, y, z = g.points.T
        pol, az = np.arccos(np.clip(z, -1, 1)), np.arctan2(y, x)
        l = ctx.rng.randint(0, d)
        mm = ctx.rng.randint(-l, l)
        l2 = ctx.rng.randint(0, d - l)
        m2 = ctx.rng.randint(-l2, l2)
        Y, Y2 = sph_harm_y(l, mm, pol, az), sph_harm_y(l2, m2, pol, az)
        cases = [("complex128", "(Y,)", 1e-9, math.sqrt(FOUR_PI) if l == 0 else 0.0),
                 ("complex64", "(Y.astype(np.complex64),)", 2e-5, math.sqrt(FOUR_PI) if l == 0 else 0.0),
                 ("float32", "(Y.real.astype(np.float32),)", 2e-5, None),
                 ("longdouble", "(Y.imag.astype(np.longdouble),)", 1e-9, None),
                 ("conj-times", "(np.conj(Y), sph_harm_y(%d, %d, np.arccos(np.clip(z, -1, 1)), np.arctan2(y, x)))" % (l2, m2), 1e-9, 1.0 if (l, mm) == (l2, m2) else 0.0),
                 ("int", "(np.ones(g.size, dtype=np.int64), Y)", 1e-9, math.sqrt(FOUR_PI) if l == 0 else 0.0),
                 ("bool", "(np.ones(g.size, dtype=bool),)", 1e-9, FOUR_PI),
                 ("mixed", "(Y.real.astype(np.float32), np.ones(g.size, dtype=np.int32), np.ones(g.size, dtype=np.complex128))", 2e-5, None)]
        # on an exact rule all of these are ~0 (or the norm) whatever is done to the values; the same kinds once more with a random real
        # factor f in [0.5, 2] per node (the integrand f Y is not band-limited: the sums are O(0.1) complex numbers)
        seed_f = ctx.rng.randrange(2 ** 31)
        cases += [(k + "-modulated", "(np.random.default_rng(%d).uniform(0.5, 2.0, g.size),) + " % seed_f + e, t, None) for k, e, t, _ in cases]
        for kind, expr, tol, exact in cases:
            ctx.count(["value-kind", m, d, l, mm, kind], nontrivial=True, tag="value-kind:" + kind)
            v = eval(expr, {"np": np, "Y": Y, "g": g, "sph_harm_y": sph_harm_y, "z": z, "y": y, "x": x})
            try:
                got = complex(g.integrate(*v))
            except Exception as e:
                got = f"raises {type(e).__name__}: {str(e)[:200]}"
            want = complex(np.sum(g.weights * np.prod([np.asarray(a, dtype=complex) for a in v], axis=0)))
            ex = want if exact is None else exact
            if isinstance(got, str) or not abs(got - want) <= tol or not abs(want - ex) <= tol:
                ctx.fail("oracle", f"angular.AngularGrid:integrate:{kind}",
                         f"{m} degree {d}: integrate of {kind} values of Y_({l},{mm}){' x conj Y_(%d,%d)' % (l2, m2) if kind == 'conj-times' else ''} gives {got!r}; "
                         f"quadrature sum in complex128 {want!r}, exact {ex!r}",
                         witness={"method": m, "degree": d, "l": l, "m": mm, "kind": kind},
                         snippet=KIND_SNIPPET.format(m=m, d=d, l=l, mm=mm, expr=expr, tol=tol, exact=repr(ex)))


# --------------------------------------------------------------------------------------
# round 5: the library's own route AngularGrid(...).integrate(values) on EVERY constructible grid (classes 21, 23, 25, 26)
# --------------------------------------------------------------------------------------
ROUTE_HEADER = """import math, warnings; warnings.filterwarnings('ignore')
import numpy as np
from scipy.special import sph_harm_y, gammaln
from grid.angular import AngularGrid
def harmonics(g):
    x, y, z = g.points.T
    pol, az = np.arccos(np.clip(z, -1, 1)), np.arctan2(y, x)
    def sect(l, s):              # real sectoral harmonic R_(l, s l), s = +1 / -1, from the closed form: sqrt 2 K_l Re / Im (x + i y)^l
        if l == 0:
            return np.full(len(x), 1.0 / math.sqrt(4 * math.pi))
        k = math.sqrt(2.0) * math.exp(0.5 * (math.log((2 * l + 1) / (4 * math.pi)) + gammaln(2 * l + 1) - 2 * (l * math.log(2.0) + gammaln(l + 1))))
        e = (x + 1j * y) ** l
        return k * (e.real if s > 0 else e.imag)
    def nsect(l, s):             # R_(l, s (l-1)) = sqrt(2 l + 1) z R_(l-1, s (l-1)),  l >= 2
        return math.sqrt(2 * l + 1) * z * sect(l - 1, s)
    def real(l, m):              # any (l, m) from SciPy's complex harmonics
        c = sph_harm_y(l, abs(m), pol, az)
        return c.real if m == 0 else math.sqrt(2.0) * (-1) ** m * (c.real if m > 0 else c.imag)
    one = np.ones(len(x))
    return dict(sect=sect, nsect=nsect, real=real, one=one, x=x, y=y, z=z, np=np, math=math)
"""
ROUTE_SNIPPET = ROUTE_HEADER + """g = AngularGrid(degree={d}, method={m!r}, cache=False)
ns = harmonics(g)
v = eval({expr!r}, ns)
got = g.integrate(*v)
own = float(np.sum(g.weights * np.prod(v, axis=0)))                       # the quadrature sum over .points / .weights
scale = float(np.sum(np.abs(g.weights * np.prod(v, axis=0))))
assert abs(float(got) - own) <= 1e-12 * scale + 1e-14, f'{m}_{d}: integrate gives {{float(got)!r}}, sum_i w_i f(p_i) = {{own!r}}'
exact = {exact!r}
assert exact is None or abs(own - exact) <= 1e-9, f'{m}_{d}: sum_i w_i f(p_i) = {{own!r}}, exact {{exact!r}}'
"""


def _route_cases(ctx: Ctx, d, s, thorough):
    """[(expr, exact)] - value tuples for g.integrate, as expressions over `harmonics(g)`; exact = the integral over the sphere
    where it is known and the rule must reproduce it (total degree <= advertised degree), None = compare with the own sum only"""
    S4 = math.sqrt(FOUR_PI)
    cs = [("(one,)", FOUR_PI), ("(sect(0, 1),)", S4), ("(one, one)", FOUR_PI), ("(one, sect(0, 1), one)", S4)]
    if d >= 1:
        for sg in (1, -1):
            cs.append((f"(sect({d}, {sg}),)", 0.0))
        l = ctx.rng.randint(1, d)
        cs.append((f"(sect({l}, {ctx.rng.choice([1, -1])}),)", 0.0))
    if d >= 2:
        l = ctx.rng.randint(2, d)
        cs.append((f"(nsect({l}, {ctx.rng.choice([1, -1])}),)", 0.0))
        a = ctx.rng.randint(1, d // 2)
        sg = ctx.rng.choice([1, -1])
        cs.append((f"(sect({a}, {sg}), sect({a}, {sg}))", 1.0))                      # orthonormality, total degree 2a <= d
        cs.append((f"(sect({a}, 1), sect({a}, -1))", 0.0))
        cs.append((f"(one, sect({a}, {sg}), sect({a}, {sg}))", 1.0))
        b = ctx.rng.randint(0, d - a)
        cs.append((f"(sect({a}, {sg}), sect({b}, {-sg}), sect(0, 1))", 0.0 if (a, sg) != (b, -sg) and not (a == b == 0) else None))
        cs.append((f"(sect({a}, 1), nsect({max(2, b)}, -1), sect({ctx.rng.randint(0, d)}, 1))", None))       # three arrays, any degree: own sum only
    # general (l, m) through SciPy where the file is small enough for the tier
    budget = (5e7 if thorough else 3e5)
    if s * (d + 1) ** 2 <= (3e6 if thorough else 4e4):
        cs += [(f"(real({l}, {m}),)", S4 if l == 0 else 0.0) for l in range(d + 1) for m in range(-l, l + 1)]
    elif s * d <= budget:
        for _ in range(4 if thorough else 3):
            l = ctx.rng.randint(1, d)
            cs.append((f"(real({l}, {ctx.rng.randint(-l, l)}),)", 0.0))
        l1 = ctx.rng.randint(0, d // 2)
        m1 = ctx.rng.randint(-l1, l1)
        cs.append((f"(real({l1}, {m1}), real({l1}, {m1}))", 1.0))
    return cs


def _oracle_integrate_route(ctx: Ctx, ang):
    """Round 5: what a user observes is AngularGrid(...).integrate(values).  EVERY constructible grid goes through that route, with
    one, two and three value arrays: the constant 1, Y_00, sectoral harmonics at the advertised degree and at seeded degrees
    (closed form, any degree at the cost of one complex power), next-to-sectoral ones, orthonormality products of total degree
    <= the advertised degree, general (l, m) from SciPy where affordable (all (l, m) for the small files; thorough tier: more);
    each answer against the sum over .points / .weights formed here and against the exact integral.  Also: the value arrays are
    unchanged afterwards, a second call with the same array objects gives the same number, the same array object rescaled in
    place gives the rescaled number (class 25), integer / single / long double copies of the values give the same number to
    the precision of the narrower type (class 23), and the grid built just before - still alive - integrates as it did before
    the next one was built (class 26)."""
    ns0 = {}
    exec(ROUTE_HEADER, ns0)
    files = all_files(ang)
    # own closed forms against SciPy on a few points (the sign convention does not enter the integrals: absolute values)
    pts = ctx.np_rng.normal(size=(40, 3))
    pts /= np.linalg.norm(pts, axis=1)[:, None]
    from types import SimpleNamespace
    hs = ns0["harmonics"](SimpleNamespace(points=pts))
    for l in (1, 2, 3, 7, 50, 131, 200, 325):
        for sg in (1, -1):
            ctx.count(["closed-form", l, sg], nontrivial=True, tag="integrate-route:closed-form")
            if not (np.allclose(np.abs(hs["sect"](l, sg)), np.abs(hs["real"](l, sg * l)), rtol=1e-9, atol=1e-13)
                    and (l < 2 or np.allclose(np.abs(hs["nsect"](l, sg)), np.abs(hs["real"](l, sg * (l - 1))), rtol=1e-9, atol=1e-13))):
                ctx.fail("corr", "integrate-route:closed-form", f"the closed form of the sectoral / next-to-sectoral real harmonic of degree {l} used by the harness differs from SciPy's")
    prev = None
    t_start = time.time()
    for m, d, s in files:
        name = f"{m}_{d}_{s}"
        g = load(ang, m, d)
        hs = ns0["harmonics"](g)
        ctx.count(["integrate-route", m, d, s], nontrivial=d >= 2, tag="integrate-route:" + m)
        ncalls = 0
        for expr, exact in _route_cases(ctx, d, s, ctx.thorough):
            v = eval(expr, hs)
            keep = [a.copy() for a in v]
            prod = np.prod(v, axis=0)
            own, scale = float(np.sum(g.weights * prod)), float(np.sum(np.abs(g.weights * prod)))
            try:
                got = float(g.integrate(*v))
                again = float(g.integrate(*v))
            except Exception as e:
                ctx.fail("oracle", f"angular:{name}:integrate", f"{name}: integrate(*{expr}) raises {type(e).__name__}: {str(e)[:200]}",
                         witness={"method": m, "degree": d, "size": s, "values": expr}, snippet=ROUTE_SNIPPET.format(m=m, d=d, expr=expr, exact=exact))
                break
            ncalls += 2
            bad = None
            if not abs(got - own) <= 1e-12 * scale + 1e-14:
                bad = f"integrate(*{expr}) = {got!r}, but sum_i w_i f(p_i) over its own .points / .weights = {own!r}"
            elif again != got or any(not np.array_equal(a, b) for a, b in zip(v, keep)):
                bad = f"integrate(*{expr}): a second call with the same arrays gives {again!r} after {got!r}" if again != got else f"integrate(*{expr}) changed its argument"
            if bad:
                ctx.fail("oracle", f"angular:{name}:integrate", f"{name} ({s} points): {bad}", witness={"method": m, "degree": d, "size": s, "values": expr, "integrate": got, "own_sum": own},
                         snippet=ROUTE_SNIPPET.format(m=m, d=d, expr=expr, exact=None))
                break
            if exact is not None and not abs(own - exact) <= THRESH:
                # the data, not the route: the key of the file (the two listed Ahrens-Beylkin files are matched by it)
                ctx.fail("oracle", f"angular:{name}", f"{name}: not exact to its advertised degree {d}: integrate(*{expr}) = {got!r}, exact {exact!r}",
                         witness={"method": m, "degree": d, "size": s, "values": expr, "integrate": got, "exact": exact},
                         snippet=ROUTE_SNIPPET.format(m=m, d=d, expr=expr, exact=exact))
                break
        else:
            # classes 23 / 25 on one value array of this grid, class 26 on the previous grid
            l = ctx.rng.randint(0, d)
            base = hs["sect"](l, 1) * ctx.np_rng.uniform(0.5, 2.0, size=g.size)       # modulated: the sum is not ~0
            ref = float(np.sum(g.weights * base))
            sc = float(np.sum(np.abs(g.weights * base)))
            buf = base.copy()
            r1 = float(g.integrate(buf))
            buf *= 3.0
            r2 = float(g.integrate(buf))
            buf[:] = base[::-1]
            r3 = float(g.integrate(buf))
            probs = []
            if not (abs(r1 - ref) <= 1e-12 * sc + 1e-14 and abs(r2 - 3.0 * ref) <= 4e-12 * sc + 1e-14 and abs(r3 - float(np.sum(g.weights * base[::-1]))) <= 1e-12 * sc + 1e-14):
                probs.append(f"one array object refilled in place between three calls: {r1!r}, {r2!r}, {r3!r}; expected {ref!r}, {3 * ref!r}, {float(np.sum(g.weights * base[::-1]))!r}")
            for kind, tol in (("longdouble", 1e-12), ("float32", 3e-6), ("float16", 3e-2)):
                arr = base.astype(kind)
                k0 = arr.copy()
                try:
                    r = float(g.integrate(arr))
                except Exception as e:
                    probs.append(f"{kind} values: raises {type(e).__name__}: {str(e)[:120]}")
                    continue
                want = float(np.sum(g.weights * arr.astype(float)))
                if not abs(r - want) <= tol * sc + 1e-14 or not np.array_equal(arr, k0) or float(g.integrate(arr)) != r:
                    probs.append(f"{kind} values: integrate {r!r}, float64 sum of the same values {want!r}")
            if prev is not None:
                pg, pone, pname = prev
                if float(pg.integrate(np.ones(pg.size))) != pone:
                    probs.append(f"the grid {pname} built before this one now integrates 1 to {float(pg.integrate(np.ones(pg.size)))!r}, before {pone!r}")
            ncalls += 12
            if probs:
                ctx.fail("oracle", f"angular:{name}:integrate", f"{name}: integrate of f = R_({l},{l}) x random factors: " + "; ".join(probs)[:600],
                         witness={"method": m, "degree": d, "size": s, "l": l},
                         snippet=f"import warnings; warnings.filterwarnings('ignore')\nimport numpy as np\nfrom grid.angular import AngularGrid\n"
                                 f"g = AngularGrid(degree={d}, method={m!r}, cache=False)\nbuf = np.linspace(0.5, 2.0, g.size)\nw = g.weights.copy()\n"
                                 f"r1 = float(g.integrate(buf)); buf *= 3.0; r2 = float(g.integrate(buf))\n"
                                 f"r3 = float(g.integrate(buf.astype(np.float32))); r4 = float(g.integrate(buf.astype(np.longdouble)))\n"
                                 f"own = float(np.sum(w * np.linspace(0.5, 2.0, g.size)))\n"
                                 f"assert abs(r1 - own) <= 1e-11 * own and abs(r2 - 3 * own) <= 1e-11 * own and abs(r3 - 3 * own) <= 1e-5 * own and abs(r4 - 3 * own) <= 1e-11 * own, (r1, r2, r3, r4, own)\n")
            prev = (g, float(g.integrate(np.ones(g.size))), name)
        ctx.tagc("integrate-route:calls", ncalls)
    ctx.extra["integrate_route_wall_s"] = round(time.time() - t_start, 1)
    # class 21: the same route on plain grids of sizes at and next to block boundaries (synthetic points on the sphere)
    base_grid = importlib.import_module("grid.basegrid")
    sizes = [1, 2, 1023, 1024, 1025, 2047, 2048, 2049, 3072, 4096, 4097, 20000, 20001, 31234, 65536, 65537] + ([2 ** 19, 2 ** 19 + 1, 2 ** 20 + 7] if ctx.thorough else [])
    for n in sizes:
        P = ctx.np_rng.normal(size=(n, 3))
        P /= np.linalg.norm(P, axis=1)[:, None]
        W = ctx.np_rng.uniform(0.5, 1.5, size=n)
        gg = base_grid.Grid(P, W)
        A, B, C = P[:, 0] + 2.0, P[:, 1] * P[:, 2] + 1.5, np.cos(3 * P[:, 2]) + 2.0
        for k, v in ((1, (A,)), (2, (A, B)), (3, (A, B, C))):
            ctx.count(["block-sizes", n, k], nontrivial=True, tag="integrate-route:block-sizes")
            own = float(np.sum((W * np.prod(v, axis=0)).astype(np.longdouble)))
            half = n // 2            # additivity over a split of the same input
            parts = (float(base_grid.Grid(P[:half], W[:half]).integrate(*(a[:half] for a in v))) if half else 0.0) + \
                float(base_grid.Grid(P[half:], W[half:]).integrate(*(a[half:] for a in v)))
            got = float(gg.integrate(*v))
            if not abs(got - own) <= 1e-12 * abs(own) or not abs(got - parts) <= 1e-12 * abs(own):
                ctx.fail("oracle", "basegrid.Grid.integrate:block-sizes", f"Grid of {n} points: integrate of {k} positive arrays = {got!r}; sum_i w_i f(p_i) = {own!r}; "
                         f"sum over the two halves {parts!r}", witness={"size": n, "arrays": k, "integrate": got, "own_sum": own},
                         snippet=f"import numpy as np\nfrom grid.basegrid import Grid\nn = {n}\nw = np.linspace(0.5, 1.5, n); f = np.linspace(1.0, 2.0, n)\n"
                                 f"got = Grid(np.zeros((n, 3)), w).integrate(*([f] * {k}))\nown = float(np.sum(w * f ** {k}))\n"
                                 f"assert abs(got - own) <= 1e-11 * own, (got, own)\n")
                break


HARM_SNIPPET = """import warnings; warnings.filterwarnings('ignore')
import numpy as np
from scipy.special import sph_harm_y
from grid.angular import AngularGrid
from grid.utils import convert_cart_to_sph, generate_real_spherical_harmonics
g = AngularGrid(degree={d}, method={m!r}, cache=False)
p = g.points[{i}:{i} + 1]
sph = convert_cart_to_sph(p)
lib = np.asarray(generate_real_spherical_harmonics({l}, sph[:, 1], sph[:, 2]), dtype=float)[{l} ** 2:({l} + 1) ** 2, 0]
c = sph_harm_y({l}, np.arange(0, {l} + 1), np.arccos(np.clip(p[0, 2], -1, 1)), np.arctan2(p[0, 1], p[0, 0]))   # independent: SciPy's complex harmonics
sign = (-1.0) ** np.arange(1, {l} + 1)
want = sorted(np.concatenate([[c[0].real], np.sqrt(2) * sign * c[1:].real, np.sqrt(2) * sign * c[1:].imag]))
assert np.allclose(sorted(lib), want, rtol=0, atol=1e-9), 'the real harmonics of degree {l} at node {i} of {m}_{d} are not the real and imaginary parts of the complex ones'
"""


def _harmonics_at(ctx: Ctx, ang, m, d, l):
    """the harmonics the library integrates, at degree l on three nodes of the shipped grid, against SciPy's complex harmonics
    (as multisets of the 2l+1 values, so that no row convention enters)"""
    from scipy.special import sph_harm_y
    ut = importlib.import_module("grid.utils")
    g = load(ang, m, d)
    for i in sorted(ctx.rng.sample(range(g.size), min(3, g.size))):
        p = g.points[i:i + 1]
        sph = ut.convert_cart_to_sph(p)
        lib = np.asarray(ut.generate_real_spherical_harmonics(l, sph[:, 1], sph[:, 2]), dtype=float)[l * l:(l + 1) ** 2, 0]
        c = sph_harm_y(l, np.arange(0, l + 1), np.arccos(np.clip(p[0, 2], -1, 1)), np.arctan2(p[0, 1], p[0, 0]))
        sign = (-1.0) ** np.arange(1, l + 1)
        want = np.sort(np.concatenate([[c[0].real], np.sqrt(2) * sign * c[1:].real, np.sqrt(2) * sign * c[1:].imag]))
        if not np.allclose(np.sort(lib), want, rtol=0, atol=1e-9):
            ctx.fail("oracle", "utils.generate_real_spherical_harmonics:on-shipped-nodes",
                     f"the real harmonics of degree {l} which the library integrates on {m} degree {d} differ at node {i} {p[0].tolist()} from SciPy's "
                     f"(largest difference of the sorted values {float(np.abs(np.sort(lib) - want).max()):.3e})",
                     witness={"method": m, "degree": d, "l": l, "node": i}, snippet=HARM_SNIPPET.format(m=m, d=d, l=l, i=i))
            return


def oracle_at(ctx: Ctx, failure):
    """A correspondence disagreement that names a file: the property itself is evaluated on that file (complete check by the
    native oracle, the exact check when the file is carried, and the construction routes)."""
    ang = importlib.import_module("grid.angular")
    w = failure.witness if isinstance(failure.witness, dict) else {}
    if w.get("kind") == "library-harmonics" and w.get("l", -1) >= 0:
        _harmonics_at(ctx, ang, w["method"], int(w["degree"]), int(w["l"]))
    m, d = w.get("method"), w.get("degree")
    if m is None or d is None:
        import re
        mt = re.search(r"(lebedev|spherical|maxdet|ahrens_beylkin)_(\d+)_(\d+)", failure.key + " " + failure.what)
        if not mt:
            return
        m, d = mt.group(1), int(mt.group(2))
    tab = _tables(ang).get(m, {})
    if d not in tab:
        return
    job = (m, int(d), tab[int(d)])
    _judge_file(ctx, ang, job, run_files([job])[0])
    _oracle_carried_exact(ctx, ang)


def oracle(ctx: Ctx, budget: str):
    ang = importlib.import_module("grid.angular")
    _parts(ctx, "oracle", [
        # implementation only (no driver, no translator)
        ("every-file", lambda: _oracle_every_file(ctx, ang)),
        ("call-paths", lambda: _oracle_call_paths(ctx, ang)),
        ("histories", lambda: _oracle_histories(ctx, ang)),
        ("arguments", lambda: _oracle_arguments(ctx, ang)),
        ("fresh-process", lambda: _oracle_fresh_process(ctx, ang)),
        ("value-kinds", lambda: _oracle_value_kinds(ctx, ang)),
        ("integrate-route", lambda: _oracle_integrate_route(ctx, ang)),
        # consults the translator's selection
        ("carried-exact", lambda: _oracle_carried_exact(ctx, ang)),
        # needs the driver
        ("files", lambda: _oracle_files(ctx, ang, budget)),
    ])


def _oracle_files(ctx: Ctx, ang, budget: str):
    files = all_files(ang)
    everything = ctx.thorough or budget == "large"
    sel = select(ctx, files, everything)
    # quick tier: every file that is not fully checked in this run is screened on a few orders m (all l <= degree):
    # m = 1, 2, 3 and five VERIF_SEED-chosen ones
    chosen = set(sel)
    screen = []
    for f in files:
        if f not in chosen:
            pool = list(range(4, f[1] + 1))
            screen.append((*f, sorted([1, 2, 3] + ctx.rng.sample(pool, min(5, len(pool))))))
    t0 = time.time()
    reps = run_files(sel + screen)
    sreps = reps[len(sel):]
    reps = reps[:len(sel)]
    ctx.extra["oracle_wall_s"] = round(time.time() - t0, 1)
    ctx.extra["files_screened_on_8_orders"] = len(screen)
    ctx.extra["files_total"] = len(files)
    ctx.extra["files_checked"] = len(sel)
    ctx.extra["files_by_method"] = {m: sum(1 for f in sel if f[0] == m) for m in METHODS}
    ctx.extra["harmonics_integrated"] = int(sum((f[1] + 1) ** 2 for f in sel))
    ctx.exhaustive = everything and len(sel) == len(files)
    worst_pass = 0.0
    for job, rep in list(zip(sel, reps)) + list(zip(screen, sreps)):
        m, d, s = job[:3]
        ctx.count(["file", m, d, s] + ([job[3]] if len(job) > 3 else []), nontrivial=d >= 2,
                  tag=(f"file:{m}" if len(job) == 3 else f"screen:{m}"))
        worst_pass = max(worst_pass, _judge_file(ctx, ang, job, rep))
    ctx.extra["max_integration_error_of_passing_files"] = worst_pass
    ctx.extra["threshold"] = THRESH
    # data files no table entry points to
    extra = []
    for m in METHODS:
        known = {f"{m}_{d}_{s}.npz" for mm, d, s in files if mm == m}
        for p in sorted((SRC / "data" / DIRS[m]).glob("*.npz")):
            if p.name not in known:
                extra.append(p.name)
    if extra:
        ctx.info(f"data files not reachable through AngularGrid (not part of the property): {', '.join(extra)}")


def _judge_file(ctx: Ctx, ang, job, rep):
    """The property on one file, from the report of the native oracle; -> largest integration error if the file passes."""
    m, d, s = job[:3]
    name = f"{m}_{d}_{s}"
    key = f"angular:{name}"
    if "error" in rep:
        if rep.get("library"):
            ctx.fail("oracle", key + ":raises", f"{name}: AngularGrid(degree={d}, method={m!r}, cache=False) raises {rep['error']}",
                     witness=_wit(rep), snippet=f"from grid.angular import AngularGrid\nAngularGrid(degree={d}, method={m!r}, cache=False)\n")
        else:
            ctx.fail("corr", "file:answer", f"{name}: the evaluation raised {rep['error']}", witness=rep.get("traceback"))
        return 0.0
    if "err" not in rep:
        ctx.fail("corr", "file:answer", f"{name}: driver answered {rep['answer']}")
        return 0.0
    # loader / table / normalisation in the loop
    if rep["grid_degree"] != d or rep["grid_size"] != s or rep["n"] != s or not rep["shape_ok"]:
        ctx.fail("oracle", key, f"{name}: AngularGrid(degree={d}, method={m}) has degree {rep['grid_degree']}, size {rep['grid_size']} "
                 f"({rep['n']} points reached the oracle); advertised size {s}", witness=_wit(rep))
        return 0.0
    if not max(rep["dev"], rep["impl_dev"]) <= SPHERE_TOL:
        ctx.fail("oracle", key, f"{name}: points are off the unit sphere by {max(rep['dev'], rep['impl_dev']):.3e}", witness=_wit(rep))
        return 0.0
    err = rep["err"]
    bad = np.nonzero(~(err <= THRESH))[0]
    if len(bad) == 0:
        if not abs(rep["sumw"] - FOUR_PI) <= 1e-9:      # implied by l = 0, kept as a separate visible clause
            ctx.fail("oracle", key, f"{name}: weights sum to {rep['sumw']!r}, not 4 pi", witness=_wit(rep))
        return float(np.max(err))
    first, worst = int(bad[0]), int(np.nanargmax(np.where(np.isnan(err), np.inf, err)))
    g = load(ang, m, d)
    scr = "" if rep["orders"] is None else f" [screen on the orders |m| in {[0] + rep['orders']}]"
    conf = confirm_mp(g, worst, rep["arg"][worst])
    conf_first = confirm_mp(g, first, rep["arg"][first]) if first != worst else conf
    what = (f"{name}: not exact to its advertised degree {d}: max_m |sum_i w_i Y_lm(p_i) - sqrt(4 pi) delta_l0| = "
            f"{err[worst]:.3e} at l = {worst} (first degree above {THRESH:g}: l = {first}, {err[first]:.3e}; {len(bad)} degrees fail; "
            f"sum of weights - 4 pi = {rep['sumw'] - FOUR_PI:.3e}); mpmath (30+ digits, definition): "
            f"{conf:.3e} at (l, m) = ({worst}, {rep['arg'][worst]})" + scr)
    if not abs(conf - err[worst]) <= 1e-9 + 1e-6 * conf:
        # the oracle and the independent evaluation disagree: that is a broken tie, not a finding
        ctx.fail("corr", f"oracle-vs-mpmath:{name}", f"{name}: Lean oracle reports {err[worst]:.3e} at l={worst}, mpmath {conf:.3e}")
        return 0.0
    w = _wit(rep)
    w.update(first_bad_l=first, worst_l=worst, worst_m=rep["arg"][worst], worst_err=float(err[worst]), mpmath_worst=conf, mpmath_first=conf_first,
             failing_degrees=[int(b) for b in bad[:40]])
    ctx.fail("oracle", key, what, witness=w, snippet=SNIPPET.format(method=m, degree=d, size=s, l=worst))
    return 0.0


def _wit(rep):
    return {k: v for k, v in rep.items() if k not in ("err", "arg", "answer")}

"""C10, round 3 — generator classes 7–12 of AGENT_ROUND3.md for the correspondence and the oracle of C10.

Every class is a list of *scripted* histories (`Script`, a `c10.History` whose operations are chosen by the
class instead of at random).  A script runs on the implementation while it is generated; in the
correspondence its driver line is answered by the generated Lean state machine (`C10.hist`), in the oracle
every query that carries a reference answer (exact rational arithmetic on the stored doubles, independent of
NumPy / SciPy) is compared with what the implementation returned.

  exact    (7, 8, 12)  dyadic grids (coordinates k/4, scaled by 2^-40 … 2^40, translated by 2^10 … 2^20): all
           squared distances are exact doubles, so radii *equal to* a point distance, one ulp and 1e-10 around
           it, within factors 1.01 and 100 of it, 0.0, -0.0, 5e-324, the largest double and inf have one
           right answer; radii whose comparison `d² <= r*r` differs between exact and double arithmetic are
           left out (ties under rounding are outside the claim); extreme weights travel through
  special  (12)  all points identical, one-point grids, an atomic grid with a shell of radius 0 (all its points
           are the centre), centres on a point / at the origin / far outside (up to 1e150: beyond ~1e154 the squared
           distance overflows and SciPy raises ValueError — overflow is outside the model, recorded as an
           observation by the oracle) with zero, tiny, huge,
           largest-double and infinite radii and radii 1 % below / above the nearest and the farthest distance
  handout  (9)  a local grid is handed out, the caller edits its arrays in place (`points`, `weights`, `indices`;
           finite radius: these are copies) or through its setters (any radius), asks again: same answer, the
           parent is unchanged; the handed-out object then lives through a history of its own
  orders   (10, 11)  every sequence of up to two (thorough: three) operations out of {query A, query B,
           infinite-radius query, points=, weights=, selection} followed by both queries, on every grid class
  domain   (7)  the 1e-7 slack of `OneDGrid.__init__` as `__getitem__` meets it: a point 0.99e-7 / exactly 1e-7 /
           one ulp more / 1.01e-7 / 1e-9 / 1e-5 outside the domain, selected or not
  ctor     the generated constructors `Grid.__init__` / `LocalGrid.__init__` on every combination of argument
           ranks and lengths, and the keyword arguments the neighbour search really receives (recorded by a
           subclass of cKDTree put in place of `basegrid.cKDTree` for one call) against the regenerated constant
"""
import itertools
import math
import sys
from fractions import Fraction

import numpy as np

from ..common import driver_batch, f2b, fmat, fvec, vec
from . import c10 as B

FMAX = sys.float_info.max
TINY = 5e-324


# ----------------------------------------------------------------------------------------------------
# scripted histories
# ----------------------------------------------------------------------------------------------------
class Script(B.History):
    def __init__(self, kind, g, rng, M, cls, ctor=None):
        super().__init__(kind, g, rng, M)
        self.head = B.header(kind, g)
        self.ctor = ctor or getattr(g, "_gv_ctor", None) or B._ctor_text(kind, g)
        self.second = None
        self.cls = cls
        self.refs = []          # per op: None, or the canonical answer an exact reference gives
        self.extra_tags = []    # secondary classes of the generated inputs (centre kinds, …), counted once each
        self.qargs = []         # per op: None, or (text of the centre, text of the radius) of a query

    def line(self):
        return f"{self.head} {len(self.tokens)} " + " ".join(self.tokens)

    def _push(self, tok, text, tag, run, ref=None, qargs=None):
        self.qargs.append(qargs)
        tag, _, extra = tag.partition("|")
        if extra:
            self.extra_tags.append(f"{self.cls}:{extra}")
        self.tokens.append(tok)
        self.text.append(text)
        self.tags.append(f"{self.cls}:{tag}")
        self.ops.append(run)
        self.refs.append(ref)
        self.impl.append(B._observe(run, self.g))

    def q(self, cobj, robj, tag, tamper=None, ref=False, call="pos", ctext=None, rtext=None, pre_text=None):
        """`lg = g.get_localgrid(cobj, robj)`; `tamper = (callable(g), text)` runs first (the caller's edits of
        the local grid it holds); `ref=True`: attach the exact reference answer."""
        cs = np.asarray(cobj)
        csf = np.asarray(cobj, dtype=float)
        rf = float(robj)
        tok = ("q s " + f2b(float(csf)) if cs.ndim == 0 else "q v " + fvec(csf)) + " " + f2b(rf)
        LG = self.M["basegrid"].LocalGrid
        # (`ctext` / `rtext`: the argument is a named buffer of the caller defined by an earlier line; `pre_text`: what the
        #  caller did — already done by the generator — right before this call)
        ctext, rtext = ctext or B._descr(cobj), rtext or B._descr(robj)
        text = f"lg = g.get_localgrid({ctext}, {rtext})"
        if pre_text:
            text = pre_text + "\n" + text
        if call != "pos":
            # (class 15: the same call spelled with keywords; the replay text stays positional)
            text += {"kw": "  # called as get_localgrid(center=…, radius=…)", "kw-swapped": "  # called as get_localgrid(radius=…, center=…)",
                     "mixed": "  # called as get_localgrid(…, radius=…)"}[call]
            self.extra_tags.append(f"{self.cls}:call-{call}")
        if tamper is not None:
            text = tamper[1] + "\n" + text
        if self._seen_query and self._mut_since:
            self.mutated_between = True
        self._seen_query, self._mut_since = True, False
        want = exact_answer(self.g, csf, rf) if ref else None

        def run(g, cobj=cobj, robj=robj, cs=cs, tamper=tamper, call=call):
            if tamper is not None:
                tamper[0](g)
            if call == "kw":
                lg = g.get_localgrid(center=cobj, radius=robj)
            elif call == "kw-swapped":
                lg = g.get_localgrid(radius=robj, center=cobj)
            elif call == "mixed":
                lg = g.get_localgrid(cobj, radius=robj)
            else:
                lg = g.get_localgrid(cobj, robj)
            g._gv_lg = lg
            if type(lg) is not LG:
                return "wrong-type:" + type(lg).__name__
            if not np.array_equal(np.asarray(lg.center), cs):
                return "wrong-center"
            return B._canon_local(lg)
        self._push(tok, text, "query:" + tag, run, want, qargs=(ctext, rtext))

    def sp(self, new, tag, same_obj=False):
        new = np.asarray(new)
        newf = np.asarray(new, dtype=float)
        ncol = 1 if new.ndim == 1 else new.shape[1]
        tok = f"sp {int(new.ndim == 1)} " + (fmat(newf.reshape(len(new), ncol)) if len(new) else f"0 {ncol}")
        text = (f"p = g.points; p[...] = {B._descr(newf)}; g.points = p" if same_obj else f"g.points = {B._descr(new)}")
        self._mut_since = True

        def run(g, new=new, newf=newf, same_obj=same_obj):
            if same_obj:
                cur = g.points
                cur[...] = newf
                g.points = cur
            else:
                g.points = B._clone(new)
            return "D"
        self._push(tok, text, "setpoints:" + tag, run)

    def sw(self, new, tag):
        new = np.asarray(new)
        tok = "sw " + fvec(np.asarray(new, dtype=float))
        self._mut_since = True

        def run(g, new=new):
            g.weights = B._clone(new)
            return "D"
        self._push(tok, f"g.weights = {B._descr(new)}", "setweights:" + tag, run)

    def gi(self, idx, tok, tag, expect=None, itext=None, pre_text=None):
        kind = self.kind

        def run(g, idx=idx):
            sub = g[idx]
            if type(sub) is not (expect or type(g)):
                return "wrong-type:" + type(sub).__name__
            dom = "0"
            if kind == "oned" and sub.domain is not None:
                dom = f"1 {f2b(sub.domain[0])} {f2b(sub.domain[1])}"
            return f"G {B.MODEL_CLS[kind]} {B._mat(sub.points)} {fvec(sub.weights)} {dom}"
        self._push(tok, (pre_text + "\n" if pre_text else "") + f"g[{itext or B._descr(idx)}]", "getitem:" + tag, run)


def _rows(g):
    pts = np.asarray(g.points, dtype=float)
    return pts.reshape(len(pts), -1) if len(pts) else np.zeros((0, 1))


def exact_d2(g, c):
    """Squared distances of the current points to `c` as exact fractions of the stored doubles."""
    cq = [Fraction(float(x)) for x in np.atleast_1d(np.asarray(c, dtype=float))]
    return [sum((Fraction(float(a)) - b) ** 2 for a, b in zip(p, cq)) for p in _rows(g)]


def exact_answer(g, c, r):
    """The canonical answer `L indices points weights` by exact rational arithmetic."""
    pts, w = np.asarray(g.points), np.asarray(g.weights)
    if math.isinf(r):
        idx = list(range(len(pts)))
    else:
        r2 = Fraction(float(r)) ** 2
        idx = [i for i, d2 in enumerate(exact_d2(g, c)) if d2 <= r2]
    return "L " + vec(idx) + " " + B._mat(pts[idx] if idx else pts[:0]) + " " + fvec(w[idx] if idx else w[:0])


def rounding_free(d2s, r):
    """Is `d² <= r*r` in double arithmetic (what cKDTree and the model's `Float` instance evaluate) the exact
    comparison for every point?  (the d² of the dyadic classes are exact doubles)"""
    if math.isinf(r):
        return True
    rr = float(r) * float(r)
    r2 = Fraction(float(r)) ** 2
    for d2 in d2s:
        f = float(d2)
        if Fraction(f) != d2:
            return False
        if (f <= rr) != (d2 <= r2):
            return False
    return True


def margin_free(d2s, r):
    """Every distance is at least 2e-7 (relative) away from r, or exactly zero with r zero."""
    if math.isinf(r):
        return True
    r2 = Fraction(float(r)) ** 2
    lo, hi = r2 * Fraction(1 - 4e-7), r2 * Fraction(1 + 4e-7)
    return all((d2 == 0 and r2 == 0) or d2 < lo or d2 > hi for d2 in d2s)


def fsqrt(d2):
    """sqrt of a non-negative fraction as a double (no overflow below 1e308)."""
    try:
        return math.sqrt(float(d2))
    except OverflowError:
        return float(math.isqrt(int(d2)))


# ----------------------------------------------------------------------------------------------------
# class `exact`
# ----------------------------------------------------------------------------------------------------
XW = [1.0, 0.5, -0.0, 1e-300, 1e300, TINY, -2.5, 1e-12, 1e12]


def _dyadic_object(rng, M, kind):
    """-> (object, scale, shift): coordinates (k/4)*scale + shift with |k| <= 8 (all exactly representable)."""
    bg = M["basegrid"]
    n = rng.choice([1, 1, 2, 3, 3, 4, 5, 7, 17, 40])          # more than 16 points: more than one leaf of the tree
    d = 1 if kind in ("grid1", "oned") else rng.choice([1, 2, 3])
    scale = 2.0 ** rng.choice([0, 0, 0, 0, -2, 3, -40, 40])
    shift = scale * rng.choice([0, 0, 0, 2.0 ** 10, -(2.0 ** 20), 2.0 ** 15 + 1])
    if rng.random() < 0.15:
        ks = np.tile(np.array([rng.randrange(-8, 9) for _ in range(d)]), (n, 1))     # all points identical
    elif rng.random() < 0.3 and d == 1:
        ks = np.arange(n).reshape(n, 1) - n // 2                                      # an equidistant 1-D grid
    else:
        ks = np.array([rng.randrange(-8, 9) for _ in range(n * d)]).reshape(n, d)
    pts = (ks / 4.0) * scale + shift
    w = np.array([rng.choice(XW + [rng.uniform(-1, 3)]) for _ in range(n)])
    if kind == "grid":
        g = bg.Grid(pts, w)
    elif kind == "grid1":
        g = bg.Grid(pts[:, 0].copy(), w)
    elif kind == "oned":
        p = pts[:, 0].copy()
        dom = None if rng.random() < 0.5 else (float(p.min()), float(p.max()))
        g = bg.OneDGrid(p, w, dom)
    else:
        g = bg.LocalGrid(pts, w, np.zeros(d), np.arange(n))
    return g, scale, shift


def _dyadic_centre(rng, g, scale, shift):
    rows = _rows(g)
    d = rows.shape[1]
    how = rng.choice(["on", "on", "lattice", "lattice", "far", "far2"])
    if how == "on":
        c = rows[rng.randrange(len(rows))].copy()
    elif how == "lattice":
        c = np.array([rng.randrange(-10, 11) / 4.0 for _ in range(d)]) * scale + shift
    elif how == "far":
        c = np.array([rng.choice([-1, 1]) * 2.0 ** rng.choice([10, 12]) for _ in range(d)]) * scale + shift
    else:
        c = np.array([rng.choice([0, 1, -3]) * 2.0 ** 16 + rng.randrange(-8, 9) / 4.0 for _ in range(d)]) * scale + shift
    return (float(c[0]) if np.asarray(g.points).ndim == 1 else c), how


def _exact_radii(rng, d2s):
    """-> list of (radius, tag) around the distances of some points, and the special values."""
    out = [(0.0, "zero"), (-0.0, "negzero"), (TINY, "denorm"), (FMAX, "fmax"), (math.inf, "inf")]
    pos = sorted({d2 for d2 in d2s if d2 > 0})
    picks = []
    if pos:
        picks = [pos[0], pos[-1], rng.choice(pos)]
    for d2 in picks:
        fl = math.sqrt(float(d2))
        exact = Fraction(fl) ** 2 == d2
        out += [(fl, "dist-eq" if exact else "dist-sqrt"), (float(np.nextafter(fl, 0.0)), "dist-ulp-below"),
                (float(np.nextafter(fl, math.inf)), "dist-ulp-above"), (fl * (1 - 1e-10), "dist-1e-10-below"),
                (fl * (1 + 1e-10), "dist-1e-10-above"), (fl / 1.01, "dist/1.01"), (fl * 1.01, "dist*1.01"),
                (fl / 100, "dist/100"), (fl * 100, "dist*100")]
    return out


def gen_exact(ctx, M, n):
    rng = ctx.rng
    hs = []
    kinds = ["grid", "grid1", "oned", "loc"]
    for i in range(n):
        kind = kinds[i % 4]
        g, scale, shift = _dyadic_object(rng, M, kind)
        h = Script(kind, g, rng, M, "exact")
        for step in range(rng.choice([1, 2, 2, 3])):
            c, how = _dyadic_centre(rng, g, scale, shift)
            d2s = exact_d2(g, c)
            allr = _exact_radii(rng, d2s)
            cands = [(r, t) for r, t in allr if rounding_free(d2s, r)]
            ctx.tagc("exact:radius-left-out(rounding-tie)", len(allr) - len(cands))
            for r, t in rng.sample(cands, min(len(cands), rng.choice([2, 3, 5]))):
                h.q(c, r, f"{t}|centre-{how}", ref=True)
            if step == 0 and rng.random() < 0.5 and len(_rows(g)):
                # reassignment by an exact translation / reflection keeps the class
                pts = np.asarray(g.points, dtype=float)
                new = rng.choice([pts + 0.5 * scale, (2 * shift - pts)[::-1].copy(), pts[::-1].copy()])
                h.sp(new, "dyadic", same_obj=rng.random() < 0.3)
            elif rng.random() < 0.3:
                h.sw(np.array([rng.choice(XW) for _ in range(len(_rows(g)))]), "extreme")
        if h.tokens:
            hs.append(h)
    return hs


# ----------------------------------------------------------------------------------------------------
# class `special`
# ----------------------------------------------------------------------------------------------------
def _special_object(rng, M, i):
    bg = M["basegrid"]
    what = ["ident", "single", "atom-r0", "any"][i % 4]
    if what == "ident":
        kind = rng.choice(["grid", "grid1", "oned", "loc"])
        n = rng.choice([2, 3, 5, 20])
        d = 1 if kind in ("grid1", "oned") else rng.choice([1, 2, 3])
        p0 = np.array([rng.uniform(-2, 2) for _ in range(d)])
        pts = np.tile(p0, (n, 1))
        w = B._weights(rng, n)
        g = {"grid": lambda: bg.Grid(pts, w), "grid1": lambda: bg.Grid(pts[:, 0].copy(), w),
             "oned": lambda: bg.OneDGrid(pts[:, 0].copy(), w, None),
             "loc": lambda: bg.LocalGrid(pts, w, np.zeros(d), np.arange(n))}[kind]()
    elif what == "single":
        kind = rng.choice(["grid", "grid1", "oned", "loc"])
        d = 1 if kind in ("grid1", "oned") else rng.choice([1, 2, 3])
        pts = np.array([[rng.uniform(-2, 2) for _ in range(d)]])
        w = B._weights(rng, 1)
        g = {"grid": lambda: bg.Grid(pts, w), "grid1": lambda: bg.Grid(pts[:, 0].copy(), w),
             "oned": lambda: bg.OneDGrid(pts[:, 0].copy(), w, (float(pts[0, 0]) - 1.0, float(pts[0, 0]) + 1.0)),
             "loc": lambda: bg.LocalGrid(pts, w, np.zeros(d), np.arange(1))}[kind]()
    elif what == "atom-r0":
        kind = "atom"
        rg = bg.OneDGrid(np.array([0.0, rng.uniform(0.3, 2.0)]), np.ones(2), (0, np.inf))
        c = rng.choice([None, B._coords(rng, (3,), True), B._coords(rng, (3,), False)])
        g = M["atomgrid"].AtomGrid(rg, degrees=[rng.choice([3, 5])], center=c, rotate=rng.choice([0, 7]))
    else:
        kind = rng.choice(["atom", "mol", "uniform", "tensor"])
        g = B.build(kind, rng, M)
    if not hasattr(g, "_gv_ctor"):
        g._gv_ctor = B._ctor_text(kind, g)
    return kind, g, what


def _special_queries(rng, g):
    """-> list of (centre, radius, tag) with every distance 4e-7 (relative) away from the radius."""
    rows = _rows(g)
    oned = np.asarray(g.points).ndim == 1
    d = rows.shape[1]
    out = []
    centres = [(rows[rng.randrange(len(rows))].copy(), "on"), (np.zeros(d), "origin"),
               (rows[0] + np.array([rng.uniform(-1e-9, 1e-9) for _ in range(d)]), "near-1e-9"),
               (np.full(d, rng.choice([1e3, -1e8, 2.0 ** 20])), "far"), (np.full(d, rng.choice([1e150, -1e150])), "far-1e150")]
    if hasattr(g, "center") and hasattr(g, "rgrid"):
        centres.append((np.asarray(g.center, dtype=float).copy(), "atom-centre"))
    for c, how in rng.sample(centres, 3):
        cc = float(c[0]) if oned else c
        d2s = exact_d2(g, cc)
        ds = sorted(fsqrt(x) for x in d2s)
        rs = [(0.0, "zero"), (1e-12, "tiny"), (1e6, "huge"), (1e300, "huge"), (FMAX, "fmax"), (math.inf, "inf")]
        if ds[0] > 0:
            rs += [(ds[0] / 1.01, "below-nearest"), (ds[0] * 1.01, "above-nearest")]
        if ds[-1] > 0:
            rs += [(ds[-1] / 1.01, "below-farthest"), (ds[-1] * 1.01, "above-farthest"), (ds[-1] * 100, "100x-farthest")]
        for r, t in rng.sample(rs, 4):
            if math.isfinite(r) and not margin_free(d2s, r):
                continue
            out.append((cc, float(r), f"{t}|centre-{how}"))
    return out


def gen_special(ctx, M, n):
    rng = ctx.rng
    hs = []
    for i in range(n):
        kind, g, what = _special_object(rng, M, i)
        h = Script(kind, g, rng, M, "special-" + what)
        for c, r, t in _special_queries(rng, g):
            h.q(c, r, t, ref=True)
        if h.tokens:
            hs.append(h)
    return hs


# ----------------------------------------------------------------------------------------------------
# class `handout`
# ----------------------------------------------------------------------------------------------------
def _tamper_inplace(g):
    lg = g._gv_lg
    if len(lg.indices):
        lg.points[...] = lg.points + 1.0
        lg.weights[...] = lg.weights * 2.0 + 1.0
        lg.indices[...] = 0


def _tamper_setters(g):
    lg = g._gv_lg
    lg.points = lg.points + 1.0
    lg.weights = lg.weights * 2.0 + 1.0


TAMPER = {
    "inplace": (_tamper_inplace, "lg.points[...] = lg.points + 1.0; lg.weights[...] = lg.weights * 2.0 + 1.0; lg.indices[...] = 0"),
    "setters": (_tamper_setters, "lg.points = lg.points + 1.0; lg.weights = lg.weights * 2.0 + 1.0"),
}


def _query_args(rng, g, finite=True):
    """A centre and a radius with the usual margin; finite radius unless asked otherwise."""
    pts = np.asarray(g.points)
    oned = pts.ndim == 1
    dim = 1 if oned else pts.shape[1]
    c, how = B._centre(rng, g, oned, dim)
    for _ in range(20):
        rc, r, dist = B._radius(rng, pts, c, oned)
        if (not finite) or math.isfinite(r):
            break
    else:
        rc, r = "huge", 1e6
    if not finite and rng.random() < 0.5:
        rc, r = "inf", math.inf
    return c, r, f"{rc}|centre-{how}"


def gen_handout(ctx, M, n):
    rng = ctx.rng
    hs = []
    for i in range(n):
        kind = B.KINDS[i % len(B.KINDS)]
        g = B.build(kind, rng, M)
        if len(np.asarray(g.points)) == 0:
            continue
        h = Script(kind, g, rng, M, "handout")
        c, r, t = _query_args(rng, g, finite=rng.random() < 0.7)
        how = "setters" if math.isinf(r) else rng.choice(["inplace", "inplace", "setters"])
        h.q(c, r, t, ref=True)
        # the caller edits what it was handed, then asks again: the same answer; the infinite-radius query shows
        # the parent's own points and weights
        t = t.partition("|")[0]
        h.q(c, r, t + ":again-after-" + how, tamper=TAMPER[how], ref=True)
        h.q(c, math.inf, "inf:parent-after-" + how, ref=True)
        child = None
        if math.isfinite(r) and not h.impl[0].startswith(("E ", "wrong")):
            lg = g.get_localgrid(c, r)
            if len(lg.indices):
                lg._gv_ctor = f"({h.ctor}).get_localgrid({B._descr(c)}, {B._descr(r)})"
                child = B.History("loc", lg, rng, M)
                child.head = B.header("loc", lg)
                child.ctor = lg._gv_ctor
                child.second = None
                child.cls = "handout-child"
                for _ in range(rng.choice([2, 3, 4])):
                    child.op()
                child.tags = ["handout-child:" + x for x in child.tags]
                child.line = (lambda ch=child: f"{ch.head} {len(ch.tokens)} " + " ".join(ch.tokens))
                child.refs = [None] * len(child.tokens)
                # after the local grid lived its own life the parent still answers as before
                h.q(c, r, t + ":again-after-child-history", ref=True)
        hs.append(h)
        if child is not None:
            hs.append(child)
    return hs


# ----------------------------------------------------------------------------------------------------
# class `orders`
# ----------------------------------------------------------------------------------------------------
def gen_orders(ctx, M, depth, kinds=None):
    rng = ctx.rng
    hs = []
    alphabet = ["qa", "qb", "qi", "sp", "sw", "gi"]
    seqs = [s for k in range(depth + 1) for s in itertools.product(alphabet, repeat=k)]
    for kind in (kinds or B.KINDS):
        for seq in seqs:
            if kind == "mol" and "gi" in seq:
                continue    # MolGrid.__getitem__ is another operation
            while True:
                g = B.build(kind, rng, M)
                if len(np.asarray(g.points)) >= 2:
                    break
            h = Script(kind, g, rng, M, "orders")
            ca, ra, _ = _query_args(rng, g)
            cb, rb, _ = _query_args(rng, g)
            name = "-".join(seq) or "none"

            def query(c, r0, tag):
                # (the points may have been reassigned: keep the margin against the *current* distances)
                r = r0
                d2s = exact_d2(h.g, c)
                for _ in range(60):
                    if margin_free(d2s, r):
                        break
                    r = r * (1 + 3e-6) + 1e-9
                h.q(c, r, tag, ref=True)
            for op in seq + ("qa", "qb"):
                n = len(np.asarray(h.g.points))
                if op == "qa":
                    query(ca, ra, "A")
                elif op == "qb":
                    query(cb, rb, "B")
                elif op == "qi":
                    h.q(ca, math.inf, "inf", ref=True)
                elif op == "sp":
                    pts = np.asarray(h.g.points, dtype=float)
                    h.sp(rng.choice([pts + 0.5, pts[::-1].copy(), pts * 1.0 - 1.25]), "order",
                         same_obj=(kind != "atom" and rng.random() < 0.3 and np.asarray(h.g.points).dtype == np.float64
                                   and np.asarray(h.g.points).flags.writeable))
                elif op == "sw":
                    h.sw(np.asarray(h.g.weights, dtype=float) * 2.0 + 1.0, "order")
                else:
                    idx, tok = rng.choice([(slice(1, None), "gi s 1 N N"), (-1, "gi i -1"), (np.int64(0), "gi n 0"),
                                           (np.arange(n)[::-1].copy(), "gi a " + vec(range(n - 1, -1, -1)))])
                    h.gi(idx, tok, "order")
            h.tags = [f"{x}" for x in h.tags]
            h.seq = name
            hs.append(h)
    return hs


# ----------------------------------------------------------------------------------------------------
# class `domain`: the 1e-7 slack of OneDGrid.__init__ as __getitem__ meets it
# ----------------------------------------------------------------------------------------------------
def gen_domain(ctx, M, n):
    rng = ctx.rng
    bg = M["basegrid"]
    hs = []
    deltas = [("0.99e-7", 0.99e-7), ("1e-7", 1e-7), ("1.01e-7", 1.01e-7), ("1e-9", 1e-9), ("1e-5", 1e-5), ("0", 0.0)]
    for i in range(n):
        m = rng.choice([2, 3, 5])
        p = np.sort(np.array([rng.uniform(-2, 2) for _ in range(m)]))
        lo, hi = float(p[0]) - rng.choice([0.0, 0.25]), float(p[-1]) + rng.choice([0.0, 0.25])
        if i % 7 == 0:
            lo, hi = float(round(lo * 4) / 4 - 1), float(round(hi * 4) / 4 + 1)     # dyadic bounds
        g = bg.OneDGrid(p.copy(), B._weights(rng, m), (lo, hi))
        h = Script("oned", g, rng, M, "domain")
        name, dl = deltas[i % len(deltas)]
        side = rng.choice(["below", "above"])
        new = p.copy()
        k = 0 if side == "below" else m - 1
        new[k] = (lo - dl) if side == "below" else (hi + dl)
        if name == "1e-7" and rng.random() < 0.5:
            # one ulp beyond the slack
            new[k] = float(np.nextafter(new[k], -math.inf if side == "below" else math.inf))
            name = "1e-7+ulp"
        # (the setter does not look at the domain; the constructor of the selection does)
        h.sp(new, f"outside-by-{name}|{side}")
        kk = k if k == 0 else -1
        h.gi(kk, f"gi i {kk}", f"outside-by-{name}:selected|int")
        h.gi(slice(None, None, None), "gi s N N N", f"outside-by-{name}:selected|slice")
        other = slice(1, None) if side == "below" else slice(None, -1)
        h.gi(other, "gi s 1 N N" if side == "below" else "gi s N -1 N", f"outside-by-{name}:not-selected")
        mk = np.zeros(m, dtype=bool)
        mk[k] = True
        h.gi(mk, "gi m " + vec(int(b) for b in mk), f"outside-by-{name}:selected|mask")
        hs.append(h)
    return hs


# ----------------------------------------------------------------------------------------------------
# class `ctor`: the generated constructors and the keyword arguments of the neighbour search
# ----------------------------------------------------------------------------------------------------
def _arr(ndim, n, dtype=float):
    if ndim == 0:
        return np.array(1, dtype=dtype)
    return np.zeros((n,) + (2,) * (ndim - 1), dtype=dtype)


def corr_ctor(ctx, M):
    bg = M["basegrid"]
    lines, impl, texts = [], [], []

    def shape_of(a):
        return f"{a.ndim} {len(a) if a.ndim else 0}"
    for pnd, plen, wnd, wlen in itertools.product([0, 1, 2, 3], [0, 1, 3], [0, 1, 2], [0, 1, 3, 4]):
        if (pnd == 0 and plen) or (wnd == 0 and wlen):
            continue
        p, w = _arr(pnd, plen), _arr(wnd, wlen)
        lines.append(f"C10.ginit {pnd} {plen} {wnd} {wlen}")
        texts.append(f"Grid(np.zeros({p.shape}), np.zeros({w.shape}))")
        try:
            g = bg.Grid(p, w)
            ok = g._points is p and g._weights is w and g.points is p and g.weights is w
            impl.append(f"ok p {shape_of(g._points)} w {shape_of(g._weights)} t {0 if g._kdtree is None else 1}" if ok else "other-arrays")
        except Exception as e:  # noqa: BLE001
            impl.append(B._errtag(e))
        idxs = [None] + [(ind, ilen) for ind in (0, 1, 2) for ilen in (0, 1, 3, 4) if not (ind == 0 and ilen)]
        for ix in idxs:
            idx = None if ix is None else _arr(ix[0], ix[1], dtype=int)
            c = np.zeros(p.shape[1:]) if pnd else np.zeros(())
            lines.append(f"C10.lginit {pnd} {plen} {wnd} {wlen} " + ("N" if ix is None else f"{ix[0]} {ix[1]}"))
            texts.append(f"LocalGrid(np.zeros({p.shape}), np.zeros({w.shape}), center, " + ("None" if idx is None else f"np.zeros({idx.shape}, dtype=int)") + ")")
            try:
                lg = bg.LocalGrid(p, w, c, idx)
                ok = (lg._points is p and lg._weights is w and lg._indices is idx and lg._center is c and lg.indices is idx
                      and lg.center is c)
                impl.append((f"ok p {shape_of(lg._points)} w {shape_of(lg._weights)} t {0 if lg._kdtree is None else 1} i "
                             + ("N" if lg._indices is None else shape_of(lg._indices))) if ok else "other-arrays")
            except Exception as e:  # noqa: BLE001
                impl.append(B._errtag(e))
    # the keyword arguments the neighbour search really receives
    import inspect
    from scipy.spatial import cKDTree
    seen = {}

    class Recorder(cKDTree):
        def __init__(self, data, *a, **kw):
            seen["cKDTree"] = (a, dict(kw))
            super().__init__(data, *a, **kw)

        def query_ball_point(self, x, r, *a, **kw):
            seen["query_ball_point"] = (a, dict(kw))
            return super().query_ball_point(x, r, *a, **kw)
    mod = M["basegrid"]
    saved = mod.cKDTree
    try:
        mod.cKDTree = Recorder
        bg.Grid(np.array([[0.0, 0.0], [1.0, 0.0]]), np.ones(2)).get_localgrid(np.zeros(2), 0.5)
    finally:
        mod.cKDTree = saved
    vals = {}
    for which, fn, skip in (("cKDTree", cKDTree, 1), ("query_ball_point", cKDTree.query_ball_point, 3)):
        ps = list(inspect.signature(fn).parameters.values())[skip:]
        a, kw = seen.get(which, ((), {}))
        for k, par in enumerate(ps):
            if par.kind in (par.VAR_KEYWORD, par.VAR_POSITIONAL):
                continue
            vals[par.name] = a[k] if k < len(a) else kw.get(par.name, par.default)
    p_, eps_ = Fraction(repr(float(vals["p"]))), Fraction(repr(float(vals["eps"])))
    lines.append("C10.treeargs")
    texts.append("keyword arguments received by cKDTree(...) / query_ball_point(...) in Grid.get_localgrid")
    impl.append(f"ok {int(vals['leafsize'])} {1 if vals['boxsize'] is None else 0} {p_.numerator} {p_.denominator} "
                f"{eps_.numerator} {eps_.denominator}" if not vals.get("return_length") else "return-length")
    answers = driver_batch(lines)
    for line, a, b, t in zip(lines, impl, answers, texts):
        op = line.split()[0]
        ctx.count(line, nontrivial=True, tag="ctor:" + op + (":error" if not a.startswith("ok") else ""))
        if a != b:
            ctx.fail("corr", "ctor:" + op, f"{t}: implementation {a!r}, generated constructor {b!r}",
                     witness={"call": t, "implementation": a, "model": b})


# ----------------------------------------------------------------------------------------------------
# entry points
# ----------------------------------------------------------------------------------------------------
def _budget(ctx, oracle):
    f = 6 if oracle == "large" else 1
    return (lambda a, b: f * ctx.n(a, b)), f


def script_classes(ctx, M, oracle=False):
    """-> [(class name, generator thunk)]: each class is generated (and run on the implementation) on its own."""
    q, f = _budget(ctx, oracle)
    out = [("exact", lambda: gen_exact(ctx, M, q(500, 4000) if not oracle else q(250, 2500))),
           ("special", lambda: gen_special(ctx, M, q(240, 2000) if not oracle else q(120, 1200))),
           ("handout", lambda: gen_handout(ctx, M, q(240, 2000) if not oracle else q(120, 1200))),
           ("orders", lambda: gen_orders(ctx, M, ctx.n(2, 3) if not oracle else (2 if f > 1 else ctx.n(1, 2))))]
    if not oracle:
        out.append(("domain", lambda: gen_domain(ctx, M, q(120, 1200))))
    return out


def corr_scripts(ctx, gen):
    hs = [h for h in gen() if h.tokens]      # (a script whose every candidate query was left out has nothing to compare)
    lines = [h.line() for h in hs]
    B._compare(ctx, hs, lines, driver_batch(lines))
    for h in hs:
        for t in getattr(h, "extra_tags", ()):
            ctx.tagc(t)


def corr_parts(ctx, M):
    return [("scripted:" + name, (lambda gen=gen: corr_scripts(ctx, gen))) for name, gen in script_classes(ctx, M)] \
        + [("ctor", lambda: corr_ctor(ctx, M))]


SNIP_EXACT = """
# exact rational reference on the stored doubles
from fractions import Fraction
def inside(g, c, r):
    pts = np.asarray(g.points, dtype=float); pts = pts.reshape(len(pts), -1)
    if r == np.inf:
        return list(range(len(pts)))
    cq = [Fraction(float(x)) for x in np.atleast_1d(np.asarray(c, dtype=float))]
    return [i for i, p in enumerate(pts) if sum((Fraction(float(a)) - b) ** 2 for a, b in zip(p, cq)) <= Fraction(float(r)) ** 2]
"""


def oracle_ties(ctx, M, n):
    """Class 12 on the grid types whose points are not dyadic (atomic, molecular, rectilinear): the radius is *exactly* the
    computed distance of a grid point — a point on a radial shell of the atom the sphere is centred on, a lattice point of
    a rectilinear grid.  Membership of points whose distance is within 1e-9 (relative) of the radius is a rounding tie and
    is left open; everything else is decided: `must ⊆ indices ⊆ may`, each index once, the parent's points / weights."""
    rng = ctx.rng
    for i in range(n):
        kind = ["atom", "mol", "uniform", "tensor", "atom"][i % 5]
        g = B.build(kind, rng, M)
        pts, w = np.array(g.points, dtype=float), np.array(g.weights, dtype=float)
        if kind == "atom" or (kind == "mol" and rng.random() < 0.7):
            at = g if kind == "atom" else g._atgrids[rng.randrange(len(g._atgrids))]
            c = np.array(at.center, dtype=float)
            r = float(rng.choice(list(np.asarray(at.rgrid.points))))      # a shell radius
            how = "shell-radius"
        else:
            c = pts[rng.randrange(len(pts))].copy() if rng.random() < 0.6 else np.zeros(pts.shape[1])
            k = rng.randrange(len(pts))
            r = float(np.linalg.norm(pts[k] - c))                          # the distance of a grid point as NumPy computes it
            how = "point-distance"
        d2s = exact_d2(g, c)
        r2 = Fraction(r) ** 2
        must = [k for k, d2 in enumerate(d2s) if d2 < r2 * Fraction(1 - 2e-9)]
        may = [k for k, d2 in enumerate(d2s) if d2 <= r2 * Fraction(1 + 2e-9)]
        path = B.PATH[kind]
        ctx.count((kind, B._descr(c), r), nontrivial=len(may) > len(must), tag=f"oracle:tie:{kind}:{how}")
        snippet = (B.SNIP_HEAD + SNIP_EXACT + "g = " + g._gv_ctor.split("  #")[0] + f"\nc, r = {B._descr(c)}, {B._descr(r)}\n"
                   "lg = g.get_localgrid(c, r)\nidx = sorted(map(int, lg.indices))\n"
                   "must, may = inside(g, c, r * (1 - 1e-9)), inside(g, c, r * (1 + 1e-9))\n"
                   "assert len(set(idx)) == len(idx) and set(must) <= set(idx) <= set(may), (idx, must, may)\n"
                   "assert np.array_equal(lg.points, np.asarray(g.points)[lg.indices]) and np.array_equal(lg.weights, np.asarray(g.weights)[lg.indices])\n")
        try:
            lg = g.get_localgrid(c, r)
            idx = [int(k) for k in lg.indices]
            ok = (len(set(idx)) == len(idx) and set(must) <= set(idx) <= set(may)
                  and np.array_equal(np.asarray(lg.points), pts[idx] if idx else pts[:0])
                  and np.array_equal(np.asarray(lg.weights), w[idx] if idx else w[:0]))
            seen = f"indices {sorted(idx)[:12]}"
        except Exception as e:  # noqa: BLE001
            ok, seen = False, f"raised {type(e).__name__}: {str(e)[:80]}"
        if not ok:
            ctx.fail("oracle", f"{path}.get_localgrid:tie-{how}",
                     f"{path}.get_localgrid(center={B._descr(c)}, radius={r!r}) (radius = {how}): {seen}; clearly inside: {must[:12]}, "
                     f"inside or on the sphere: {may[:12]}", witness={"class": path, "constructor": g._gv_ctor, "center": c, "radius": r,
                                                                      "must": must, "may": may}, snippet=snippet)


def oracle_periodic(ctx, M, depth, nhand):
    """Classes 9 and 10 on `PeriodicGrid` (its model and driver belong to C11; here the *history* clause is evaluated on
    the implementation): every sequence of up to `depth` operations out of {query, points=, weights=, selection} followed
    by two queries, each query against the brute-force image enumeration of C11 (grids without lattice vectors: exact
    membership); and a handed-out local grid edited by the caller, after which the same query gives the same answer and
    the parent still has its points and weights."""
    from .c11 import brute_images, build_periodic
    rng = ctx.rng
    path = B.PATH["periodic"]
    alphabet = ["q", "sp", "sw", "gi"]

    def one_query(g, pre):
        pts = np.asarray(g.points)
        oned = pts.ndim == 1
        dim = 1 if oned else pts.shape[1]
        c, _ = B._centre(rng, g, oned, dim)
        if len(np.atleast_1d(g.realvecs).reshape(-1)) > 0:
            B._check_periodic_query(ctx, g, c, rng, pre, path, brute_images)
            pre.append("# (query)")
        else:
            _, r, _ = B._radius(rng, pts, c, oned)
            r = 1e6 if math.isinf(r) else r
            B._check_query(ctx, "periodic", g, c, r, None, pre, path)
            pre.append(f"g.get_localgrid({B._descr(c)}, {B._descr(r)})")
    for seq in [s for k in range(depth + 1) for s in itertools.product(alphabet, repeat=k)]:
        while True:
            g = build_periodic(rng, M)
            if len(np.asarray(g.points)) >= 2:
                break
        pre = ["g = " + B._ctor_text("periodic", g)]
        ctx.count(("periodic-orders", seq, pre[0]), nontrivial=bool(seq), tag="oracle:orders:periodic", n=len(seq) + 2)
        for op in seq + ("q", "q"):
            pts = np.asarray(g.points)
            n = len(pts)
            if op == "q":
                one_query(g, pre)
            elif op == "sp":
                new = rng.choice([np.asarray(pts, dtype=float) + 0.25, pts[::-1].copy()])
                g.points = new
                pre.append(f"g.points = {B._descr(new)}")
            elif op == "sw":
                new = np.asarray(g.weights, dtype=float) * 2.0 + 1.0
                g.weights = new
                pre.append(f"g.weights = {B._descr(new)}")
            else:
                idx = rng.choice([slice(1, None), -1, np.int64(0), np.arange(n)[::-1].copy()])
                B._check_getitem(ctx, "periodic", g, type(idx).__name__, idx, pre, path)
    for _ in range(nhand):
        while True:
            g = build_periodic(rng, M)
            if len(np.asarray(g.points)) >= 1:
                break
        pts0, w0 = np.array(g.points, copy=True), np.array(g.weights, copy=True)
        oned = pts0.ndim == 1
        c, _ = B._centre(rng, g, oned, 1 if oned else pts0.shape[1])
        a = np.asarray(g.realvecs, dtype=float)
        scale = float(np.linalg.norm(a.reshape(-1, 1 if oned else pts0.shape[1]), axis=1).min()) if a.size else 1.0
        r = rng.choice([0.05, 0.3, 0.8, 1.7]) * scale
        how = rng.choice(["inplace", "setters"])
        ctor = B._ctor_text("periodic", g)
        ctx.count(("periodic-handout", ctor, B._descr(c), r, how), nontrivial=True, tag="oracle:handout:periodic")
        snippet = (B.SNIP_HEAD + f"g = {ctor}\nc, r = {B._descr(c)}, {r!r}\npts0, w0 = np.array(g.points), np.array(g.weights)\n"
                   "lg = g.get_localgrid(c, r)\nfirst = (np.array(lg.indices), np.array(lg.points), np.array(lg.weights))\n"
                   + TAMPER[how][1] + "\nlg2 = g.get_localgrid(c, r)\n"
                   "assert all(np.array_equal(x, y) for x, y in zip(first, (lg2.indices, lg2.points, lg2.weights))), 'the second answer is not the first'\n"
                   "assert np.array_equal(g.points, pts0) and np.array_equal(g.weights, w0), 'the parent changed'\n")
        try:
            lg = g.get_localgrid(c, r)
            first = (np.array(lg.indices), np.array(lg.points), np.array(lg.weights))
            g._gv_lg = lg
            TAMPER[how][0](g)
            lg2 = g.get_localgrid(c, r)
            same = all(np.array_equal(x, y) for x, y in zip(first, (lg2.indices, lg2.points, lg2.weights)))
            parent = np.array_equal(np.asarray(g.points), pts0) and np.array_equal(np.asarray(g.weights), w0)
            what = None if same and parent else ("the second answer differs from the first" if not same else "the parent's points / weights changed")
        except Exception as e:  # noqa: BLE001
            what = f"raised {type(e).__name__}: {str(e)[:80]}"
        if what:
            ctx.fail("oracle", f"{path}.get_localgrid:handout",
                     f"{path}: lg = g.get_localgrid({B._descr(c)}, {r!r}); the caller edits lg ({how}); g.get_localgrid again: {what}",
                     witness={"class": path, "constructor": ctor, "center": c, "radius": r, "edit": TAMPER[how][1]}, snippet=snippet)


def oracle_scripts(ctx, hs):
    """The property on the implementation along scripted histories: every query that carries an exact reference must
    return exactly the reference (indices ascending after sorting, the parent's points and weights at these indices)."""
    for h in hs:
        path = B.PATH[h.kind]
        for j, (a, ref) in enumerate(zip(h.impl, h.refs)):
            ctx.count((h.head, tuple(h.tokens[: j + 1])), nontrivial=h.mutated_between or j > 0, tag="oracle:" + h.tags[j].split(":")[0])
            if ref is None or a == ref:
                continue
            last = h.text[j].split("\n")[-1]
            args = ", ".join(h.qargs[j]) if getattr(h, "qargs", None) and h.qargs[j] else "None, None"
            snippet = (B.SNIP_HEAD + SNIP_EXACT + "g = " + h.ctor.split("  #")[0] + "\n" + "\n".join(h.text[:j]) + "\n"
                       + "\n".join(h.text[j].split("\n")[:-1]) + f"\nc, r = {args}\nwant = inside(g, c, r)\n"
                       "pts, w = np.array(g.points), np.array(g.weights)\n"
                       "lg = g.get_localgrid(c, r)   # (an exception here is the failure)\n"
                       "assert sorted(map(int, lg.indices)) == want, f'indices {sorted(map(int, lg.indices))}, inside the sphere are {want}'\n"
                       "assert np.array_equal(lg.points, pts[lg.indices]) and np.array_equal(lg.weights, w[lg.indices]), 'points/weights are not the parent entries'\n")
            sub = h.tags[j].split(":")[0]
            ctx.fail("oracle", f"{path}.get_localgrid:{sub}",
                     f"{path}: `{last[:140]}` (op {j} of a scripted history, class {h.tags[j]}): the implementation answers {a[:90]!r}, "
                     f"the points of the current grid inside the sphere give {ref[:90]!r}",
                     witness={"class": path, "kind": h.kind, "constructor": h.ctor, "history": h.text[: j + 1], "implementation": a,
                              "expected": ref}, snippet=snippet)
            break


def oracle_parts(ctx, M, budget):
    big = "large" if budget == "large" else True
    f = 6 if budget == "large" else 1
    return [("scripted:" + name, (lambda gen=gen: oracle_scripts(ctx, gen()))) for name, gen in script_classes(ctx, M, oracle=big)] + [
        ("ties", lambda: oracle_ties(ctx, M, f * ctx.n(150, 1500))),
        ("periodic", lambda: oracle_periodic(ctx, M, 3 if (budget == "large" or ctx.thorough) else 2, f * ctx.n(60, 600))),
        ("observations", lambda: observations(ctx, M))]


def observations(ctx, M):
    # the arrays of an infinite-radius local grid are the parent's own (recorded, not asserted: aliasing is the
    # subject of C19 / C20, and editing a stored array in place is outside C10)
    bg = M["basegrid"]
    g = bg.Grid(np.array([[0.0, 0.0], [1.0, 0.0]]), np.ones(2))
    lg = g.get_localgrid(np.zeros(2), np.inf)
    if np.shares_memory(lg.points, g.points) or np.shares_memory(lg.weights, g.weights):
        msg = ("observation (out of scope of C10, see C20): the local grid of an infinite radius shares its point and weight "
               "arrays with the parent grid; editing them in place edits the parent")
        if msg not in ctx.infos:
            ctx.info(msg)
    try:
        g.get_localgrid(np.full(2, -1e160), 1e300)
    except Exception as e:  # noqa: BLE001
        msg = ("observation (overflow, outside the model of C10): a centre farther than ~1.3e154 from the grid makes the squared "
               f"distance overflow; Grid.get_localgrid(np.full(2, -1e160), 1e300) raises {type(e).__name__} from cKDTree.query_ball_point")
        if msg not in ctx.infos:
            ctx.info(msg)
